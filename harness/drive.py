"""Drivers for the real thai-lint code: in-process CLI (CliRunner), library API, subprocess CLI.

All functions are meant to be called inside a forked child (see pool.run_jobs) except
`cli_subprocess`, which starts a real interpreter.
"""
from __future__ import annotations

import json
import logging
import os
import subprocess
import sys
from pathlib import Path

from .common import GUARD, PY, REPO

_PRELOADED = False


def preload() -> None:
    """Import thai-lint once in the parent so forked children start warm."""
    global _PRELOADED
    if _PRELOADED:
        return
    if str(REPO) not in sys.path:
        sys.path.insert(0, str(REPO))
    os.environ.setdefault(GUARD, "1")
    import src.api  # noqa: F401
    import src.cli_main  # noqa: F401
    from src.core.rule_discovery import discover_from_package  # noqa: F401
    try:
        discover_from_package("src.linters")  # imports every rule module (warm import cache)
    except Exception:  # noqa: BLE001
        pass
    _PRELOADED = True


class _ListHandler(logging.Handler):
    def __init__(self):
        super().__init__(level=logging.WARNING)
        self.records: list[str] = []

    def emit(self, record):
        try:
            self.records.append(record.getMessage())
        except Exception:  # noqa: BLE001
            self.records.append(str(record.msg))


def _capture_logging() -> _ListHandler:
    h = _ListHandler()
    logging.getLogger("src").addHandler(h)
    return h


def parse_json_violations(stdout: str):
    """Parse `--format json` output -> (list of dicts, total) or (None, None)."""
    try:
        doc = json.loads(stdout)
        return doc["violations"], doc.get("total")
    except Exception:  # noqa: BLE001
        return None, None


def cli(argv: list[str], cwd: str | os.PathLike | None = None, env: dict | None = None) -> dict:
    """Run the CLI in-process. Returns exit code, stdout, stderr, swallowed-rule-failure logs."""
    preload()
    from click.testing import CliRunner

    from src.cli_main import cli as cli_group

    if cwd is not None:
        os.chdir(cwd)
    if env:
        os.environ.update(env)
    h = _capture_logging()
    runner = CliRunner()
    res = runner.invoke(cli_group, argv, catch_exceptions=True)
    exc = None
    if res.exception is not None and not isinstance(res.exception, SystemExit):
        exc = f"{type(res.exception).__name__}: {res.exception}"
    try:
        stderr = res.stderr
    except Exception:  # noqa: BLE001
        stderr = ""
    return {"exit": res.exit_code, "stdout": res.stdout, "stderr": stderr, "exc": exc,
            "logs": h.records}


def cli_json(argv: list[str], cwd=None, env=None) -> dict:
    """Run a linter command with --format json and parse violations."""
    out = cli(list(argv) + ["--format", "json"], cwd=cwd, env=env)
    viol, total = parse_json_violations(out["stdout"])
    out["violations"] = viol
    out["total"] = total
    return out


def viol_dict(v) -> dict:
    return {"rule_id": v.rule_id, "file_path": str(v.file_path), "line": v.line,
            "column": v.column, "message": v.message,
            "severity": getattr(v.severity, "name", str(v.severity)),
            "suggestion": v.suggestion}


def cli_subprocess(argv: list[str], cwd=None, env: dict | None = None, timeout: float = 120,
                   hashseed: str | None = "0") -> dict:
    """Run `python -m src.cli <argv>` as a real process."""
    e = dict(os.environ)
    e["PYTHONPATH"] = str(REPO)
    e[GUARD] = "1"
    if hashseed is not None:
        e["PYTHONHASHSEED"] = hashseed
    if env:
        e.update(env)
    try:
        p = subprocess.run([PY, "-m", "src.cli", *argv], cwd=cwd, env=e, capture_output=True,
                           timeout=timeout, check=False)
    except subprocess.TimeoutExpired:
        return {"exit": None, "stdout": "", "stderr": "", "hang": True, "raw_stdout": b""}
    return {"exit": p.returncode, "stdout": p.stdout.decode("utf-8", "replace"),
            "stderr": p.stderr.decode("utf-8", "replace"), "hang": False, "raw_stdout": p.stdout}


def write_tree(root: Path, files: dict) -> None:
    """Materialise {relative path: str|bytes} under root."""
    for rel, content in files.items():
        p = root / rel
        p.parent.mkdir(parents=True, exist_ok=True)
        if isinstance(content, bytes):
            p.write_bytes(content)
        else:
            with open(p, "w", encoding="utf-8", newline="") as f:
                f.write(content)


def rel(path: str, root: Path) -> str:
    """Normalise a reported path to a project-relative POSIX string (path equality up to spelling)."""
    p = Path(path)
    try:
        if not p.is_absolute():
            p = Path.cwd() / p
        return os.path.relpath(os.path.realpath(p), os.path.realpath(root)).replace(os.sep, "/")
    except Exception:  # noqa: BLE001
        return str(path)
