"""Shared constants and small helpers for the verification harness."""
from __future__ import annotations

import contextlib
import hashlib
import json
import os
import shutil
import sys
import tempfile
import time
from pathlib import Path

VERIF = Path(__file__).resolve().parent.parent
REPO = Path(os.environ.get("VERIF_REPO", "/repo"))
SPEC = VERIF / "spec"
# the registered commands never set these two; tools/try_mutant_wt.sh does, so that a run against a
# seeded change in a scratch worktree leaves the committed evidence and replays alone
EVIDENCE = Path(os.environ.get("VERIF_EVIDENCE_DIR") or VERIF / "evidence")
REPLAYS = Path(os.environ.get("VERIF_REPLAYS_DIR") or VERIF / "replays")
PY = "/venv/bin/python"
GUARD = "THAILINT_VERIF"

NCPU = int(os.environ.get("VERIF_NPROC", os.cpu_count() or 4))


class MachineryError(Exception):
    """Raised for failures of the verification machinery itself (exit 2)."""


def seed() -> int:
    try:
        return int(os.environ.get("VERIF_SEED", "0"))
    except ValueError:
        return 0


_SCRATCH: Path | None = None


def scratch_root() -> Path:
    """Per-process scratch directory outside /repo and /verif; removed at exit."""
    global _SCRATCH
    if _SCRATCH is None:
        base = os.environ.get("VERIF_TMP") or tempfile.gettempdir()
        Path(base).mkdir(parents=True, exist_ok=True)
        _SCRATCH = Path(tempfile.mkdtemp(prefix="tlv-", dir=base)).resolve()
    return _SCRATCH


def cleanup_scratch() -> None:
    global _SCRATCH
    if _SCRATCH is not None:
        shutil.rmtree(_SCRATCH, ignore_errors=True)
        _SCRATCH = None


def mkscratch(prefix: str = "c") -> Path:
    return Path(tempfile.mkdtemp(prefix=prefix + "-", dir=scratch_root()))


def canon(obj) -> str:
    return json.dumps(obj, sort_keys=True, separators=(",", ":"), ensure_ascii=True)


def sha(obj) -> str:
    return hashlib.sha256(canon(obj).encode()).hexdigest()[:16]


@contextlib.contextmanager
def timer():
    t = {"t0": time.time(), "s": 0.0}
    try:
        yield t
    finally:
        t["s"] = time.time() - t["t0"]


def log(*a) -> None:
    print(*a, file=sys.stderr, flush=True)
