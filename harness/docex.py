"""Documented examples (C19): extraction from docs/*-linter.md, the curated catalogue, embeddings.

The catalogue has two parts, both committed:
  catalog/doc_overrides.txt   hand-written while reading the docs: skips (with reason), the kind of
                              fragment, and the expectation wherever the doc states one explicitly
  catalog/doc_examples.json   every remaining source fence with the findings recorded when the
                              catalogue was curated (each reviewed against the doc's own markings)
Example text is always re-read from /repo/docs; entries are keyed by the SHA-256 of the fence text.
"""
from __future__ import annotations

import ast
import hashlib
import io
import json
import keyword
import re
import tokenize
from pathlib import Path

from .common import REPO, VERIF

CATALOG = VERIF / "harness" / "catalog"
OVERRIDES = CATALOG / "doc_overrides.txt"
EXAMPLES = CATALOG / "doc_examples.json"

DOC_CMD = {
    "blocking-async": "blocking-async", "clone-abuse": "clone-abuse", "unwrap-abuse": "unwrap-abuse",
    "collection-pipeline": "pipeline", "cqs": "cqs", "dry": "dry", "file-header": "file-header",
    "file-placement": "file-placement", "improper-logging": "improper-logging",
    "lazy-ignores": "lazy-ignores", "lbyl": "lbyl", "magic-numbers": "magic-numbers",
    "method-property": "method-property", "nesting": "nesting", "performance": "perf",
    "print-statements": "print-statements", "srp": "srp", "stateless-class": "stateless-class",
    "stringly-typed": "stringly-typed",
}
RULE_PREFIX = {
    "blocking-async": "blocking-async.", "clone-abuse": "clone-abuse.", "unwrap-abuse": "unwrap-abuse.",
    "collection-pipeline": "collection-pipeline.", "cqs": "", "dry": "dry.", "file-header": "file-header.",
    "improper-logging": "improper-logging.", "lazy-ignores": "lazy-ignores.", "lbyl": "lbyl.",
    "magic-numbers": "magic-numbers.", "method-property": "method-property.", "nesting": "nesting.",
    "performance": "performance.", "print-statements": "improper-logging.", "srp": "srp.",
    "stateless-class": "stateless-class.", "stringly-typed": "stringly-typed.", "file-placement": "",
}
# the linters for which the property demands context independence
PATTERN_DOCS = {"improper-logging", "print-statements", "method-property", "stateless-class", "collection-pipeline",
                "lbyl", "stringly-typed", "cqs", "performance", "lazy-ignores", "file-header"}
# verdict depends on enclosing loops (string concatenation / regex *in a loop*, clone *in a loop*)
NO_LOOP_DOCS = {"performance", "clone-abuse", "nesting", "cqs"}
# cross-file linters: a lone file is never reported, the example is presented twice (two files of one run)
PAIR_DOCS = {"stringly-typed"}
# docs whose rules count nesting / size: only module-level embeddings keep the documented meaning
MODULE_ONLY_DOCS = {"nesting", "srp", "magic-numbers", "dry", "unwrap-abuse", "clone-abuse", "blocking-async"}

EXT = {"python": "py", "typescript": "ts", "javascript": "js", "rust": "rs", "tsx": "tsx", "js": "js", "ts": "ts"}
LANG = {"python": "python", "typescript": "typescript", "javascript": "typescript", "js": "typescript",
        "ts": "typescript", "tsx": "typescript", "rust": "rust"}

CFGS = {
    "default": "{}\n",
    "dry_on": "dry:\n  enabled: true\n",
    "lbyl_strict": "lbyl:\n  detect_isinstance: true\n  detect_none_check: true\n",
    "nesting3": "nesting:\n  max_nesting_depth: 3\n",
    "unwrap_noexpect": "unwrap-abuse:\n  allow_expect: false\n",
}

FILE_MARK = re.compile(r"^(#|//)\s*(File:\s*)?([\w./-]+\.(py|ts|js|tsx|rs))\s*$")


# ---- extraction -----------------------------------------------------------------------------------
def fences(doc: str) -> list[dict]:
    lines = (REPO / "docs" / f"{doc}-linter.md").read_text().split("\n")
    heads: list[tuple[int, str]] = []
    out = []
    i = 0
    ordinal = 0
    while i < len(lines):
        h = re.match(r"^(#+)\s+(.*)", lines[i])
        if h:
            lvl = len(h.group(1))
            heads = [x for x in heads if x[0] < lvl] + [(lvl, h.group(2).strip())]
        m = re.match(r"^(\s*)```(\w+)\s*$", lines[i])
        if m:
            ind = len(m.group(1))
            lang = m.group(2)
            j = i + 1
            body = []
            while j < len(lines) and not lines[j].strip().startswith("```"):
                body.append(lines[j][ind:] if lines[j][:ind].strip() == "" else lines[j])
                j += 1
            pre = [l for l in lines[max(0, i - 4):i] if l.strip()]
            if lang in EXT:
                text = "\n".join(body) + "\n"
                out.append({"doc": doc, "ordinal": ordinal, "line": i + 1, "lang": lang,
                            "heads": [x[1] for x in heads], "pre": pre[-2:], "text": text,
                            "sha": hashlib.sha256(text.encode()).hexdigest()[:12]})
            ordinal += 1
            i = j
        i += 1
    return out


def all_fences() -> dict[tuple[str, str], dict]:
    out = {}
    for doc in DOC_CMD:
        for f in fences(doc):
            out.setdefault((doc, f["sha"]), f)      # the same snippet may appear twice in one doc
    return out


# ---- overrides ------------------------------------------------------------------------------------
def parse_expect(spec: str, prefix: str) -> list[dict]:
    """'-' | [file:]rule@l,l-l,?;...  ->  [{file, rule, lo, hi, some}]"""
    if spec in ("-", ""):
        return []
    out = []
    for item in spec.split(";"):
        file = ""
        left, _, lines = item.rpartition("@")
        if ":" in left:
            file, _, left = left.rpartition(":")
        rule = prefix + left if prefix and not left.startswith(prefix) else left
        for l in lines.split(","):
            if l == "?":
                out.append({"file": file, "rule": rule, "lo": 1, "hi": 10 ** 6, "some": True})
            elif "-" in l:
                a, b = l.split("-")
                out.append({"file": file, "rule": rule, "lo": int(a), "hi": int(b), "some": False})
            else:
                out.append({"file": file, "rule": rule, "lo": int(l), "hi": int(l), "some": False})
    return out


def load_overrides() -> tuple[dict, dict]:
    per: dict[tuple[str, str], dict] = {}
    docwide: dict[str, dict] = {}
    for raw in OVERRIDES.read_text().splitlines():
        if not raw.strip() or raw.startswith("#"):
            continue
        doc, sha, *dirs = raw.split()
        o = docwide.setdefault(doc, {}) if sha == "*" else per.setdefault((doc, sha), {})
        for d in dirs:
            if d.startswith("skip:"):
                o["skip"] = d[5:]
            elif d.startswith("expect:"):
                o["expect"] = d[7:]
            elif d.startswith("kind:"):
                o["kind"] = d[5:]
            elif d.startswith("cfg:"):
                name, _, spec = d[4:].partition("=")
                o.setdefault("cfgs", {})[name] = spec
            elif d.startswith("basecfg:"):
                o["basecfg"] = d[8:]
            elif d.startswith("lines:"):
                a, b = d[6:].split("-")
                o["lines"] = [int(a), int(b)]
            elif d in ("noloop", "norename", "nomulti", "split"):
                o[d] = True
            else:
                raise ValueError(f"bad directive {d!r} in {raw!r}")
    return per, docwide


def split_parts(text: str) -> list[tuple[str, str]]:
    """A fence that shows several files ('# src/auth.py' marker lines) -> [(name, text incl. marker line)]."""
    lines = text.split("\n")
    if lines and lines[-1] == "":
        lines = lines[:-1]
    marks = [i for i, l in enumerate(lines) if FILE_MARK.match(l)]
    parts = []
    for k, i in enumerate(marks):
        name = FILE_MARK.match(lines[i]).group(3)
        end = marks[k + 1] if k + 1 < len(marks) else len(lines)
        body = lines[i:end]
        while body and body[-1].strip() == "":
            body.pop()
        parts.append((name, "\n".join(body) + "\n"))
    return parts


def example_text(f: dict, o: dict) -> str:
    if "lines" in o:
        a, b = o["lines"]
        return "\n".join(f["text"].split("\n")[a - 1:b]) + "\n"
    return f["text"]


def auto_kind(doc: str, f: dict, o: dict) -> str:
    if o.get("split"):
        return "split"
    if "kind" in o:
        return o["kind"]
    if doc in MODULE_ONLY_DOCS:
        return "module"
    lang = LANG[f["lang"]]
    text = f["text"]
    if lang == "typescript" and re.search(r"^\s*(import|export)\b", text, re.M):
        return "module"
    if lang == "python" and re.search(r"^if __name__ ==", text, re.M):
        return "module"
    return "stmts"


# ---- geometry and rendering -------------------------------------------------------------------------
GEO = {
    "python": {"filler": 5, "hdr": {"func": 1, "class": 1, "if": 1, "try": 1, "with": 1, "for": 1, "while": 1,
                                    "else": 3, "except": 3, "finally": 3, "case": 2}},
    "typescript": {"filler": 5, "hdr": {"func": 1, "class": 2, "if": 1, "try": 1, "with": 1, "for": 1, "while": 1,
                                        "else": 2, "except": 3, "finally": 3, "case": 2}},
    "rust": {"filler": 5, "hdr": {"func": 1, "class": 1, "if": 1, "try": 1, "with": 1, "for": 1, "while": 1,
                                  "else": 2, "except": 1, "finally": 1, "case": 2}},
}
IND = {"python": "    ", "typescript": "  ", "rust": "    "}


def filler(lang: str, n: int) -> list[str]:
    if lang == "python":
        return [f"def filler_fn_{n}(filler_arg_{n}):", f"    filler_total_{n} = filler_arg_{n}",
                f"    return filler_total_{n}", "", ""]
    if lang == "typescript":
        return [f"function fillerFn{n}(fillerArg{n}: number): number {{", f"  const fillerTotal{n} = fillerArg{n};",
                f"  return fillerTotal{n};", "}", ""]
    return [f"fn filler_fn_{n}(filler_arg_{n}: i32) -> i32 {{", f"    let filler_total_{n} = filler_arg_{n};",
            f"    filler_total_{n}", "}", ""]


def frame(lang: str, kind: str, n: int, depth: int) -> tuple[list[str], list[str], int]:
    """(header lines, closing lines, indentation levels added) for one frame at nesting depth `depth`."""
    p = IND[lang] * depth
    i1 = IND[lang]
    if kind in ("else", "except", "finally", "case"):
        if lang == "python":
            heads = {"else": [f"if wrap_flag{n}:", i1 + "pass", "else:"],
                     "except": ["try:", i1 + f"wrap_probe{n}()", f"except WrapError{n}:"],
                     "finally": ["try:", i1 + f"wrap_probe{n}()", "finally:"],
                     "case": [f"match wrap_subject{n}:", i1 + "case _:"]}[kind]
            return [p + h for h in heads], [], 2 if kind == "case" else 1
        if lang == "typescript":
            heads = {"else": [f"if (wrapFlag{n}) {{", "} else {"],
                     "except": ["try {", i1 + f"wrapProbe{n}();", f"}} catch (wrapErr{n}) {{"],
                     "finally": ["try {", i1 + f"wrapProbe{n}();", "} finally {"],
                     "case": [f"switch (wrapSubject{n}) {{", i1 + "default: {"]}[kind]
            close = [p + i1 + "}", p + "}"] if kind == "case" else [p + "}"]
            return [p + h for h in heads], close, 2 if kind == "case" else 1
        heads = {"else": [f"if wrap_flag{n} {{", "} else {"], "except": ["{"], "finally": ["{"],
                 "case": [f"match wrap_subject{n} {{", i1 + "_ => {"]}[kind]
        close = [p + i1 + "}", p + "}"] if kind == "case" else [p + "}"]
        return [p + h for h in heads], close, 2 if kind == "case" else 1
    if lang == "python":
        head = {"func": f"def wrap_f{n}(wrap_arg{n}):", "class": f"class WrapC{n}:", "if": f"if wrap_flag{n}:",
                "try": "try:", "with": f"with wrap_ctx{n}() as wrap_h{n}:", "for": f"for wrap_i{n} in wrap_items{n}:",
                "while": f"while wrap_cond{n}():"}[kind]
        close = [p + f"except WrapError{n}:", p + IND[lang] + "raise"] if kind == "try" else []
        return [p + head], close, 1
    if lang == "typescript":
        if kind == "class":
            return ([p + f"class WrapC{n} {{", p + IND[lang] + f"wrapM{n}() {{"],
                    [p + IND[lang] + "}", p + "}"], 2)
        head = {"func": f"function wrapF{n}(wrapArg{n}: number) {{", "if": f"if (wrapFlag{n}) {{", "try": "try {",
                "with": "{", "for": f"for (const wrapI{n} of wrapItems{n}) {{", "while": f"while (wrapCond{n}()) {{"}[kind]
        close = [p + f"}} catch (wrapErr{n}) {{ throw wrapErr{n}; }}"] if kind == "try" else [p + "}"]
        return [p + head], close, 1
    head = {"func": f"fn wrap_f{n}() {{", "class": f"mod wrap_m{n} {{", "if": f"if wrap_flag{n} {{", "try": "{",
            "with": "{", "for": f"for wrap_i{n} in wrap_items{n}.iter() {{", "while": f"while wrap_cond{n}() {{"}[kind]
    return [p + head], [p + "}"], 1


def indent(lines: list[str], lang: str, levels: int) -> list[str]:
    pre = IND[lang] * levels
    return [pre + l if l.strip() else l for l in lines]


def render(lang: str, ex_lines: list[list[str]], e: dict, salt: int) -> dict:
    """Place the copies (already renamed) according to embedding e. Returns text, copy starts, closing count."""
    out: list[str] = []
    for b in range(e["before"]):
        if b == 0 and e.get("guard") and lang == "python":
            # a script entry guard of the same height as a filler function; what follows is module-level code again
            n = salt * 10
            out += ['if __name__ == "__main__":', f"    filler_main_{n} = len(__name__)",
                    f"    filler_use_{n} = filler_main_{n}", "", ""]
            continue
        out += filler(lang, salt * 10 + b)
    closers: list[list[str]] = []
    levels = 0
    for d, fr in enumerate(e["ctx"]):
        h, c, add = frame(lang, fr, salt * 10 + d, levels)
        out += h
        closers.append(c)
        levels += add
    if e["inner"]:
        out += indent([{"python": f"wrap_inner_{salt} = wrap_seed_{salt}",
                        "typescript": f"const wrapInner{salt} = wrapSeed{salt};",
                        "rust": f"let wrap_inner_{salt} = wrap_seed_{salt};"}[lang]], lang, levels)
    starts = []
    for c, body in enumerate(ex_lines):
        starts.append(len(out) + 1)
        out += indent(body, lang, levels)
        if c + 1 < len(ex_lines):
            out.append("")
    closing = 0
    for c in reversed(closers):
        out += c
        closing += len(c)
    if e["after"]:
        out.append("")
        closing += 1
        out += filler(lang, salt * 10 + 9)
    return {"text": "\n".join(out) + "\n", "starts": starts, "closing": closing}


# ---- renaming -------------------------------------------------------------------------------------------
PY_KEEP = set(dir(__builtins__) if not isinstance(__builtins__, dict) else __builtins__) | {
    "self", "cls", "_", "os", "re", "sys", "json", "logging", "logger", "log", "pytest", "hashlib", "time",
    "subprocess", "typing", "click", "math", "abc", "ABC", "Protocol", "Enum", "StrEnum", "dataclass", "field",
    "property", "staticmethod", "classmethod", "abstractmethod", "Path", "Optional", "List", "Dict", "Any",
    "datetime", "structlog", "winston", "verbose", "debug", "DEBUG", "ctx", "obj", "hasattr", "getattr",
}
DOC_KEEP = {
    "improper-logging": re.compile(r"verbose|debug|log", re.I),
    "print-statements": re.compile(r"^(print|console)$"),
    "stateless-class": re.compile(r"Mixin|Test|Base|Abstract|Protocol|Interface"),
    "method-property": re.compile(r"^(test_|setUp|tearDown)"),
    "lazy-ignores": re.compile(r"^test_|skip"),
    "file-header": re.compile(r"."),          # headers are prose; nothing to rename
}


def py_renamable(text: str, doc: str) -> set[str]:
    try:
        tree = ast.parse(text)
    except SyntaxError:
        return set()
    keep = set(PY_KEEP)
    names: set[str] = set()
    for node in ast.walk(tree):
        if isinstance(node, (ast.Import, ast.ImportFrom)):
            for a in node.names:
                keep.add((a.asname or a.name).split(".")[0])
        elif isinstance(node, ast.keyword) and node.arg:
            keep.add(node.arg)
        elif isinstance(node, ast.ClassDef):
            names.add(node.name)
            for b in node.bases + [d for d in node.decorator_list]:
                keep.update(n.id for n in ast.walk(b) if isinstance(n, ast.Name))
        elif isinstance(node, (ast.FunctionDef, ast.AsyncFunctionDef)):
            names.add(node.name)
            for d in node.decorator_list:
                keep.update(n.id for n in ast.walk(d) if isinstance(n, ast.Name))
                keep.update(n.attr for n in ast.walk(d) if isinstance(n, ast.Attribute))
            for a in node.args.args + node.args.kwonlyargs + node.args.posonlyargs:
                names.add(a.arg)
        elif isinstance(node, ast.Name):
            names.add(node.id)
    pat = DOC_KEEP.get(doc)
    out = set()
    for n in names:
        if n in keep or keyword.iskeyword(n) or (n.startswith("__") and n.endswith("__")):
            continue
        if pat is not None and pat.search(n):
            continue
        out.add(n)
    return out


def py_rename(text: str, names: set[str], suffix: str) -> str:
    if not names:
        return text
    out = []
    try:
        toks = list(tokenize.generate_tokens(io.StringIO(text).readline))
    except (tokenize.TokenError, IndentationError, SyntaxError):
        return text
    lines = text.split("\n")
    edits: dict[int, list[tuple[int, int, str]]] = {}
    prev = ""
    for t in toks:
        if t.type == tokenize.NAME and t.string in names and prev != ".":
            sfx = suffix.upper() if t.string.isupper() else suffix
            edits.setdefault(t.start[0], []).append((t.start[1], t.end[1], t.string + sfx))
        if t.type not in (tokenize.NL, tokenize.COMMENT):
            prev = t.string
    for ln, es in edits.items():
        s = lines[ln - 1]
        for a, b, new in sorted(es, reverse=True):
            s = s[:a] + new + s[b:]
        lines[ln - 1] = s
    del out
    return "\n".join(lines)


TS_DECL = re.compile(r"\b(?:function|const|let|var|class)\s+([A-Za-z_]\w*)")
TS_KEEP = {"logger", "console", "winston", "React", "Status", "Props"}


def ts_renamable(text: str, doc: str) -> set[str]:
    pat = DOC_KEEP.get(doc)
    return {n for n in TS_DECL.findall(text) if n not in TS_KEEP and not (pat and pat.search(n))}


def ts_rename(text: str, names: set[str], suffix: str) -> str:
    for n in sorted(names, key=len, reverse=True):
        sfx = suffix.upper() if n.isupper() else suffix
        text = re.sub(rf"(?<![\w.$]){re.escape(n)}(?![\w$])", n + sfx, text)
    return text


def rename(lang: str, text: str, doc: str, suffix: str) -> str:
    if lang == "python":
        return py_rename(text, py_renamable(text, doc), suffix)
    if lang == "typescript":
        return ts_rename(text, ts_renamable(text, doc), suffix)
    return text


def shadow(lang: str, text: str, doc: str, variant: int) -> str:
    """A sibling file that binds the example's identifiers to unrelated values."""
    if lang == "python":
        names = sorted(py_renamable(text, doc))
        vals = ["[]", "0", "{}", "None"]
        body = [f"{n} = {vals[(i + variant) % len(vals)]}" for i, n in enumerate(names) if n.isidentifier()]
        return "\n".join(body or ["shadow_placeholder = []"]) + "\n"
    if lang == "typescript":
        names = sorted(ts_renamable(text, doc))
        body = [f"let {n}Shadow = [];" for n in names] or ["let shadowPlaceholder = [];"]
        return "\n".join(body) + "\n"
    return "fn shadow_placeholder() {}\n"


def shadow_here(lang: str, text: str, doc: str, variant: int) -> list[str]:
    """Lines of a function, to be appended to the example's own file, that binds the example's identifiers to unrelated
    values in ITS scope (a compiled pattern, a list, a number): what a name is bound to elsewhere says nothing about the
    example's own variables."""
    if lang == "python":
        names = [n for n in sorted(py_renamable(text, doc)) if n.isidentifier()]
        vals = ['re.compile("x")', "[]", "0", "{}"]
        body = [f"    {n} = {vals[(i + variant) % len(vals)]}" for i, n in enumerate(names)] or ["    shadow_placeholder = []"]
        return ["", "", f"def shadow_bindings_{variant}():"] + body + ["    return None"]
    if lang == "typescript":
        names = sorted(ts_renamable(text, doc))
        body = [f"  const {n} = [];" for n in names] or ["  const shadowPlaceholder = [];"]
        return ["", f"function shadowBindings{variant}(): void {{"] + body + ["}"]
    return ["", f"fn shadow_bindings_{variant}() {{}}"]


# ---- catalogue ------------------------------------------------------------------------------------------
def load_catalog() -> list[dict]:
    return json.loads(EXAMPLES.read_text())["examples"]
