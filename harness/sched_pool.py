"""Schedule-controlled substitute for ProcessPoolExecutor / as_completed (C07).

K real forked worker processes execute the submitted callables; results travel pickled over
pipes (so the to_dict/from_dict boundary is real).  Which worker takes which item, when each
worker finishes and in which order finished futures are yielded is dictated by a schedule that
TLC produced from spec/Parallel.tla:  [["take", w, f], ["finish", w, f], ["collect", 0, f], ...]
(f = 1-based index of the file in submit order).
"""
from __future__ import annotations

import os
import traceback
from multiprocessing.connection import Connection, Pipe


class SFuture:
    def __init__(self, idx, fn, args):
        self.idx, self.fn, self.args = idx, fn, args
        self._done = False
        self._result = None
        self._exc = None

    def set(self, ok, value):
        self._done = True
        if ok:
            self._result = value
        else:
            self._exc = RuntimeError(value)

    def done(self):
        return self._done

    def result(self, timeout=None):
        if not self._done:
            raise RuntimeError("SchedPool: result() before the schedule finished this future")
        if self._exc is not None:
            raise self._exc
        return self._result

    def exception(self, timeout=None):
        return self._exc

    def cancel(self):
        return False

    def add_done_callback(self, fn):
        fn(self)


def _worker_loop(conn: Connection, initializer=None, initargs=()) -> None:
    if initializer is not None:        # ProcessPoolExecutor(initializer=..., initargs=...): once per worker process
        initializer(*initargs)
    while True:
        try:
            msg = conn.recv()
        except EOFError:
            break
        if msg is None:
            break
        fn, args = msg
        try:
            conn.send((True, fn(*args)))
        except BaseException as exc:  # noqa: BLE001
            conn.send((False, "".join(traceback.format_exception(exc))[-2000:]))
    os._exit(0)


class SchedPool:
    def __init__(self, sched: list, k: int):
        self.sched = sched
        self.k = k
        self.workers: dict[int, tuple[int, Connection]] = {}
        self.futures: list[SFuture] = []
        self.pids: dict[int, int] = {}
        self.max_workers_seen = None
        pool = self

        class Executor:
            def __init__(self, max_workers=None, mp_context=None, initializer=None, initargs=(), **kw):
                pool.max_workers_seen = max_workers
                pool.initializer, pool.initargs = initializer, tuple(initargs)

            def __enter__(self):
                return self

            def __exit__(self, *exc):
                pool.shutdown()
                return False

            def submit(self, fn, *args, **kwargs):
                fut = SFuture(len(pool.futures), fn, args)
                pool.futures.append(fut)
                return fut

            def map(self, fn, *iterables, **kw):
                futs = [self.submit(fn, *args) for args in zip(*iterables)]
                pool.run_all()
                return [f.result() for f in futs]

            def shutdown(self, wait=True, **kw):
                pool.shutdown()

        self.Executor = Executor

    def _spawn(self, w: int) -> None:
        parent, child = Pipe()
        pid = os.fork()
        if pid == 0:
            parent.close()
            for _, (_, c) in self.workers.items():
                c.close()
            _worker_loop(child, getattr(self, "initializer", None), getattr(self, "initargs", ()))
        child.close()
        self.workers[w] = (pid, parent)
        self.pids[pid] = w

    def run_all(self):
        for _ in self.as_completed(self.futures):
            pass

    def as_completed(self, futures, timeout=None):
        futures = list(futures)
        byidx = {f.idx + 1: f for f in futures}
        yielded = set()
        for ev, w, f in self.sched:
            if f not in byidx:
                continue
            fut = byidx[f]
            if ev == "take":
                if w not in self.workers:
                    self._spawn(w)
                self.workers[w][1].send((fut.fn, fut.args))
            elif ev == "finish":
                ok, value = self.workers[w][1].recv()
                fut.set(ok, value)
            elif ev == "collect":
                yielded.add(f)
                yield fut
        # anything the schedule did not cover (model/code drift): run on worker 1 in order
        for i, fut in sorted(byidx.items()):
            if not fut.done():
                if 1 not in self.workers:
                    self._spawn(1)
                self.workers[1][1].send((fut.fn, fut.args))
                fut.set(*self.workers[1][1].recv())
            if i not in yielded:
                yielded.add(i)
                yield fut

    def wait(self, fs, timeout=None, return_when=None):
        """concurrent.futures.wait for dispatchers that submit incrementally and drain with wait(): one future
        completes per call - the pending one that the schedule collects first, run on the worker the schedule
        gave it (ALL_COMPLETED: all of them, in that order)."""
        fs = set(fs)
        order = {f: n for n, (ev, _w, f) in enumerate(self.sched) if ev == "collect"}
        worker_of = {f: w for ev, w, f in self.sched if ev == "take"}
        done = {x for x in fs if getattr(x, "_collected", False)}
        pend = sorted(fs - done, key=lambda x: (order.get(x.idx + 1, 10 ** 6), x.idx))
        for fut in (pend if return_when == "ALL_COMPLETED" else pend[:1]):
            if not fut.done():
                w = worker_of.get(fut.idx + 1, 1)
                if w not in self.workers:
                    self._spawn(w)
                self.workers[w][1].send((fut.fn, fut.args))
                fut.set(*self.workers[w][1].recv())
            fut._collected = True
            done.add(fut)
        return done, fs - done

    def shutdown(self):
        for w, (pid, conn) in list(self.workers.items()):
            try:
                conn.send(None)
                conn.close()
            except OSError:
                pass
            try:
                os.waitpid(pid, 0)
            except ChildProcessError:
                pass
        self.workers.clear()
