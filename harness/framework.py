"""Check framework: accumulates coverage, rejections -> known findings / violations, evidence."""
from __future__ import annotations

import json
import random
import time
from pathlib import Path

from .common import EVIDENCE, REPLAYS, VERIF, canon, log, seed, sha

KNOWN = VERIF / "known_findings.json"


def load_known() -> dict:
    if KNOWN.exists():
        return json.loads(KNOWN.read_text())
    return {"open": [], "fixed": []}


def _field_match(want, got) -> bool:
    if isinstance(want, list):
        return got in want
    return want == got


def match_known(prop: str, key: dict, known: dict):
    for f in known.get("open", []):
        if f.get("property") != prop:
            continue
        if all(_field_match(v, key.get(k)) for k, v in f["match"].items()):
            return f
    return None


class Check:
    """One run of one property's check."""

    level = "model_checking"

    def __init__(self, prop: str, tier: str):
        self.prop, self.tier, self.seed = prop, tier, seed()
        self.rng = random.Random(f"{prop}:{self.seed}")
        self.t0 = time.time()
        self.evaluations = 0
        self.nontrivial: set[str] = set()
        self.samples: list = []
        self.rejections: list[dict] = []
        self.states = 0
        self.transitions = 0
        self.traces = 0
        self.exhaustive = False
        self.rule = ""
        self.assumptions: list[str] = []
        self.extra: dict = {}
        self.tlc_runs: list[dict] = []
        self.notes: list[str] = []
        self.replay_key: dict | None = None

    # -- coverage ---------------------------------------------------------------------------
    def add_tlc(self, name: str, res) -> None:
        self.states += res.distinct
        self.transitions += res.generated
        self.tlc_runs.append({"model": name, "generated": res.generated, "distinct": res.distinct,
                              "depth": res.depth, "wall_s": round(res.wall, 2)})

    def count(self, case, nontrivial: bool, n: int = 1) -> None:
        self.evaluations += n
        if nontrivial:
            self.nontrivial.add(sha(case))
        if len(self.samples) < 3:
            self.samples.append(case)

    # -- verdicts ---------------------------------------------------------------------------
    def reject(self, key: dict, replay: dict, what: str) -> None:
        """Record a layer-A rejection with its diagnosis key and replay payload."""
        self.rejections.append({"key": key, "replay": replay, "what": what})

    def _finish_replay(self) -> int:
        same = [r for r in self.rejections if canon(r["key"]) == canon(self.replay_key)]
        if not same:
            log(f"replay: no rejection with key {canon(self.replay_key)} among {len(self.rejections)} rejection(s) "
                f"of this run - the class recorded in the replay file does not reproduce")
            return 0
        d = REPLAYS / self.prop
        d.mkdir(parents=True, exist_ok=True)
        path = d / f"{sha(same[0]['replay'])}.json"
        path.write_text(json.dumps({"property": self.prop, "key": same[0]["key"], "what": same[0]["what"],
                                    "replay": same[0]["replay"]}, indent=1, default=str))
        log(f"replay: reproduced x{len(same)}: {same[0]['what'][:600]}")
        f = match_known(self.prop, same[0]["key"], load_known())
        if f is not None:
            print(f"KNOWN-FINDING: property={self.prop} {f['id']}: {f['what']} [{len(same)} rejection(s)]")
            return 0
        print(f"VIOLATION property={self.prop} replay={path}")
        return 1

    def finish(self) -> int:
        if self.replay_key is not None:
            return self._finish_replay()
        d0 = REPLAYS / self.prop
        if d0.exists():
            for old in d0.glob("*.json"):
                old.unlink()
        known = load_known()
        reproduced: dict[str, dict] = {}
        absorbed: dict[str, int] = {}
        violations = []
        for r in self.rejections:
            f = match_known(self.prop, r["key"], known)
            if f is not None:
                reproduced[f["id"]] = f
                absorbed[f["id"]] = absorbed.get(f["id"], 0) + 1
            else:
                violations.append(r)
        for fid, f in sorted(reproduced.items()):
            print(f"KNOWN-FINDING: property={self.prop} {fid}: {f['what']} "
                  f"[{absorbed[fid]} rejection(s)]")
        import os as _os
        if _os.environ.get("VERIF_DUMP_KEYS"):
            Path(_os.environ["VERIF_DUMP_KEYS"]).write_text(json.dumps(
                [{"key": r["key"], "what": r["what"], "known": match_known(self.prop, r["key"], known) is not None}
                 for r in self.rejections]))
        if violations:
            summary: dict[str, int] = {}
            example: dict[str, str] = {}
            for r in violations:
                summary[canon(r["key"])] = summary.get(canon(r["key"]), 0) + 1
                example.setdefault(canon(r["key"]), r["what"])
            for kk, n in sorted(summary.items())[:200]:
                log(f"  unexplained x{n}: {kk}  e.g. {example[kk][:300]}")
        seen = set()
        nviol = 0
        for r in violations:
            k = canon(r["key"])
            if k in seen:
                continue
            seen.add(k)
            nviol += 1
            if nviol > 25:
                continue
            d = REPLAYS / self.prop
            d.mkdir(parents=True, exist_ok=True)
            path = d / f"{sha(r['replay'])}.json"
            path.write_text(json.dumps({"property": self.prop, "tier": self.tier, "seed": self.seed, "key": r["key"],
                                        "what": r["what"], "replay": r["replay"]}, indent=1, default=str))
            log(f"  rejection: {r['what']}  key={canon(r['key'])}")
            print(f"VIOLATION property={self.prop} replay={path}")
        self._write_evidence(len(violations), absorbed)
        for n in self.notes:
            log("note:", n)
        return 1 if violations else 0

    def _write_evidence(self, nviol: int, absorbed: dict) -> None:
        cov = {
            "evaluations": self.evaluations,
            "distinct_nontrivial": len(self.nontrivial),
            "rule": self.rule,
            "samples": self.samples[:3] or [{"note": "no case executed"}],
            "states": max(self.states, 0),
            "transitions": max(self.transitions, 0),
            "traces_validated_against_impl": self.traces,
            "exhaustive": self.exhaustive,
            "tlc_runs": self.tlc_runs,
            "known_findings_absorbed": absorbed,
        }
        cov.update(self.extra)
        ev = {
            "property_id": self.prop,
            "tier": self.tier,
            "seed": self.seed,
            "level": self.level,
            "coverage": cov,
            "assumptions": self.assumptions,
            "wall_s": round(time.time() - self.t0, 2),
            "violations": nviol,
        }
        EVIDENCE.mkdir(exist_ok=True)
        (EVIDENCE / f"{self.prop}.json").write_text(json.dumps(ev, indent=1, default=str) + "\n")
