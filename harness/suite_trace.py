"""Whole-process H2 event traces validated against spec/System.tla (via SystemTrace.tla).

`collect_pytest(paths)` runs part of the repository's own test suite with the tap switched on and returns
the trace lines; `segments(lines)` splits every process's event sequence where the process is idle and
normalises the events; `validate(chk, segs)` has TLC consume every segment through System's actions.
"""
from __future__ import annotations

import json
import os
import subprocess
from pathlib import Path

from . import trace
from .common import GUARD, PY, REPO, MachineryError, mkscratch

STARTERS = ("run_begin", "pool", "worker")


def collect_pytest(paths: list[str], timeout: int = 1800) -> tuple[list[dict], dict]:
    d = mkscratch("suite")
    tf = d / "trace.ndjson"
    env = dict(os.environ)
    env.update({GUARD: "1", "THAILINT_VERIF_TRACE": str(tf), "PYTHONPATH": str(REPO)})
    env.pop("THAILINT_VERIF_FAILLOG", None)
    cmd = [PY, "-m", "pytest", "-q", "-p", "no:cacheprovider", "--no-cov", "--timeout=900", "-x", "--co", "-q"]
    cmd = [PY, "-m", "pytest", "-q", "-p", "no:cacheprovider", "--no-cov", "--timeout=900", *paths]
    p = subprocess.run(cmd, cwd=str(REPO), env=env, capture_output=True, text=True, timeout=timeout, check=False)
    tail = p.stdout.strip().splitlines()[-1] if p.stdout.strip() else ""
    lines = []
    if tf.exists():
        for n, raw in enumerate(tf.read_text(errors="replace").splitlines()):
            try:
                e = json.loads(raw)
            except json.JSONDecodeError:
                continue
            e["_pos"] = n
            lines.append(e)
    return lines, {"pytest_exit": p.returncode, "pytest_summary": tail, "events": len(lines)}


def normalise(lines: list[dict]) -> dict[int, list[dict]]:
    """Per process: the event sequence in System's vocabulary (file order = order of the atomic appends)."""
    # sum of worker_done per pooled run: worker lines between the parent's parallel(pool) and its finalize_begin
    per: dict[int, list[dict]] = {}
    open_pool: dict[int, dict] = {}
    for e in lines:
        pid, ev = e.get("pid"), e.get("ev")
        out = per.setdefault(pid, [])
        test = e.get("test", "")
        if ev == "run_begin":
            out.append({"ev": "run_begin", "test": test})
        elif ev == "parallel":
            if e.get("mode") == "pool":
                rec = {"ev": "pool", "n": int(e.get("nfiles", 0)), "test": test}
                out.append(rec)
                open_pool[pid] = {"paths": None, "sum": 0}
        elif ev == "submit":
            if pid in open_pool:
                open_pool[pid]["paths"] = set(e.get("paths", []))
        elif ev == "done":
            out.append({"ev": "done", "test": test})
        elif ev == "lint_file":
            out.append({"ev": "lint_file", "f": str(e.get("path")), "d": e.get("decision"), "test": test})
        elif ev == "check":
            out.append({"ev": "check", "f": str(e.get("path")), "n": int(e.get("n", 0)), "test": test})
        elif ev == "finalize_begin":
            w = 0
            if pid in open_pool:
                w = open_pool.pop(pid)["sum"]
            out.append({"ev": "finalize_begin", "n": int(e.get("n", 0)), "w": w, "test": test})
        elif ev == "finalize_end":
            out.append({"ev": "finalize_end", "n": int(e.get("n", 0)), "test": test})
        elif ev == "abort":
            out.append({"ev": "abort", "test": test})
        elif ev == "worker":
            out.append({"ev": "worker", "f": str(e.get("path")), "test": test})
        elif ev == "worker_done":
            out.append({"ev": "worker_done", "f": str(e.get("path")), "n": int(e.get("n", 0)), "test": test})
            for pool in open_pool.values():
                if pool["paths"] is not None and str(e.get("path")) in pool["paths"]:
                    pool["sum"] += int(e.get("n", 0))
                    break
    return per


def segments(lines: list[dict], max_len: int = 4000) -> list[dict]:
    segs = []
    for pid, evs in normalise(lines).items():
        cur: list[dict] = []
        for e in evs:
            if e["ev"] in STARTERS and cur:
                segs.append({"pid": pid, "events": cur})
                cur = []
            cur.append(e)
            # idle single-file API traffic can be long: cut it where the process is certainly idle
            if len(cur) >= max_len and cur[0]["ev"] not in STARTERS and e["ev"] == "lint_file":
                segs.append({"pid": pid, "events": cur[:-1]})
                cur = [e]
        if cur:
            segs.append({"pid": pid, "events": cur})
    return segs


def validate(chk, segs: list[dict]) -> list[tuple]:
    records = [{"events": [{k: v for k, v in e.items() if k != "test"} for e in s["events"]]} for s in segs]
    for r in records:     # uniform records: every event carries every field
        for e in r["events"]:
            e.setdefault("f", "")
            e.setdefault("d", "")
            e.setdefault("n", 0)
            e.setdefault("w", 0)
    if not records:
        raise MachineryError("suite trace: no events recorded (tap not active?)")
    return trace.validate(chk, "SystemTrace", "mc/SystemTrace.cfg", records, timeout=2400)
