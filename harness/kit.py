"""Probe kit: small source files that trigger each linter, and the linter catalogue.

This is data, not an oracle: checks use the kit as *inputs* and derive expectations from
relations between runs (or from the TLA+ layer-A operators), never from this file.
"""
from __future__ import annotations

FILES: dict[str, str] = {
    "nest.py": '''def deep(items):
    for a in items:
        if a:
            for b in a:
                if b:
                    while b:
                        b -= 1
    return items


def shallow(x):
    if x:
        return x
    return None
''',
    "magic.py": '''def price(qty):
    total = qty * 37
    if total > 4200:
        total = total - 15
    return total
''',
    "srp.py": '''class UserManager:
    def a(self):
        return "a"

    def b(self):
        return "b"

    def c(self):
        return "c"

    def d(self):
        return "d"

    def e(self):
        return "e"

    def f(self):
        return "f"

    def g(self):
        return "g"

    def h(self):
        return "h"

    def i(self):
        return "i"
''',
    "prints.py": '''def run(flag):
    print("starting")
    value = flag
    print("done", value)
    return value
''',
    "methodprop.py": '''class Person:
    def __init__(self, first, last):
        self._first = first
        self._last = last

    def get_name(self):
        return self._first

    def full_name(self):
        return self._first + self._last
''',
    "stateless.py": '''class TokenHasher:
    def hash_tokens(self, tokens):
        return [hash(t) for t in tokens]

    def join(self, tokens):
        return "".join(tokens)
''',
    "pipeline.py": '''def process(items):
    out = []
    for item in items:
        if not item.valid:
            continue
        out.append(item)
    return out
''',
    "lbyl.py": '''def get(d, key, obj):
    if key in d:
        return d[key]
    if hasattr(obj, "name"):
        return obj.name
    return None
''',
    "perf.py": '''import re


def build(items):
    result = ""
    for item in items:
        result += str(item)
    return result


def scan(lines):
    out = []
    for line in lines:
        if re.match(r"^a+", line):
            out.append(line)
    return out
''',
    "lazy.py": '''import os  # noqa
import sys  # type: ignore


def f():  # pylint: disable=invalid-name
    return os, sys
''',
    "stringly_a.py": '''def handle(status: str):
    if status not in ("open", "closed", "pending"):
        raise ValueError(status)
    return status
''',
    "stringly_b.py": '''def check(state: str):
    if state not in ("open", "closed", "pending"):
        raise ValueError(state)
    return state
''',
    "cqs.py": '''def process(repo, item):
    data = repo.fetch(item)
    repo.save(data)
    return data
''',
    "dup_a.py": '''def alpha(records):
    total = 0
    count = 0
    for record in records:
        total = total + record.value
        count = count + 1
    average = total / max(count, 1)
    return average
''',
    "dup_b.py": '''def beta(records):
    total = 0
    count = 0
    for record in records:
        total = total + record.value
        count = count + 1
    average = total / max(count, 1)
    return average
''',
    "nest.ts": '''function deep(items: number[][]): number {
  for (const a of items) {
    if (a) {
      for (const b of a) {
        if (b) {
          while (b > 100) {
            return 37;
          }
        }
      }
    }
  }
  return 0;
}
console.log("hi");
''',
    "risky.rs": '''use std::fs;

fn load(path: &str) -> String {
    let data = fs::read_to_string(path).unwrap();
    let copy = data.clone().clone();
    for item in copy.lines() {
        let s = item.to_string().clone();
        println!("{}", s);
    }
    data
}

async fn fetch(path: &str) -> String {
    let text = std::fs::read_to_string(path).expect("read");
    std::thread::sleep(std::time::Duration::from_secs(37));
    text
}
''',
}

# command -> predicate on rule ids the command owns (from docs: rule ids per linter)
COMMANDS: dict[str, tuple[str, ...]] = {
    "nesting": ("nesting.",),
    "magic-numbers": ("magic-numbers.",),
    "srp": ("srp.",),
    "dry": ("dry.",),
    "stringly-typed": ("stringly-typed.",),
    "improper-logging": ("improper-logging.",),
    "print-statements": ("improper-logging.",),
    "method-property": ("method-property.",),
    "stateless-class": ("stateless-class.",),
    "lazy-ignores": ("lazy-ignores",),
    "lbyl": ("lbyl",),
    "file-placement": ("file-placement",),
    "pipeline": ("collection-pipeline.",),
    "file-header": ("file-header.",),
    "string-concat-loop": ("performance.string-concat-loop",),
    "regex-in-loop": ("performance.regex-in-loop",),
    "perf": ("performance.",),
    "unwrap-abuse": ("unwrap-abuse",),
    "clone-abuse": ("clone-abuse",),
    "blocking-async": ("blocking-async",),
}


def owns(cmd: str, rule_id: str) -> bool:
    return any(rule_id == p or rule_id.startswith(p) for p in COMMANDS[cmd])
