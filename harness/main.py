"""./check <property> --tier quick|thorough [--replay FILE]"""
from __future__ import annotations

import argparse
import importlib
import json
import os
import sys
import traceback

from .common import MachineryError, cleanup_scratch, log
from .framework import Check


def main() -> int:
    ap = argparse.ArgumentParser()
    ap.add_argument("prop")
    ap.add_argument("--tier", default=os.environ.get("VERIF_TIER", "quick"),
                    choices=["quick", "thorough"])
    ap.add_argument("--replay")
    a = ap.parse_args()
    try:
        mod = importlib.import_module(f"harness.checks.{a.prop}")
    except ModuleNotFoundError:
        log(f"no check for {a.prop}")
        return 2
    payload = None
    if a.replay:
        payload = json.load(open(a.replay))
        # a replay regenerates the case space of the tier (and seed) that found the rejection
        if "--tier" not in sys.argv and payload.get("tier") in ("quick", "thorough"):
            a.tier = payload["tier"]
        if "seed" in payload and "VERIF_SEED" not in os.environ:
            os.environ["VERIF_SEED"] = str(payload["seed"])
    chk = Check(a.prop, a.tier)
    try:
        if a.replay:
            if hasattr(mod, "replay"):
                return mod.replay(chk, payload)
            # generic replay: regenerate the case space of the tier that found it and report whether the
            # rejection class of the replay file (its diagnosis key) still occurs
            chk.replay_key = payload["key"]
            mod.run(chk)
            return chk.finish()
        mod.run(chk)
        return chk.finish()
    except MachineryError as e:
        log(f"MACHINERY-ERROR {a.prop}: {e}")
        return 2
    except Exception:  # noqa: BLE001
        traceback.print_exc()
        log(f"MACHINERY-ERROR {a.prop}: unexpected exception")
        return 2
    finally:
        cleanup_scratch()


if __name__ == "__main__":
    sys.exit(main())
