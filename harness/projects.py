"""Concrete multi-language projects for abstract file sets.

Per-file templates trigger per-file rules; every instance is made textually unique through the
index `@` so that two instances never form an accidental cross-file duplicate.  Cross-file groups
(DRY duplicate pairs, stringly-typed repeated validations) are planted explicitly.
"""
from __future__ import annotations

PER_FILE = [
    ("nest", "py", '''def deep@(items@):
    for a@ in items@:
        if a@:
            for b@ in a@:
                if b@:
                    while b@:
                        b@ -= 1
    return items@
'''),
    ("magic", "py", '''def price@(qty@):
    total@ = qty@ * 37
    if total@ > 4200:
        total@ = total@ - 15
    return total@
'''),
    ("prints", "py", '''def run@(flag@):
    print("starting@")
    value@ = flag@
    print("done@", value@)
    return value@
'''),
    ("tsnest", "ts", '''function deep@(items@: number[][]): number {
  for (const a@ of items@) {
    if (a@) {
      for (const b@ of a@) {
        if (b@) {
          while (b@ > 100) {
            return 37;
          }
        }
      }
    }
  }
  return 0;
}
console.log("hi@");
'''),
    ("risky", "rs", '''use std::fs;

fn load@(path@: &str) -> String {
    let data@ = fs::read_to_string(path@).unwrap();
    let copy@ = data@.clone().clone();
    data@
}

async fn fetch@(path@: &str) -> String {
    let text@ = std::fs::read_to_string(path@).expect("read@");
    text@
}
'''),
    ("lbyl", "py", '''def get@(d@, key@, obj@):
    if key@ in d@:
        return d@[key@]
    if hasattr(obj@, "name@"):
        return obj@.name@
    return None
'''),
    ("perf", "py", '''import re


def build@(items@):
    result@ = ""
    for item@ in items@:
        result@ += str(item@)
    return result@


def scan@(lines@):
    out@ = []
    for line@ in lines@:
        if re.match(r"^a@+", line@):
            out@.append(line@)
    return out@
'''),
    ("pipeline", "py", '''def process@(items@):
    out@ = []
    for item@ in items@:
        if not item@.valid@:
            continue
        out@.append(item@)
    return out@
'''),
    ("stateless", "py", '''class TokenHasher@:
    def hash_tokens@(self, tokens@):
        return [hash(t@) for t@ in tokens@]

    def join@(self, tokens@):
        return "".join(tokens@)
'''),
    ("script", "", '''#!/usr/bin/env python3
def tool@(qty@):
    amount@ = qty@ * 91
    return amount@ + 73
'''),
    ("srp", "py", '''class UserManager@:
    def a@(self):
        return "a@"

    def b@(self):
        return "b@"

    def c@(self):
        return "c@"

    def d@(self):
        return "d@"

    def e@(self):
        return "e@"

    def f@(self):
        return "f@"

    def g@(self):
        return "g@"

    def h@(self):
        return "h@"
'''),
    ("methodprop", "py", '''class Person@:
    def __init__(self, first@, last@):
        self._first@ = first@
        self._last@ = last@

    def get_name@(self):
        return self._first@

    def full_name@(self):
        return self._first@ + self._last@
'''),
    ("lazy", "py", '''import os  # noqa
import sys  # type: ignore


def f@():  # pylint: disable=invalid-name
    return os, sys
'''),
    ("cqs", "py", '''def process@(repo@, item@):
    data@ = repo@.fetch(item@)
    repo@.save(data@)
    return data@
'''),
    ("clean", "py", '''def ident@(x@):
    return x@
'''),
]

DRY_BLOCK = '''    total$ = 0
    count$ = 0
    for record$ in records$:
        total$ = total$ + record$.value
        count$ = count$ + 1
    average$ = total$ / max(count$, 1)
    return average$
'''

STRINGLY_SET = '("open$", "closed$", "pending$")'


def dry_member(i: int, g: int) -> str:
    # the members of a group also define the same module-level constant (DRY's duplicate-constant detection: its
    # messages list the OTHER files, so groups of three or more make the listing order observable)
    # ... under names that form a CHAIN of near-matches (A ~ B ~ C, but A and C are too far apart to match directly):
    # which constants end up in one group must not depend on the order in which the files are seen
    const = ("RETRY_LIMIT", "RETRY_LIMITS", "RETRY_LIMITSXY")[i % 3]
    return f"{const}_G{g} = 30\n\n\ndef fn{i}(records{g}):\n" + DRY_BLOCK.replace("$", str(g))


def stringly_member(i: int, g: int) -> str:
    s = STRINGLY_SET.replace("$", str(g))
    return (f"def handle{i}(status{i}: str):\n    if status{i} not in {s}:\n"
            f"        raise ValueError(status{i})\n    return status{i}\n")


def word(i: int) -> str:
    """Identifier-safe unique suffix (letters only so that no new magic numbers appear)."""
    s = ""
    i += 1
    while i:
        i, r = divmod(i - 1, 26)
        s = chr(97 + r) + s
    return "q" + s


# probes used only where a check asks for them by name (build(..., force={file number: probe name}))
EXTRA_PROBES = {
    # one file that holds the same statements twice: a cross-file rule has evidence within a single file
    "selfdup": ("py", '''def first@(rows@):
    total@ = 0
    for row@ in rows@:
        total@ += row@.amount
        total@ -= row@.discount
    return total@ * 2


def second@(rows@, extra@):
    total@ = 0
    for row@ in rows@:
        total@ += row@.amount
        total@ -= row@.discount
    return total@ * 2 + extra@
'''),
    # several findings of one rule on ONE line (TypeScript findings carry column 0: they differ in nothing but the message)
    "tstwins": ("ts", '''export function perDay@(n@: number): number {
  const total@ = n@ * 3600 * 24;
  console.log("first@"); console.log("second@");
  return total@ + 3600 + 3600;
}
'''),
    "pytwins": ("py", '''def per_day@(n@):
    total@ = n@ * 3600 * 24
    print("first@"); print("first@")
    return total@ + 3600 + 3600
'''),
    # a list accumulator with the SAME local name the `perf` probe uses for its string accumulator
    "collector": ("py", '''def gather@(items@):
    result@ = []
    for item@ in items@:
        result@ += [item@]
    return result@
'''),
}


def build(n: int, cross: list[list[int]], layout: str = "flat", offset: int = 0, shared_names: bool = False,
          force: dict | None = None) -> list[tuple[str, str]]:
    """Return [(relative path, content)] for files 1..n.

    shared_names: the per-file probes use the same identifiers in every file; force: {file number: probe name}.
    layout "flat": unique base names in one directory; "samename": one directory per file, every
    file called mod.<ext> (same base name everywhere, as with __init__.py / mod.rs / index.ts).

    cross[j] lists the 1-based file numbers of group j; even groups are DRY duplicates, odd groups
    stringly-typed repeated validations.
    """
    member: dict[int, tuple[str, int]] = {}
    for g, grp in enumerate(cross):
        for f in grp:
            member[f] = ("dry" if g % 2 == 0 else "str", g)
    out = []

    def path(f, name, ext):
        dot = "." if ext else ""
        if layout == "nested":      # one directory per file, below a package directory (Walker.tla)
            return f"pkg/m{f:02d}/mod{dot}{ext}"
        return f"m{f:02d}/mod{dot}{ext}" if layout == "samename" else f"f{f:02d}_{name}{dot}{ext}"

    for f in range(1, n + 1):
        if f in member:
            kind, g = member[f]
            if kind == "dry":
                out.append((path(f, "dup", "py"), dry_member(f, g)))
            else:
                out.append((path(f, "str", "py"), stringly_member(f, g)))
            continue
        name, ext, tmpl = PER_FILE[(f - 1 + offset) % len(PER_FILE)]
        if force and (f in force or str(f) in force):
            name = force.get(f) or force.get(str(f))
            ext, tmpl = EXTRA_PROBES[name] if name in EXTRA_PROBES else next((e, t) for nm, e, t in PER_FILE if nm == name)
        # shared_names: every file uses the same identifiers (what is remembered per NAME must not travel between files)
        out.append((path(f, name, ext), tmpl.replace("@", "" if shared_names else word(f))))
    return out


BASE_CONFIG = "dry:\n  enabled: true\n  min_duplicate_lines: 3\n"

# per-language overrides chosen so that verdicts differ by language for the same probe
OVERRIDES_CONFIG = BASE_CONFIG + """nesting:
  max_nesting_depth: 9
  python:
    max_nesting_depth: 2
  typescript:
    max_nesting_depth: 9
  rust:
    max_nesting_depth: 1
srp:
  max_methods: 20
  python:
    max_methods: 3
magic-numbers:
  allowed_numbers: [0, 1, 2, 37]
  typescript:
    allowed_numbers: [0, 1, 2, 100]
  rust:
    allowed_numbers: [0, 1]
"""
ALT_CONFIG = """dry:
  enabled: true
  min_duplicate_lines: 4
nesting:
  max_nesting_depth: 1
magic-numbers:
  allowed_numbers: [0, 1, 4200]
"""
# every linter section carries an `ignore` list that matches file 4 of a project (flat and one-directory-per-file layout)
_SECTIONS = ["nesting", "srp", "magic-numbers", "print-statements", "method-property", "stateless-class", "lbyl",
             "collection-pipeline", "performance", "cqs", "file-header", "lazy-ignores", "stringly-typed",
             "unwrap-abuse", "clone-abuse", "blocking-async"]
IGNORES_CONFIG = "dry:\n  enabled: true\n  min_duplicate_lines: 3\n  ignore: [\"f04_*\", \"m04/\"]\n" + "".join(
    f"{sec}:\n  ignore: [\"f04_*\", \"m04/\"]\n" for sec in _SECTIONS)
CONFIGS = {"base": BASE_CONFIG, "overrides": OVERRIDES_CONFIG}
EXPLICIT = {"empty.yaml": "# nothing configured\n", "empty.json": "{}\n", "alt.yaml": ALT_CONFIG,
            "ignores.yaml": IGNORES_CONFIG}
