"""Regenerates /verif/MANIFEST.json from the table below:  /venv/bin/python -m harness.manifest"""
from __future__ import annotations

import json
import subprocess
from pathlib import Path

VERIF = Path(__file__).resolve().parent.parent
BASELINE = ("cd /repo && env -u THAILINT_VERIF /venv/bin/python -m pytest -ra -q -p no:cacheprovider "
            "--timeout=900 --continue-on-collection-errors")
TECH = "TLA+ spec + TLC model checking; TLC-generated cases replayed into thai-lint; TLC trace validation"

# property -> (design section, level text, level note, technique)
CLAIMED: dict[str, tuple[str, str, str, str]] = {
    "C07": ("DESIGN.md §5 C07",
            "spec/Parallel.tla (one action per critical section of lint_files_parallel) is model-checked "
            "exhaustively for 6 files x 3 workers (SameAsSequential, EveryFutureCollected, termination); "
            "TLC-enumerated/simulated schedules (worker assignment, finish order, as_completed order) are "
            "replayed into the real code through a schedule-controlled process pool and compared with the "
            "sequential run on all violation fields; real ProcessPoolExecutor runs for K=1..16 and CLI "
            "--parallel runs are recorded with the H2 event tap; every execution is validated by TLC "
            "against ParallelTrace.tla (layer A verdict + layer B drift). The CLI stage passes one directory, a file "
            "list, several directory arguments and files plus directories (a CLI invocation is a sequence of runs "
            "in either mode); a run whose tap events cannot be bound to the model is judged on its results alone. Dispatchers that submit incrementally and drain with wait() are driven by the same schedules (SchedPool.wait); schedules include more than four files per worker.",
            "Bounded: N<=40 files, K<=16; controlled pool replaces ProcessPoolExecutor/as_completed only; "
            "real-pool schedules are sampled; trusted: TLC, the H2 tap, the projection in checks/C07.py.",
            TECH),
    "C08": ("DESIGN.md §5 C08",
            "spec/Orchestrator.tla models the long-lived Linter/Orchestrator (DRY rows, stringly rows, finalize "
            "resets) and is model-checked exhaustively (3 paths x 4 content classes, <=6 operations; "
            "HistoryFree, NoGhosts, UnionLaw) with a non-vacuity run of the pinned-commit variant; "
            "TLC-simulated histories of write/delete/lint-file/lint-dir/lint-files are replayed on one real "
            "Linter with a fresh Linter as reference after every call and validated by TLC against "
            "OrchestratorTrace.tla; all permutations of <=5 files (sampled beyond), PYTHONHASHSEED values and "
            "before/after snapshots of the project dir and a private TMPDIR for every command (sequential, "
            "--parallel, both DRY storage modes) through real processes. The permutation law is also run through lint_files_parallel (2 workers).",
            "Bounded histories (depth <=12), 4 abstract content classes, config not edited mid-history; "
            "the reference is the same code on a fresh object (relation between runs).",
            TECH),
    "C10": ("DESIGN.md §5 C10",
            "spec/Agreement.tla enumerates every target (each file, the directory, every explicit list of the "
            "6 project files; exhaustive) and states the union law and API = CLI over bags; every target is "
            "executed through all 20 linter commands and through Linter.lint on projects covering all probe "
            "kinds, two layouts, a per-language-override config and explicit --config/config_file variants; "
            "TLC (AgreementTrace.tla) judges every record with the spec's operators, cross-checked against the "
            "Python pre-check. Orchestrator.tla's UnionLaw invariant is model-checked as part of C08. spec/Walker.tla "
            "models the directory walker against repository ignore patterns (a pattern may match a directory path "
            "and none of its files; non-vacuity run with directory pruning) and its 57 pattern sets are replayed as "
            ".thailintignore files on a nested layout; further projects share all identifiers between files (a list "
            "and a string accumulator of the same name in neighbouring files). For an 18-file project `--parallel .` on the CLI is compared with Linter.lint as well.",
            "6-file projects; per-file rule = all rules but dry.*/stringly-typed.*; `dry --config <file without "
            "dry section>` excluded (overlay-vs-replace semantics undocumented).",
            TECH),
    "C14": ("DESIGN.md §5 C14",
            "spec/Collect.tla states which files must / must not be linted (layer A) and models the coded walk "
            "(os.walk pruning, exclusion on all path parts, fnmatch-style ignore matching; layer B); TLC checks "
            "B against A exhaustively for all ignore-pattern sets of size <=2 over 13 documented pattern forms x "
            "3 targets x recursive flag on a 180-file universe (every always-excluded name at depth 1 and 2, "
            "compiled artefacts, near-miss names) with a non-vacuity run of the pinned commit's prefix fallback; "
            "all cases are executed with the real CLI per carrier (.thailintignore, yaml, json, pyproject), "
            "with must-skip files also named explicitly; lint decisions recorded by the H2 tap and reported "
            "files are judged by TLC (CollectTrace.tla: Visited / Missed / NotReported + layer-B drift).",
            "Names are atoms in TLA+ (prefix relation tabulated); pattern forms limited to the documented ones; "
            "`**/name` at depth 0 carries no verdict; symlink-free trees; visiting observed through magic-numbers.",
            TECH),
    "C06": ("DESIGN.md §5 C06",
            "spec/Run.tla models one CLI run (parse, path validation, config loading, lint, render, exit) with "
            "fourteen classes of usage error and is model-checked exhaustively (ExitRule, NoOutputOnError, "
            "termination); every (fault, input class) case is executed for all 20 linter commands in text, json "
            "and sarif as real processes, including hostile inputs (non-ASCII identifiers, file names with "
            "quotes, backslash, newline and an invalid UTF-8 byte, several identical findings on one line); "
            "RunTrace.tla judges each triple: exit code law, equal bags across renderings, JSON total, "
            "well-formedness flags. Non-mapping config documents (YAML list / scalar, JSON array) are fault classes; the "
            "global --verbose flag is a dimension of the model (same outcome required).",
            "UTF-8/JSON decoding and the structural SARIF checks are computed by the harness and enter the "
            "trace as booleans; SARIF is not validated against the official schema (not available offline).",
            TECH),
    "C05": ("DESIGN.md §5 C05",
            "spec/Config.tla models the carriers of one option (.thailint.yaml / .thailint.json / pyproject / "
            "--config / command-line option / per-language override / section spelling), the coded discovery, "
            "key normalisation, lookup and CLI override (layer B) against the required effective value (layer A); "
            "exhaustive over all carrier combinations, with a non-vacuity run of a hyphen-only lookup. Every "
            "case is executed for five graded options (nesting py+ts, srp, collection-pipeline, dry); the "
            "effective value is measured black-box against reference runs; enabled:false for all 16 documented "
            "sections x spelling x 5 carriers, 10 switches, monotone sweeps, invalid values and unparsable "
            "files per carrier are further record kinds; ConfigTrace.tla re-evaluates EffectiveA per record. A file of "
            "another language carrying its own per-language override is linted before / after the probe in the same run "
            "(`companion`; non-vacuity run with one parsed section object shared by the whole run). The top-level `ignore` list is a record kind of its own: every combination of yaml / json / pyproject carriers, each holding a list that names its own directory, judged against IgnoreWinner (the same file order as the settings).",
            "Precedence asserted only when every present carrier sets the option; effective value identified "
            "by equality with a reference run (references must be pairwise distinct: TakesEffect).",
            TECH),
    "C09": ("DESIGN.md §5 C09",
            "spec/Paths.tla enumerates placements (19 parent-directory names: every always-excluded name, "
            "test/ignore marker names, the project's own name; 6 working directories incl. a foreign git "
            "checkout; 6 spellings) and models where the code looks at the path as spelled (layer B flags, "
            "non-vacuity run of the pinned commit); every placement x all 20 commands is executed and compared "
            "with the reference placement; PathsTrace.tla judges each record. Further placements: two path arguments, absolute "
            "and relative, from outside the project; the root of ANOTHER project (with an ignore file that hides every "
            "source file of its own tree) as working directory (layer-B flag RuleParserAtCwd, pinned variant violates). A sample of placements is repeated with --parallel (the project has more than 16 source files, so the pool is used).",
            "Project marked by .thailint.yaml only; message paths normalised by removing the project prefix as "
            "spelled; a parent literally named .git is excluded (it legitimately is a project-root marker).",
            TECH),
    "C04": ("DESIGN.md §5 C04",
            "spec/Ignore.tla defines Names / InScope / Expected for six directive forms and ten rule-name "
            "spellings, models the coded block scanner (layer B) and checks it against the requirement for all "
            "block/violation positions in files of <=7 lines (non-vacuity run of the pinned scanner); TLC "
            "enumerates all 100+ (form, spelling, placement) cases; each is instantiated for 21 linter x language "
            "bases, the project is linted with all rules before and after, and IgnoreTrace.tla computes "
            "Expected(base, d) and judges the result (NotSilenced / OverSilenced / OtherChanged), cross-checked "
            "with a Python mirror used only for diagnosis keys. Comma lists (`ignore[a,b]`) are two further "
            "spellings for same-line directives; every base is additionally edited in place through an alternating "
            "sequence of file-level and line-level directives and linted again by the same process / one held "
            "Linter, so nothing remembered per file may go stale. A second directive naming ANOTHER rule is stacked on the "
            "first (enclosing block, line above, file header): Expected2 of Ignore.tla, evaluated in final coordinates.",
            "Comment style follows the file's language; lazy-ignores findings excluded; file-level findings do "
            "not shift; line-scoped forms are not generated for file-level linters nor inside DRY blocks; "
            "`prefix.*` for rule ids without a sub-id carries no verdict.",
            TECH),
    "C15": ("DESIGN.md §5 C15",
            "spec/Languages.tla holds the extension/shebang -> language function, command -> linter ownership "
            "and linter -> language support tables (meta-invariants checked by TLC) and enumerates all "
            "(extension spelling incl. multi-suffix names, shebang form, content language, command) cases; each is one fresh-process CLI run "
            "under four settings of the other linters' sections on a project that also contains an "
            "extensionless python-shebang script and an extensionless non-script; LanguagesTrace.tla judges "
            "ForeignRule / WrongLanguage / UnknownTypeAnalysed / ExtensionCase / OtherSectionsMatter. Variant other_cwd starts the command in another directory and names the project by its absolute path (clause LanguageDependsOnCwd).",
            "Language-support table taken from the linter docs; a shebang inside a file WITH an unknown "
            "extension is not specified and not generated.",
            TECH),
    "C13": ("DESIGN.md §5 C13",
            "spec/Edits.tla enumerates edit sequences (blank/comment insertion at four positions, trailing "
            "whitespace, re-indentation, CRLF, BOM, appended unrelated code, renaming of function-local identifiers; "
            "length <=2 quick, <=3 thorough) and defines the shift "
            "function, whose monotonicity/boundedness/identity laws TLC checks over all concrete positions; every "
            "sequence is applied to 23 linter x language bases (incl. SRP size-boundary classes), all rules are "
            "linted before/after and EditsTrace.tla computes Expected(base, edits) (Lost / Gained / WrongShift / "
            "CountChanged); a Python mirror is used for diagnosis keys only and cross-checked. Every base is also edited "
            "in place and re-linted by one process / one held Linter, once as is and once with an inline directive "
            "in the file. As single edits, a blank / comment line is also inserted at EVERY line boundary of every base "
            "(bases include if/elif/else and try/except/finally chains on the nesting limit and a script ending in a "
            "`__main__` block). One base is a script without extension whose language is known from its `#!` line (edits above that line excluded).",
            "For renaming edits the findings of stringly-typed and dry (which look at names / statement text) are "
            "left out; probe files contain no multi-line strings; file-level findings "
            "do not shift; header-sensitive linters get no insertion at the top.",
            TECH),
    "C11": ("DESIGN.md §5 C11",
            "spec/Robust.tla enumerates fault sequences (36 fault operations x 5 seed kinds, length <=2 quick / "
            "<=3 thorough); the harness instantiates each with bytes/positions drawn from VERIF_SEED, places the "
            "damaged file among healthy siblings and runs Linter.lint (all rules, H1 failure tap on every "
            "swallowed exception) plus rotating CLI commands; RobustTrace.tla judges Hang / Crash / RuleFailed / "
            "SiblingsChanged per run. A slow-parse stage appends a 10 000-character token flood to a healthy TS/JS file "
            "(each tree-sitter parse then takes about a second): the findings of its healthy part and of the healthy "
            "file linted after it must survive (AnalysisDropped). Every damaged file is also linted first / in the middle of "
            "an explicit file list, followed by a bracket-free healthy file of its language.",
            "Fault enumeration, not exhaustive model checking of byte strings: concrete bytes are pseudo-random "
            "(recorded in the replay); hang = no result within 300 s; wall-clock dependent faults (parser "
            "timeouts) are only reachable in the thorough tier's larger blow-ups.",
            "TLA+ fault-sequence enumeration + fault injection into thai-lint + TLC trace validation"),
    "C20": ("DESIGN.md §5 C20",
            "spec/ConfigTool.tla models the application config file under set/get/reset (exhaustive for <=4 "
            "commands over 5 keys x valid/invalid/type-ambiguous values: AtomicReject, OnlyValidStored) and the "
            "init-config merge (NoRedeclare over all user-section cases; non-vacuity run of the pinned commit's "
            "exact-key match); TLC-simulated command histories are replayed through real `thailint config` "
            "processes on YAML and JSON files with byte-level before/after comparison; init-config runs on every "
            "(user sections x spelling x block/flow/commented style x preset) case measure ValidYaml, Preserve, "
            "Effect (through the tool's own loader), Idempotent and PresetAccepted (all 20 commands); "
            "ConfigToolTrace.tla replays histories through the spec's actions and judges every record. Hand-written files come in block, one-line flow, multi-line flow, commented and column-0-comment style.",
            "`returned unchanged` is judged on printed text; Effect through parse_config_file; histories <=8 "
            "commands.",
            TECH),
    "C01": ("DESIGN.md §5 C01",
            "spec/Nesting.tla builds every control-structure tree with <=3 structures over 8 kinds and their "
            "branch forms (61k functions), defines the documented depth and checks WrapAddsOne, FlipOnce, "
            "BranchesFlat and DepthAgrees on every tree; each tree is rendered into every language that can "
            "express it (self-checked with ast / tree-sitter), 15 functions per file in rotating function forms "
            "with colliding method names, and linted with every limit 1..max+1 through config and --max-depth; "
            "NestingTrace.tla recomputes DepthOf and judges every file (DepthEq / FlagEq / HeaderLine); the "
            "cross-language clause follows because the expectation has no language argument; mixed-language "
            "directories (one file per language, a distinct limit per language through per-language overrides, one "
            "run) are judged by the same trace specification.",
            "Bodies start with one plain statement; nested function definitions, lambdas, comprehensions and "
            "TS/Rust `else if` chains are not generated (undocumented); quick tier samples 4 500 functions per "
            "language, thorough runs all.",
            TECH),
    "C02": ("DESIGN.md §5 C02",
            "spec/MagicNumbers.tla fixes the item universe (syntactic slot x literal spelling per language: "
            "~30 slots incl. f-string/template interpolation, lambda, ternary, comprehension, slice, unary minus, "
            "two identical literals on one line; int, float, hex, underscore, exponent, suffixed spellings), the "
            "exemption predicate of the docs and the expected count per item for every configuration; TLC "
            "enumerates all allowed_numbers subsets x max_small_integer x file kinds per language (864 cases) and "
            "checks the allowed_numbers delta law and exactly-once as properties of the model; the rendered "
            "universe (self-checked, literal-free scaffolding, non-literal probes) is linted under every "
            "configuration and MagicNumbersTrace.tla judges Missed / Spurious / Duplicate / WrongValue / "
            "NonLiteralReported per item, cross-checked with a Python mirror for diagnosis; mixed-language directories "
            "give each language its own allowed_numbers / max_small_integer through per-language overrides in one run.",
            "Numeric identity across types (1_000_000 vs 1e6) and negative allowed entries are not exercised; "
            "Rust enum discriminants are not generated (not documented for Rust).",
            TECH),
    "C16": ("DESIGN.md §5 C16",
            "spec/Srp.tla defines Methods / Loc / Issues over class shapes and checks the boundary laws "
            "(on-limit not reported, above-limit reported, blank/comment and private members irrelevant, keyword "
            "only when switched on) over all 442k (shape, configuration) pairs; TLC emits all 12 288 shapes; "
            "they are rendered (self-checked) into Python / TypeScript classes and Rust struct+impl blocks "
            "(nested in functions, split and non-contiguous impl blocks), linted over a threshold grid given "
            "directly, through per-language overrides with decoy values, on the command line, and in "
            "mixed-language directories with distinct per-language limits; SrpTrace.tla judges Spurious / Missed / "
            "TwoViolations / IssueList / MethodCount / LocCount per class, cross-checked with a Python mirror. The configured keyword list is part of the configuration (built-in / the user's naming the other suffix / naming nothing / empty).",
            "LOC = non-blank non-comment lines from header to last line (Rust: struct + all impls); TS "
            "constructors/accessors and Rust associated functions are not generated (undocumented).",
            TECH),
    "C17": ("DESIGN.md §5 C17",
            "spec/RustSafety.tla enumerates all 6 192 sites (module kind x function kind x <=2 enclosing loops / "
            "closures / offloading wrappers x 9 risky calls), defines the verdict and expected count of the "
            "owning linter for every option setting, and checks the test-code, switch-independence and async laws "
            "on every site; sites are rendered 300 per file (self-checked with tree-sitter) and linted under "
            "every option setting (4 + 16 + 16) with alternating section spelling; additionally twin files with "
            "byte-identical layout, one with and one without the test attributes, are linted in one run; "
            "RustSafetyTrace.tla judges Missed / Spurious / Duplicate / WrongPosition per site. Sites may stand in an `async fn` item declared in the function's body (inner `asyncfn`, optionally with a loop inside).",
            "No verdict for clones behind a closure inside a loop and let-bound clones inside a loop; nested fn "
            "items and #[tokio::test] are not generated; quick tier samples 2 400 sites and a quarter of the "
            "clone/blocking option settings per file.",
            TECH),
    "C18": ("DESIGN.md §5 C18",
            "spec/FilePlacement.tla enumerates rule sets (nested directory rules with absent / empty / non-empty "
            "allow and deny lists, global_deny, global_patterns) over a 15-path tree with abstract patterns, "
            "defines the required verdict (layer A) and the coded matching (layer B with flags for the pinned "
            "commit's prefix matching and global-on-covered behaviour; non-vacuity run) and checks B = A, "
            "DenyBeatsAllow and NoRulesNoReports on every rule set (4 608 quick / 73 728 thorough); every rule "
            "set is written as a real configuration (string and dict pattern forms, both section spellings), "
            "the tree linted, and FilePlacementTrace.tla loads the rule set into the spec's variables and "
            "judges the reported paths; invalid regexes in five positions must yield exit 2.",
            "Patterns are abstract predicates with one regex each (table cross-checked against re at start-up); "
            "a file is reported if any file-placement finding names it.",
            TECH),
    "C03": ("DESIGN.md §5 C03",
            "spec/Dry.tla states Sound / Mutual / Complete / CountOk / NoDupNoReport over abstract projects "
            "(token per source line) and models the coded algorithm DryAlgo (rolling windows with original line "
            "numbers, snippet groups, greedy block de-duplication, occurrence threshold, greedy violation "
            "de-duplication); TLC checks DryAlgo against the requirement on ALL projects of two files (<=4/5 "
            "lines) and three files over two statement tokens + blank lines (216k projects, W=2; 396k for W=3 in "
            "the thorough tier): Sound, Mutual, CountOk, NoDupNoReport hold; Complete has counterexamples "
            "(prediction, confirmed on the tool); a non-vacuity run of the pinned overlap test violates Mutual. "
            "Every emitted project is rendered to Python and TypeScript (whitespace differences, trailing and "
            "whole-line comments) and the tool's findings are judged by DryTrace.tla against layer A, and "
            "compared with DryAlgo(project) (drift): on the unchanged tree the tool equals the model on every "
            "project.",
            "Statement tokens render to one-line module-level assignments (documented block filters out of "
            "play); Python's 64-bit hash() treated as injective; `covered` = line ranges intersect; quick tier "
            "samples 4 000 of the 43 560 two-file projects.",
            TECH),
    "C19": ("DESIGN.md §5 C19",
            "spec/DocExamples.tla defines embeddings of a documented example (0..2 enclosing frames out of "
            "function / class / if / try / with / for / while, filler blocks before and after, an unrelated inner "
            "statement, 1..3 copies, identifier renaming, a sibling file binding the example's identifiers), which "
            "embeddings are valid for which kind of fragment, where every copy starts (Start) and the verdict of a "
            "file (documented occurrences shifted to every copy, nothing else inside a copy, nothing on filler "
            "lines); TLC checks the laws of that requirement on every embedding (38 k quick / 58 k thorough: up to 3 copies, one filler block before) and "
            "emits them; every usable source fence of docs/*-linter.md (430 examples in a curated catalogue, text "
            "re-read from the docs at run time; explicit doc claims override the recorded baseline) is rendered "
            "under sampled valid embeddings (Python / TypeScript / Rust renderers, layout cross-checked against "
            "Start by the trace specification), linted by the owning linter (Linter.lint for cqs) in a fresh "
            "process, cross-file linters as pairs, multi-file fences split into their files; plus gallery runs "
            "(all examples of a doc in one run, both orders); DocExamplesTrace.tla judges every file "
            "(Missing / Extra / AcceptableReported / FillerReported), cross-checked with a Python mirror.",
            "What an example documents was decided once by reading the docs (overrides file, reasons for every "
            "skipped fence); context independence only for the pattern linters the property names; Rust renaming "
            "and loops around loop-sensitive rules are not generated; file-placement has no source examples "
            "(C18 covers its rules).",
            TECH),
    "C12": ("DESIGN.md §5 C12",
            "spec/Location.tla enumerates all 864 layouts of a probe file (0..2 lead lines, a neutral item first, "
            "0..2 enclosing frames, 0..2 decorator / attribute lines, split or one-line header / call / expression, "
            "LF or CRLF, final newline or not, code after the construct or not), fixes the construct's line range "
            "(Top / Lo / Hi) and the verdict of a reported violation (FileInRun, LineInFile, ColumnInLine, "
            "ConstructLine, QuotedOnLine, CitedLocation) and checks the laws of that verdict on every layout; 24 "
            "construct templates (13 Python, 5 TypeScript, 6 Rust; one per reporting linter incl. multi-line call "
            "chains with a short receiver line) are rendered under the layouts (all in the thorough tier), linted, "
            "and LocationTrace.tla judges every reported violation from facts measured on the bytes of the linted "
            "file (renderer's Top cross-checked); the layout-independent clauses are also judged on every "
            "catalogued documented example as is / CRLF / no final newline / leading blank lines and on DRY pairs "
            "holding the same code in six different layouts in both file orders. Magic-number templates for TypeScript and Rust also spell the literal in hexadecimal, octal, binary, with digit separators, an exponent or a type suffix.",
            "Columns are compared in UTF-8 bytes; for a multi-line call any line from the statement's first line to "
            "the method name is accepted; the quoted name is the reported construct's own name; quick tier samples "
            "70 layouts per template.",
            TECH),
}

REASON_NOT_YET = ("no check registered yet in this build; the TLA+ technique applies (see DESIGN.md §5) "
                  "but the machinery for this property has not been built")


def main() -> None:
    props = [json.loads(l)["id"] for l in (VERIF / "properties.jsonl").read_text().splitlines() if l.strip()]
    hooks = subprocess.run(["git", "-C", "/repo", "log", "--format=%H %s"], capture_output=True,
                           text=True, check=False).stdout.splitlines()
    hook_commits = [l.split()[0] for l in hooks if "verif hook" in l]
    checks = []
    for p in props:
        if p not in CLAIMED:
            continue
        ref, text, note, tech = CLAIMED[p]
        cat = "fault_enumeration" if p == "C11" else "model_checking"
        checks.append({
            "property_id": p,
            "quick_cmd": f"./check {p} --tier quick",
            "thorough_cmd": f"./check {p} --tier thorough",
            "evidence_file": f"/verif/evidence/{p}.json",
            "replay_cmd_template": f"./check {p} --replay {{path}}",
            "engine": "tlc+harness",
            "level_claimed": {"category": cat, "text": text, "design_ref": ref},
            "level_note": note,
            "technique": tech,
        })
    m = {
        "version": 1,
        "setup_cmd": "./setup.sh",
        "hooks": {
            "guard": "THAILINT_VERIF",
            "enable": "THAILINT_VERIF=1 [THAILINT_VERIF_FAILLOG=<file>] [THAILINT_VERIF_TRACE=<file>] "
                      "(pure Python: checks import /repo's working tree directly, no build step)",
            "baseline_off_cmd": BASELINE,
            "source_commits": hook_commits,
            "add_only": True,
        },
        "engines": [{"name": "tlc+harness", "path": "/verif/check",
                     "serves_properties": [c["property_id"] for c in checks],
                     "kind_free_text": "TLC 1.8 on /verif/spec/*.tla + Python harness (fork server, "
                                       "CLI/API drivers, schedule-controlled pool) + TLC trace validation"}],
        "checks": checks,
        "notes": "Known findings: /verif/known_findings.json. Seeded mutants: /verif/seeded/.",
        "not_applicable": [{"property_id": p, "reason": REASON_NOT_YET} for p in props if p not in CLAIMED],
    }
    (VERIF / "MANIFEST.json").write_text(json.dumps(m, indent=1) + "\n")


if __name__ == "__main__":
    main()
