"""Batch trace validation: records -> chunks -> one TLC run per chunk -> verdict per record.

The trace specification must print one PrintT(<<"VERDICT", tid, layerA, layerB, at>>) per record,
where tid is the 1-based index into JsonDeserialize(IOEnv.TRACE_FILE).
"""
from __future__ import annotations

import json

from . import pool, tlc
from .common import NCPU, MachineryError, mkscratch


def validate(chk, module: str, cfg: str, records: list, nchunks: int | None = None,
             timeout: float = 1200, cfg_text: str | None = None) -> list[tuple]:
    """Returns [(layerA, layerB, at)] aligned with records; updates chk's state/trace counters."""
    if not records:
        return []
    n = min(nchunks or NCPU, max(1, len(records) // 20 + 1), NCPU)
    d = mkscratch("trace")
    if cfg_text is not None:
        (d / "trace.cfg").write_text(cfg_text)
        cfg = str(d / "trace.cfg")
    chunks = [list(range(i, len(records), n)) for i in range(n)]
    jobs = []
    for i, idxs in enumerate(chunks):
        if not idxs:
            continue
        tf = d / f"t{i}.json"
        tf.write_text(json.dumps([records[j] for j in idxs]))
        jobs.append({"trace": str(tf), "idxs": idxs})

    def runone(g):
        r = tlc.run(module, cfg, workers=1, env={"TRACE_FILE": g["trace"]}, timeout=timeout)
        return {"verdicts": r.tuples("VERDICT"), "generated": r.generated, "distinct": r.distinct,
                "violation": r.violation, "tail": r.stdout[-2000:]}

    res = pool.run_jobs(runone, jobs, nproc=NCPU, timeout=timeout + 60)
    out: list = [None] * len(records)
    for g, r in zip(jobs, res):
        if not r.ok:
            raise MachineryError(f"{module} failed: {r.error}")
        v = r.value
        if v["violation"] or len(v["verdicts"]) != len(g["idxs"]):
            raise MachineryError(f"{module}: unexpected TLC result ({len(v['verdicts'])} verdicts for "
                                 f"{len(g['idxs'])} records)\n" + v["tail"])
        chk.states += v["distinct"]
        chk.transitions += v["generated"]
        for t in v["verdicts"]:
            tid = t[0]
            out[g["idxs"][tid - 1]] = tuple(t[1:])
            chk.traces += 1
    if any(o is None for o in out):
        raise MachineryError(f"{module}: missing verdicts")
    return out
