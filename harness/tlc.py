"""Running TLC / SANY and parsing what they print."""
from __future__ import annotations

import json
import os
import re
import shutil
import subprocess
import tempfile
from pathlib import Path

from .common import NCPU, SPEC, MachineryError, log, scratch_root

JAR = "/opt/veriftools/tla/tla2tools.jar"
DEPS = "/opt/veriftools/tla/CommunityModules-deps.jar"

_STATS = re.compile(r"(\d+) states generated, (\d+) distinct states found, (\d+) states left")
_DEPTH = re.compile(r"The depth of the complete state graph search is (\d+)")
_SIMSTATS = re.compile(r"states checked: (\d+)|(\d+) states checked")


class TlcResult:
    def __init__(self, stdout: str, rc: int, wall: float):
        self.stdout, self.rc, self.wall = stdout, rc, wall
        m = None
        for m in _STATS.finditer(stdout):
            pass
        self.generated = int(m.group(1)) if m else 0
        self.distinct = int(m.group(2)) if m else 0
        d = _DEPTH.search(stdout)
        self.depth = int(d.group(1)) if d else 0
        self.violation = ("is violated" in stdout) or ("Error: Deadlock" in stdout) \
            or ("is equal to FALSE" in stdout)
        self.error = rc not in (0,) and not self.violation

    def tuples(self, tag: str) -> list[list]:
        """All PrintT(<<tag, ...>>) lines, parsed."""
        return parse_tuples(self.stdout, tag)


def _unescape(s: str) -> str:
    out, i = [], 0
    while i < len(s):
        c = s[i]
        if c == "\\" and i + 1 < len(s):
            n = s[i + 1]
            out.append({"n": "\n", "t": "\t", "\\": "\\", '"': '"'}.get(n, n))
            i += 2
        else:
            out.append(c)
            i += 1
    return "".join(out)


def _parse_value(s: str, i: int):
    """Parse a TLA+ value printed by TLC (subset: strings, ints, booleans, tuples, sets, records)."""
    while s[i].isspace():
        i += 1
    c = s[i]
    if c == '"':
        j = i + 1
        while s[j] != '"':
            j += 2 if s[j] == "\\" else 1
        return _unescape(s[i + 1:j]), j + 1
    if s.startswith("<<", i):
        i += 2
        items = []
        while True:
            while s[i].isspace():
                i += 1
            if s.startswith(">>", i):
                return items, i + 2
            v, i = _parse_value(s, i)
            items.append(v)
            while s[i].isspace():
                i += 1
            if s[i] == ",":
                i += 1
    if c == "{":
        i += 1
        items = []
        while True:
            while s[i].isspace():
                i += 1
            if s[i] == "}":
                return {"__set__": items}, i + 1
            v, i = _parse_value(s, i)
            items.append(v)
            while s[i].isspace():
                i += 1
            if s[i] == ",":
                i += 1
    if c == "[":
        i += 1
        rec = {}
        while True:
            while s[i].isspace():
                i += 1
            if s[i] == "]":
                return rec, i + 1
            m = re.match(r"([A-Za-z_][A-Za-z0-9_]*)\s*\|->", s[i:])
            if not m:
                raise ValueError("record field expected at " + s[i:i + 40])
            i += m.end()
            v, i = _parse_value(s, i)
            rec[m.group(1)] = v
            while s[i].isspace():
                i += 1
            if s[i] == ",":
                i += 1
    if s.startswith("(", i):  # function printed as (a :> b @@ c :> d)
        i += 1
        fn = {}
        while True:
            while s[i].isspace():
                i += 1
            if s[i] == ")":
                return {"__fn__": fn}, i + 1
            k, i = _parse_value(s, i)
            while s[i].isspace():
                i += 1
            assert s.startswith(":>", i), s[i:i + 20]
            i += 2
            v, i = _parse_value(s, i)
            fn[json.dumps(k) if not isinstance(k, (str, int)) else k] = v
            while s[i].isspace():
                i += 1
            if s.startswith("@@", i):
                i += 2
    m = re.match(r"-?\d+", s[i:])
    if m:
        return int(m.group(0)), i + m.end()
    m = re.match(r"[A-Za-z_][A-Za-z0-9_]*", s[i:])
    if m:
        w = m.group(0)
        return {"TRUE": True, "FALSE": False}.get(w, w), i + m.end()
    raise ValueError("cannot parse TLA value at: " + s[i:i + 60])


def parse_tuples(stdout: str, tag: str) -> list[list]:
    out = []
    pat = re.compile(r'<<\s*"' + re.escape(tag) + '"')
    pos = 0
    while True:
        m = pat.search(stdout, pos)
        if not m:
            return out
        i = m.start()
        try:
            v, j = _parse_value(stdout, i)
            out.append(v[1:])
            pos = j
        except (ValueError, IndexError, AssertionError):
            pos = i + 2


def parse_cases(stdout: str, tag: str = "CASE") -> list:
    """PrintT(<<tag, ToJson(x)>>) lines -> list of x."""
    out = []
    for t in parse_tuples(stdout, tag):
        try:
            out.append(json.loads(t[0]))
        except (json.JSONDecodeError, IndexError, TypeError) as e:
            raise MachineryError(f"bad {tag} line from TLC: {t!r}: {e}") from e
    return out


def run(module: str, cfg: str | None = None, workers: int | str = 1, simulate: str | None = None,
        depth: int | None = None, seed: int | None = None, env: dict | None = None,
        timeout: float = 1800, coverage: bool = False, extra: list[str] | None = None,
        deadlock: bool = False, spec_dir: Path = SPEC, dfs: bool = False,
        dump: str | None = None) -> TlcResult:
    """Run TLC on spec_dir/module.tla with cfg (default: mc/<module>.cfg)."""
    import time
    cfgp = Path(cfg) if cfg else spec_dir / "mc" / f"{module}.cfg"
    if not cfgp.is_absolute():
        cfgp = spec_dir / cfgp
    meta = tempfile.mkdtemp(prefix="tlcmeta-", dir=scratch_root())
    java_opts = ["-XX:+UseParallelGC", "-Xmx6g"]
    if dfs:
        java_opts.append("-Dtlc2.tool.queue.IStateQueue=StateDeque")
    cmd = ["java", *java_opts, "-cp", f"{JAR}:{DEPS}", "tlc2.TLC", "-config", str(cfgp),
           "-workers", str(workers), "-metadir", meta, "-noGenerateSpecTE"]
    if not deadlock:
        cmd.append("-deadlock")
    if simulate:
        cmd += ["-simulate", simulate]
    if depth:
        cmd += ["-depth", str(depth)]
    if seed is not None:
        cmd += ["-seed", str(seed)]
    if coverage:
        cmd += ["-coverage", "1"]
    if dump:
        cmd += ["-dump", dump]
    if extra:
        cmd += extra
    cmd.append(str(spec_dir / f"{module}.tla"))
    e = dict(os.environ)
    if env:
        e.update({k: str(v) for k, v in env.items()})
    t0 = time.time()
    try:
        p = subprocess.run(cmd, cwd=spec_dir, env=e, capture_output=True, timeout=timeout,
                           check=False)
    except subprocess.TimeoutExpired as ex:
        raise MachineryError(f"TLC timed out on {module} ({timeout}s)") from ex
    finally:
        shutil.rmtree(meta, ignore_errors=True)
    out = p.stdout.decode("utf-8", "replace") + p.stderr.decode("utf-8", "replace")
    res = TlcResult(out, p.returncode, time.time() - t0)
    if res.error:
        log(out[-3000:])
        raise MachineryError(f"TLC failed on {module} rc={p.returncode}")
    return res


def sany(path: Path) -> bool:
    p = subprocess.run(["java", "-cp", f"{JAR}:{DEPS}", "tla2sany.SANY", str(path)], cwd=path.parent,
                       capture_output=True, check=False)
    out = p.stdout.decode() + p.stderr.decode()
    return p.returncode == 0 and "Semantic errors" not in out and "Parse Error" not in out \
        and "Fatal errors" not in out


def coverage_zero_actions(stdout: str) -> list[str]:
    """Action names whose coverage count is 0 in a `-coverage 1` run."""
    zero = []
    for m in re.finditer(r"<(\w+) line \d+, col \d+ to line \d+, col \d+ of module (\w+)>: (\d+):(\d+)", stdout):
        if m.group(3) == "0" and m.group(4) == "0":
            zero.append(m.group(1))
    return sorted(set(zero))
