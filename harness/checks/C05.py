"""C05 — configuration is honoured identically in every format and for every linter.

spec/Config.tla enumerates carrier combinations (project files, --config, command-line option,
language override, section spelling) and states which carrier's value must be effective.  The
harness measures the effective value black-box (graded probes compared with reference runs),
TLC (ConfigTrace.tla) judges every record.  `enabled: false`, switches, monotonicity and invalid
values are separate record kinds judged by the same trace spec.
"""
from __future__ import annotations

import json
import os
from collections import Counter
from pathlib import Path

from .. import drive, kit, pool, tlc, trace
from ..common import NCPU, MachineryError, canon, log, mkscratch, scratch_root

# ---- probes -------------------------------------------------------------------------------------


def nest_probe() -> str:
    out = []
    for k in range(1, 13):
        out.append(f"def depth_{k:02d}(x):")
        for d in range(k):
            out.append("    " * (d + 1) + f"if x > {0}:")
        out.append("    " * (k + 1) + "x = x + 1")
        out.append("    return x\n\n")
    return "\n".join(out)


def nest_probe_ts() -> str:
    out = []
    for k in range(1, 13):
        out.append(f"function depth{k:02d}(x: number): number {{")
        for d in range(k):
            out.append("  " * (d + 1) + "if (x > 0) {")
        out.append("  " * (k + 1) + "x = x + 1;")
        for d in reversed(range(k)):
            out.append("  " * (d + 1) + "}")
        out.append("  return x;\n}\n")
    return "\n".join(out)


def srp_probe() -> str:
    out = []
    for m in range(1, 13):
        out.append(f"class Alpha{chr(96 + m)}:")
        out.append("    def __init__(self):\n        self.v = 0\n")
        for i in range(m):
            out.append(f"    def op_{chr(97 + i)}(self):\n        return self.v\n")
        out.append("")
    return "\n".join(out)


def srp_probe_ts() -> str:
    out = []
    for m in range(1, 13):
        out.append(f"class Beta{chr(96 + m)} {{")
        out.append("  v = 0;")
        for i in range(m):
            out.append(f"  op{chr(65 + i)}(): number {{ return this.v; }}")
        out.append("}\n")
    return "\n".join(out)


def pipeline_probe() -> str:
    out = []
    for c in range(1, 9):
        out.append(f"def loop_{c}(items):\n    out = []\n    for item in items:")
        for i in range(c):
            out.append(f"        if not item.ok{chr(97 + i)}:\n            continue")
        out.append("        out.append(item)\n    return out\n\n")
    return "\n".join(out)


def dry_probe() -> dict:
    """Two files sharing runs of 3..11 identical statements (separated by unique lines)."""
    a, b = [], []
    for n in range(3, 12):
        a.append(f"def left_{n}(rec):")
        b.append(f"def right_{n}(rec):")
        for i in range(n):
            line = f"    val_{n}_{i} = rec.field_{n}_{i} + rec.other_{n}_{i}"
            a.append(line)
            b.append(line)
        a.append(f"    return left_marker_{n}(rec)\n")
        b.append(f"    return right_marker_{n}(rec, rec)\n")
    return {"dl.py": "\n".join(a) + "\n", "dr.py": "\n".join(b) + "\n"}


RUST_PROBE = '''use std::fs;

fn load(path: &str) -> String {
    let data = fs::read_to_string(path).unwrap();
    let other = fs::read_to_string(path).expect("readable");
    let copy = data.clone().clone();
    for item in copy.lines() {
        let s = other.clone();
        println!("{}{}{}", s, item, other.len());
    }
    data
}

async fn fetch(path: &str) -> String {
    let text = std::fs::read_to_string(path).unwrap_or_default();
    std::thread::sleep(std::time::Duration::from_secs(2));
    text
}

#[cfg(test)]
mod tests {
    #[test]
    fn check() {
        let v: Option<i32> = Some(1);
        let w = v.unwrap();
        let c = w.clone().clone();
        assert_eq!(c, 1);
    }
}
'''

OPTIONS = {
    "nesting.max_nesting_depth": {
        "section": "nesting", "option": "max_nesting_depth", "cmd": "nesting", "cli": "--max-depth",
        "vals": {1: 1, 2: 2, 3: 3, 4: 5, 5: 6, 11: 7, 12: 8, 13: 9, 14: 10}, "lang": "python",
        "files": {"probe.py": nest_probe()}, "extra": {}, "invalid": [0, -3], "default": 4},
    "nesting.max_nesting_depth@typescript": {
        "section": "nesting", "option": "max_nesting_depth", "cmd": "nesting", "cli": "--max-depth",
        "vals": {1: 1, 2: 2, 3: 3, 4: 5, 5: 6, 11: 7, 12: 8, 13: 9, 14: 10}, "lang": "typescript",
        "files": {"probe.ts": nest_probe_ts()}, "extra": {}, "invalid": [], "default": 4},
    "srp.max_methods": {
        "section": "srp", "option": "max_methods", "cmd": "srp", "cli": "--max-methods",
        "vals": {1: 1, 2: 2, 3: 3, 4: 4, 5: 5, 11: 6, 12: 8, 13: 9, 14: 10}, "lang": "python",
        "files": {"probe.py": srp_probe()}, "extra": {"max_loc": 500, "check_keywords": False}, "invalid": [0, -1], "default": 7},
    "collection-pipeline.min_continues": {
        "section": "collection-pipeline", "option": "min_continues", "cmd": "pipeline", "cli": "--min-continues",
        "vals": {1: 2, 2: 3, 3: 4, 4: 5, 5: 6}, "lang": None,
        "files": {"probe.py": pipeline_probe()}, "extra": {}, "invalid": [0], "default": 1},
    "dry.min_duplicate_lines": {
        "section": "dry", "option": "min_duplicate_lines", "cmd": "dry", "cli": "--min-lines",
        "vals": {1: 4, 2: 5, 3: 6, 4: 7, 5: 8}, "lang": None,
        "files": dry_probe(), "extra": {"enabled": True}, "invalid": [0, -2], "default": 3},
}

# (documented section, command, trigger files from the kit)
SECTIONS = [
    ("nesting", "nesting", ["nest.py", "nest.ts"]), ("srp", "srp", ["srp.py"]),
    ("magic-numbers", "magic-numbers", ["magic.py", "nest.ts", "risky.rs"]),
    ("dry", "dry", ["dup_a.py", "dup_b.py"]),
    ("stringly-typed", "stringly-typed", ["stringly_a.py", "stringly_b.py"]),
    ("print-statements", "print-statements", ["prints.py", "nest.ts"]),
    ("method-property", "method-property", ["methodprop.py"]),
    ("stateless-class", "stateless-class", ["stateless.py"]),
    ("collection-pipeline", "pipeline", ["pipeline.py"]),
    ("lazy-ignores", "lazy-ignores", ["lazy.py"]), ("lbyl", "lbyl", ["lbyl.py"]),
    ("file-header", "file-header", ["magic.py"]), ("performance", "perf", ["perf.py"]),
    ("unwrap-abuse", "unwrap-abuse", ["risky.rs"]), ("clone-abuse", "clone-abuse", ["risky.rs"]),
    ("blocking-async", "blocking-async", ["risky.rs"]),
]

# (section, command, option, value, effect, probe files): effect "removes"/"adds" w.r.t. the default
SWITCHES = [
    ("unwrap-abuse", "unwrap-abuse", "allow_expect", False, "adds", {"p.rs": RUST_PROBE}),
    ("unwrap-abuse", "unwrap-abuse", "allow_in_tests", False, "adds", {"p.rs": RUST_PROBE}),
    ("clone-abuse", "clone-abuse", "detect_clone_chain", False, "removes", {"p.rs": RUST_PROBE}),
    ("clone-abuse", "clone-abuse", "detect_clone_in_loop", False, "removes", {"p.rs": RUST_PROBE}),
    ("clone-abuse", "clone-abuse", "allow_in_tests", False, "adds", {"p.rs": RUST_PROBE}),
    ("blocking-async", "blocking-async", "detect_fs_in_async", False, "removes", {"p.rs": RUST_PROBE}),
    ("blocking-async", "blocking-async", "detect_sleep_in_async", False, "removes", {"p.rs": RUST_PROBE}),
    ("magic-numbers", "magic-numbers", "allowed_numbers", [0, 1, 37, 4200], "removes", {"magic.py": kit.FILES["magic.py"]}),
    ("lazy-ignores", "lazy-ignores", "check_noqa", False, "removes", {"lazy.py": kit.FILES["lazy.py"]}),
    ("stringly-typed", "stringly-typed", "min_occurrences", 3, "removes",
     {"a.py": kit.FILES["stringly_a.py"], "b.py": kit.FILES["stringly_b.py"]}),
]


def section_key(section: str, spelling: str) -> str:
    return section.replace("-", "_") if spelling == "underscore" else section


def write_carrier(root: Path, carrier: str, cfg: dict, name: str | None = None) -> str:
    """Write cfg (top-level dict) in the given carrier; returns the file name."""
    import yaml
    if carrier == "yaml":
        fn = name or ".thailint.yaml"
        (root / fn).write_text(yaml.safe_dump(cfg, sort_keys=False))
    elif carrier == "json":
        fn = name or ".thailint.json"
        (root / fn).write_text(json.dumps(cfg, indent=1))
    elif carrier == "pyproject":
        import tomli_w
        fn = "pyproject.toml"
        (root / fn).write_text(tomli_w.dumps({"project": {"name": "probe", "version": "0"},
                                              "tool": {"thailint": cfg}}))
    else:
        raise ValueError(carrier)
    return fn


def run_cmd(root: Path, cmd: str, pre: list[str], targets: list[str], group_pre: list[str] | None = None,
            only: set | None = None) -> dict:
    argv = (group_pre or []) + [cmd] + pre + targets
    r = drive.cli(argv + ["--format", "json"], cwd=root)
    viol, _ = drive.parse_json_violations(r["stdout"])
    bag = None
    if viol is not None:
        bag = sorted(canon([v["rule_id"], drive.rel(os.path.join(root, v["file_path"]), root), v["line"],
                            v["message"].replace(str(root) + "/", "")]) for v in viol if kit.owns(cmd, v["rule_id"])
                     and (only is None or drive.rel(os.path.join(root, v["file_path"]), root) in only))
    return {"exit": r["exit"], "bag": bag, "stderr": (r["stderr"] or "")[-300:], "exc": r["exc"]}


def mkroot(j: dict) -> Path:
    root = Path(j["root"])
    root.mkdir(parents=True, exist_ok=True)
    (root / ".git").mkdir(exist_ok=True)     # project-root marker independent of the carriers
    return root


# companion file of another language (Config.tla `companion`): its language, its content, and the value its own
# per-language override carries (a value no reference run uses: if it leaks into the probe, no reference matches)
COMPANION = {"nesting.max_nesting_depth": ("typescript", "ts", nest_probe_ts, 11),
             "nesting.max_nesting_depth@typescript": ("python", "py", nest_probe, 11),
             "srp.max_methods": ("typescript", "ts", srp_probe_ts, 11)}


def sect(o: dict, vid: int, with_lang: bool, companion: tuple | None = None, lang_other: bool = False) -> dict:
    s = dict(o["extra"])
    s[o["option"]] = o["vals"][vid]
    if lang_other and o["lang"]:
        # a sub-section for the probe's language that sets another key only
        s[o["lang"]] = {"max_loc": 400} if o["section"] == "srp" else {"enabled": True}
    if with_lang and o["lang"]:
        s[o["lang"]] = {o["option"]: o["vals"][vid + 10]}
        if companion:
            s[companion[0]] = {o["option"]: companion[3]}
    return s


def job_case(j: dict) -> dict:
    """One Config.tla case for one option."""
    drive.preload()
    o = OPTIONS[j["opt"]]
    root = mkroot(j)
    drive.write_tree(root, o["files"])
    c = j["case"]
    key = section_key(o["section"], c["spelling"])
    comp = COMPANION.get(j["opt"]) if c.get("companion", "none") != "none" else None
    targets = sorted(o["files"])
    if comp:
        cname = ("aaa_companion." if c["companion"] == "before" else "zzz_companion.") + comp[1]
        (root / cname).write_text(comp[2]())
        targets = [cname] + targets if c["companion"] == "before" else targets + [cname]
    for carrier, vid in (("yaml", 1), ("json", 2), ("pyproject", 3)):
        if c[carrier]:
            write_carrier(root, carrier, {key: sect(o, vid, c["lang"], comp, c.get("langOther", False))})
    pre, group_pre = [], []
    if c["dash"] != "none":
        fn = write_carrier(root.parent, c["dash"], {key: sect(o, 4, c["lang"], comp, c.get("langOther", False))}, name=f"alt.{c['dash']}")
        if j["group_level"]:
            group_pre = ["--config", str(root.parent / fn)]
        else:
            pre += ["--config", str(root.parent / fn)]
    if c["cli"]:
        # the option is given either with a value of its own or with the value that happens to be the built-in default
        pre += [o["cli"], str(o["default"] if c.get("cliDefault") else o["vals"][5])]
    # explicit list in the given order or the directory (walk order): both are one run over both languages
    return run_cmd(root, o["cmd"], pre, targets if (comp is None or j.get("listed", True)) else ["."], group_pre,
                   only=set(o["files"]))


def job_ref(j: dict) -> dict:
    """Reference: the value given in .thailint.yaml alone, documented spelling (value None = default)."""
    drive.preload()
    o = OPTIONS[j["opt"]]
    root = mkroot(j)
    drive.write_tree(root, o["files"])
    s = dict(o["extra"])
    if j["value"] is not None:
        s[o["option"]] = j["value"]
    write_carrier(root, j.get("carrier", "yaml"), {o["section"]: s})
    return run_cmd(root, o["cmd"], [], sorted(o["files"]))


def job_section(j: dict) -> dict:
    """enabled: false / a switch / nothing, in one carrier and spelling."""
    drive.preload()
    root = mkroot(j)
    drive.write_tree(root, j["files"])
    cfg = {section_key(j["section"], j["spelling"]): j["settings"]} if j["settings"] is not None else {}
    if j["section"] == "dry" and j["settings"] is not None and "enabled" not in j["settings"]:
        cfg[section_key("dry", j["spelling"])]["enabled"] = True
    pre = []
    if j["carrier"].startswith("dash"):
        fn = write_carrier(root.parent, j["carrier"][4:], cfg, name="alt." + j["carrier"][4:])
        pre = ["--config", str(root.parent / fn)]
    else:
        write_carrier(root, j["carrier"], cfg)
    return run_cmd(root, j["cmd"], pre, sorted(j["files"]))


IGNORE_PROBE = "def area(w):\n    return w * 4711\n"


def job_ignore(j: dict) -> dict:
    """Every present carrier holds a top-level ignore list naming ITS OWN directory (gen1/ yaml, gen2/ json, gen3/ pyproject)."""
    drive.preload()
    root = mkroot(j)
    files = {f"gen{i}/stub.py": IGNORE_PROBE for i in (1, 2, 3)}
    files["keep.py"] = IGNORE_PROBE
    drive.write_tree(root, files)
    for car, vid in (("yaml", 1), ("json", 2), ("pyproject", 3)):
        if j[car]:
            write_carrier(root, car, {"ignore": [f"gen{vid}/"]})
    return run_cmd(root, j["cmd"], [], ["."])


def job_invalid(j: dict) -> dict:
    drive.preload()
    root = mkroot(j)
    drive.write_tree(root, j["files"])
    if j["raw"] is not None:
        (root / j["fname"]).write_text(j["raw"])
    else:
        write_carrier(root, j["carrier"], j["cfg"])
    return run_cmd(root, j["cmd"], [], sorted(j["files"]))


def run(chk) -> None:
    quick = chk.tier == "quick"
    drive.preload()
    chk.rule = ("(a) Config.tla cases (project carriers x --config x command-line option (a value of its own / the built-in default) x language override x file of another language linted before/after in the same run x "
                "section spelling; exhaustive, 192+ cases) per graded option, effective value measured against "
                "reference runs; (b) enabled:false and switches per linter section x spelling x carrier; "
                "(c) monotone sweeps; (d) invalid values / unparsable files per carrier; non-trivial = at least "
                "one carrier present / a setting given; distinct by canonical case")
    chk.assumptions = ["precedence is asserted only when every present carrier sets the option (file-level vs "
                       "option-level fall-through is not documented)",
                       "effective value is identified by equality with the reference run of that value "
                       "(.thailint.yaml, documented spelling); references must be pairwise distinct (TakesEffect)"]
    cases_by_h = {}
    for hyph, cfgname in ((True, "mc/Config.cfg"), (False, None)):
        if cfgname is None:
            d = mkscratch("c05cfg")
            cfgp = d / "nohyphen.cfg"
            cfgp.write_text((tlc.SPEC / "mc" / "Config.cfg").read_text().replace("SectionHasHyphen = TRUE",
                                                                                "SectionHasHyphen = FALSE"))
            cfgname = str(cfgp)
        r = tlc.run("Config", cfgname, workers=1, timeout=300)
        chk.add_tlc(f"Config exhaustive (SectionHasHyphen={hyph})", r)
        if r.violation:
            raise MachineryError("Config.tla invariants violated:\n" + r.stdout[-1500:])
        cases_by_h[hyph] = tlc.parse_cases(r.stdout)
    pred2 = tlc.run("Config", "mc/Config_sharedObject.cfg", workers=1, timeout=300)
    chk.add_tlc("Config with one parsed section object per run (non-vacuity)", pred2)
    if not pred2.violation:
        raise MachineryError("vacuity: BEqualsA holds when the parsed section is shared across languages")
    pred = tlc.run("Config", "mc/Config_hyphenOnly.cfg", workers=1, timeout=300)
    chk.add_tlc("Config with hyphen-only lookup (non-vacuity)", pred)
    if not pred.violation:
        raise MachineryError("vacuity: BEqualsA holds for a hyphen-only lookup")
    chk.exhaustive = True

    # ---- (a) references and cases ---------------------------------------------------------------
    jobs, kinds = [], []
    for opt, o in OPTIONS.items():
        for vid, v in [(0, None)] + sorted(o["vals"].items()):
            jobs.append({"opt": opt, "value": v})
            kinds.append(("ref", opt, vid))
        hyph = "-" in o["section"]
        for ci, c in enumerate(cases_by_h[hyph]):
            if (c["lang"] or c.get("langOther")) and not o["lang"]:
                continue
            if not (c["yaml"] or c["json"] or c["pyproject"] or c["dash"] != "none" or c["cli"]):
                continue
            if o["extra"] and not (c["yaml"] or c["json"] or c["pyproject"] or c["dash"] != "none"):
                continue      # the linter must be switched on by a carrier (dry is off by default): CLI-only is unobservable
            if c.get("companion", "none") != "none" and opt not in COMPANION:
                continue
            if quick and (ci + len(opt)) % 3 and not (c["cli"] and c["lang"]):
                continue
            jobs.append({"opt": opt, "case": c, "group_level": ci % 4 == 0, "listed": ci % 3 != 0})
            kinds.append(("case", opt, ci))
    for i, j in enumerate(jobs):
        j["root"] = str(scratch_root() / f"c05-{i}" / "proj")
    log(f"C05: {len(jobs)} precedence runs")
    res = pool.run_jobs(lambda j: job_ref(j) if "value" in j else job_case(j), jobs, nproc=NCPU, timeout=300)
    refs: dict[str, dict[int, list]] = {}
    for j, k, r_ in zip(jobs, kinds, res):
        if not r_.ok:
            raise MachineryError(f"C05 job failed: {r_.error}")
        if k[0] == "ref":
            if r_.value["bag"] is None:
                raise MachineryError(f"C05 reference run failed for {k}: {r_.value}")
            refs.setdefault(k[1], {})[k[2]] = r_.value["bag"]
    records, meta = [], []
    for opt, o in OPTIONS.items():
        # TakesEffect + Monotone on the references (values ascending = more permissive)
        order = sorted(((o["vals"][vid] if vid else None, vid) for vid in refs[opt]), key=lambda t: (t[0] is None, t[0]))
        seq = [(v, vid, Counter(refs[opt][vid])) for v, vid in order if v is not None]
        distinct = len({canon(sorted(b.elements())) for _, _, b in seq}) == len(seq)
        mono = all(_only_message_changes(seq[i + 1][2], seq[i][2], o["files"]) for i in range(len(seq) - 1))
        records.append({"kind": "sweep", "distinct": distinct, "monotone": mono, "effective": 0, "observed": 0,
                        "exit": 0, "n": 0, "base": 0})
        meta.append(({"kind": "sweep", "option": opt}, None))
    for j, k, r_ in zip(jobs, kinds, res):
        if k[0] != "case":
            continue
        opt, c = k[1], j["case"]
        bag = r_.value["bag"]
        observed = -1
        if bag is not None:
            for vid, rb in refs[opt].items():
                if rb == bag:
                    observed = vid
        records.append({"kind": "case", "distinct": True, "monotone": True, "effective": c["effective"],
                        "observed": observed, "exit": r_.value["exit"], "n": len(bag or []), "base": 0})
        meta.append(({"kind": "case", "option": opt, "case": c, "group_level": j["group_level"]}, r_.value))

    # ---- (b) enabled:false and switches ----------------------------------------------------------
    sjobs, smeta = [], []
    carriers = ["yaml", "json", "pyproject", "dashyaml", "dashjson"]
    for section, cmd, trig in SECTIONS:
        files = {t: kit.FILES[t] for t in trig}
        spellings = ["hyphen", "underscore"] if "-" in section else ["hyphen"]
        sjobs.append({"section": section, "cmd": cmd, "files": files, "settings": {"enabled": True},
                      "spelling": "hyphen", "carrier": "yaml"})
        smeta.append(("enabled_true", section, "hyphen", "yaml"))
        for sp in spellings:
            for car in carriers:
                sjobs.append({"section": section, "cmd": cmd, "files": files, "settings": {"enabled": False},
                              "spelling": sp, "carrier": car})
                smeta.append(("disabled", section, sp, car))
    for section, cmd, option, value, effect, files in SWITCHES:
        sjobs.append({"section": section, "cmd": cmd, "files": files, "settings": None, "spelling": "hyphen",
                      "carrier": "yaml"})
        smeta.append(("switch_base", section, option, effect))
        spellings = ["hyphen", "underscore"] if "-" in section else ["hyphen"]
        for sp in spellings:
            for car in (carriers[:3] if quick else carriers):
                sjobs.append({"section": section, "cmd": cmd, "files": files, "settings": {option: value},
                              "spelling": sp, "carrier": car})
                smeta.append(("switch", section, option, effect, sp, car))
    for i, j in enumerate(sjobs):
        j["root"] = str(scratch_root() / f"c05s-{i}" / "proj")
    sres = pool.run_jobs(job_section, sjobs, nproc=NCPU, timeout=300)
    base_n: dict = {}
    for j, m, r_ in zip(sjobs, smeta, sres):
        if not r_.ok:
            raise MachineryError(f"C05 section job failed: {r_.error}")
        if m[0] == "switch_base":
            base_n[(m[1], m[2])] = r_.value
    for j, m, r_ in zip(sjobs, smeta, sres):
        v = r_.value
        n = len(v["bag"]) if v["bag"] is not None else -1
        if m[0] == "enabled_true":
            records.append({"kind": "enabled_true", "distinct": True, "monotone": True, "effective": 0,
                            "observed": 0, "exit": v["exit"], "n": n, "base": 0})
        elif m[0] == "disabled":
            records.append({"kind": "disabled", "distinct": True, "monotone": True, "effective": 0, "observed": 0,
                            "exit": v["exit"], "n": n, "base": 0})
        elif m[0] == "switch":
            b = base_n[(m[1], m[2])]
            bb, vb = Counter(b["bag"] or []), Counter(v["bag"] or [])
            subset = not (vb - bb) if m[3] == "removes" else not (bb - vb)
            records.append({"kind": "switch_" + m[3], "distinct": True, "monotone": subset, "effective": 0,
                            "observed": 0, "exit": v["exit"], "n": n, "base": len(b["bag"] or [])})
        else:
            continue
        meta.append(({"kind": m[0], "section": m[1], "detail": list(m[2:])}, v))

    # ---- (e) the top-level ignore list, per carrier combination ------------------------------------
    gjobs = [{"cmd": cmd, "yaml": y, "json": js, "pyproject": pp}
             for cmd in ("magic-numbers",) for y in (False, True) for js in (False, True) for pp in (False, True)]
    for i, j in enumerate(gjobs):
        j["root"] = str(scratch_root() / f"c05g-{i}" / "proj")
    gres = pool.run_jobs(job_ignore, gjobs, nproc=NCPU, timeout=300)
    for j, r_ in zip(gjobs, gres):
        if not r_.ok:
            raise MachineryError(f"C05 ignore-list job failed: {r_.error}")
        v = r_.value
        seen = {json.loads(k)[1] for k in (v["bag"] or [])}
        silent = [i for i in (1, 2, 3) if f"gen{i}/stub.py" not in seen]
        observed = (0 if not silent else silent[0] if len(silent) == 1 else -1) if "keep.py" in seen else -1
        records.append({"kind": "ignore_list", "distinct": True, "monotone": True, "effective": 0, "observed": observed,
                        "exit": v["exit"], "n": len(v["bag"] or []), "base": 0})
        meta.append(({"kind": "ignore_list", "carriers": {c: j[c] for c in ("yaml", "json", "pyproject")}, "observed": observed}, v))

    # ---- (d) invalid values and unparsable files -------------------------------------------------
    ijobs, imeta = [], []
    for opt, o in OPTIONS.items():
        for bad in o["invalid"]:
            for car in ("yaml", "json", "pyproject"):
                s = dict(o["extra"])
                s[o["option"]] = bad
                ijobs.append({"cmd": o["cmd"], "files": o["files"], "raw": None, "carrier": car,
                              "cfg": {o["section"]: s}})
                imeta.append(("invalid_value", opt, bad, car))
    for fname, raw in ((".thailint.yaml", "nesting: [unclosed\n  x: {\n"), (".thailint.json", '{"nesting": {"a": 1,}'),
                       ("pyproject.toml", "[tool.thailint\nnesting = {")):
        for cmd in ("nesting", "magic-numbers", "dry", "unwrap-abuse"):
            ijobs.append({"cmd": cmd, "files": {"nest.py": kit.FILES["nest.py"], "risky.rs": kit.FILES["risky.rs"]},
                          "raw": raw, "fname": fname})
            imeta.append(("unparsable", fname, cmd, ""))
    for i, j in enumerate(ijobs):
        j["root"] = str(scratch_root() / f"c05i-{i}" / "proj")
    ires = pool.run_jobs(job_invalid, ijobs, nproc=NCPU, timeout=300)
    for j, m, r_ in zip(ijobs, imeta, ires):
        if not r_.ok:
            raise MachineryError(f"C05 invalid job failed: {r_.error}")
        v = r_.value
        records.append({"kind": "invalid", "distinct": True, "monotone": True, "effective": 0, "observed": 0,
                        "exit": v["exit"], "n": len(v["bag"] or []), "base": 0})
        meta.append(({"kind": m[0], "what": list(m[1:])}, v))

    for rec, (case, _) in zip(records, meta):
        c = case.get("case") if case["kind"] == "case" else None
        for f in ("yaml", "json", "pyproject", "cli", "lang", "cliDefault", "langOther"):
            rec[f] = bool(c.get(f, False)) if c else False
        if case["kind"] == "ignore_list":
            rec.update({k: bool(v) for k, v in case["carriers"].items()})
        rec["companion"] = c.get("companion", "none") if c else "none"
        rec["dash"] = c["dash"] if c else "none"
        rec["spelling"] = c["spelling"] if c else "hyphen"
    verdicts = trace.validate(chk, "ConfigTrace", "mc/ConfigTrace.cfg", records)
    for (case, obs), (la, lb, at) in zip(meta, verdicts):
        chk.count(case, nontrivial=True)
        if la == "ok":
            continue
        key = {"clause": la}
        if case["kind"] == "case":
            c = case["case"]
            o = OPTIONS[case["option"]]
            observed = next((r["observed"] for r, (cc, _) in zip(records, meta) if cc is case), None)
            if c.get("companion", "none") != "none":
                key["companion"] = c["companion"]
            if c.get("cliDefault"):
                key["cli_value"] = "built-in default"
            if c.get("langOther"):
                key["lang_section"] = "other key only"
            key.update({"option": case["option"], "spelling": c["spelling"], "cli": c["cli"], "lang": c["lang"],
                        "config_placement": ("group" if case["group_level"] else "command") if c["dash"] != "none" else "none",
                        "winner": c["effective"], "observed": observed,
                        "carriers": "+".join([x for x in ("yaml", "json", "pyproject") if c[x]] +
                                             (["dash-" + c["dash"]] if c["dash"] != "none" else []))})
        elif case["kind"] in ("disabled", "switch", "enabled_true"):
            key.update({"section": case["section"], "detail": case["detail"]})
        else:
            key.update({k: v for k, v in case.items() if k != "kind"})
        chk.reject(key, {"case": case, "obs": obs}, f"{la}: {json.dumps(case)[:300]} -> "
                   f"exit={obs['exit'] if obs else None} n={len(obs['bag'] or []) if obs and obs.get('bag') is not None else None}")


def _only_message_changes(a: Counter, b: Counter, files: dict) -> bool:
    """True iff every finding of a has a counterpart in b at the same locus.

    Locus = (rule, file, enclosing top-level def/class of the line): messages quote the limit and
    DRY windows start at different lines for different window sizes, so identity is by construct.
    """
    def locus(k):
        rule, f, line = json.loads(k)[:3]
        owner = ""
        for i, text in enumerate(files.get(f, "").split("\n")[:line], 1):
            if text.startswith(("def ", "class ")):
                owner = text.split("(")[0].split(":")[0]
        return canon([rule, f, owner])
    return not ({locus(k) for k in a} - {locus(k) for k in b})
