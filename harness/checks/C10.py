"""C10 — directory, file-list, CLI and library runs agree with one another.

Targets (single file / directory / every explicit list) are enumerated by TLC from
spec/Agreement.tla; each is executed through every linter command and through Linter.lint; the
union law and API = CLI are judged by TLC (AgreementTrace.tla) on bags of violation ids.
"""
from __future__ import annotations

import json
import os
from collections import Counter
from pathlib import Path

from .. import drive, kit, pool, projects, tlc, trace
from ..common import NCPU, MachineryError, canon, log, scratch_root

CROSS = ("dry.", "stringly-typed.")


def _norm(vs, root):
    out = []
    for v in vs:
        d = dict(v)
        d["file_path"] = drive.rel(os.path.join(root, d["file_path"]), root)
        d.pop("suggestion", None)
        d["message"] = d["message"].replace(str(root) + "/", "")  # path equality up to spelling
        out.append(d)
    return out


def pattern_text(p: dict, files) -> str:
    """Instantiate a Walker.tla pattern [kind, f] on the nested layout pkg/m<f>/mod.<ext>."""
    rel = files[p["f"] - 1][0]
    d = f"m{p['f']:02d}"
    ext = os.path.splitext(rel)[1]
    return {"bare": f"pkg/{d}", "star2": f"**/{d}", "question": "pkg/m0?", "slash": f"{d}/", "prefix": f"pkg/{d}*",
            "exact": rel, "ext": f"*{ext}" if ext else rel}[p["kind"]]


def job(j: dict) -> dict:
    drive.preload()
    from src.api import Linter
    root = Path(j["root"])
    root.mkdir(parents=True, exist_ok=True)
    files = projects.build(j["n"], j["cross"], j["layout"], j["offset"], shared_names=j.get("shared_names", False),
                           force=j.get("force"))
    drive.write_tree(root, dict(files))
    (root / ".thailint.yaml").write_text(projects.CONFIGS[j["config"]])
    if j.get("pats") is not None:
        (root / ".thailintignore").write_text("".join(pattern_text(p, files) + "\n" for p in j["pats"]))
        (root / ".git").mkdir(exist_ok=True)
    explicit = None
    if j["explicit"]:
        explicit = root.parent / j["explicit"]
        explicit.write_text(projects.EXPLICIT[j["explicit"]])
    os.chdir(root)
    rels = [rel for rel, _ in files]
    cmd = j["cmd"]
    ids: dict[str, int] = {}
    rev: list = []

    def idseq(vs):
        seq = []
        for v in vs:
            k = canon(v)
            if k not in ids:
                ids[k] = len(ids) + 1
                rev.append(v)
            seq.append(ids[k])
        return seq

    def cli(args):
        r = drive.cli_json([cmd] + (["--config", str(explicit)] if explicit else []) + args)
        if r["violations"] is None:
            raise RuntimeError(f"no JSON from {cmd} {args}: exit={r['exit']} {r['stderr'][-300:]} {r['exc']}")
        return _norm(r["violations"], root)

    def api(target):
        vs = Linter(config_file=str(explicit) if explicit else None, project_root=str(root)).lint(str(root / target) if target != "." else str(root))
        out = []
        for v in vs:
            if kit.owns(cmd, v.rule_id):
                d = drive.viol_dict(v)
                d.pop("suggestion", None)
                out.append(d)
        return _norm(out, root)

    recs = []
    if j.get("parallel"):
        # the CLI's other way of running the same target: `--parallel` (18 files: the pool is used up to 8 workers)
        whole = cli(["--parallel", "."])
        recs.append({"law": "apicli", "kind": "dir", "sel": list(range(1, j["n"] + 1)), "api": idseq(api(".")),
                     "cli": idseq(whole), "whole": [], "parts": []})
        return {"recs": recs, "rev": rev}
    single = {f: cli([rels[f - 1]]) for f in range(1, j["n"] + 1)}
    for kind, sel in j["targets"]:
        if kind == "file":
            f = sel[0]
            recs.append({"law": "apicli", "kind": "file", "sel": sel, "api": idseq(api(rels[f - 1])),
                         "cli": idseq(single[f]), "whole": [], "parts": []})
            continue
        whole = cli(["."]) if kind == "dir" else cli([rels[f - 1] for f in sel])
        pf = [v for v in whole if not v["rule_id"].startswith(CROSS)]
        parts = [[v for v in single[f] if not v["rule_id"].startswith(CROSS)] for f in sel]
        recs.append({"law": "union", "kind": kind, "sel": sel, "whole": idseq(pf),
                     "parts": [idseq(p) for p in parts], "api": [], "cli": []})
        if kind == "dir":
            recs.append({"law": "apicli", "kind": "dir", "sel": sel, "api": idseq(api(".")),
                         "cli": idseq(whole), "whole": [], "parts": []})
    return {"recs": recs, "rev": rev}


def run(chk) -> None:
    quick = chk.tier == "quick"
    drive.preload()
    n = 6
    chk.rule = ("targets = every single file, the directory and every explicit list of the 6 project files "
                "(enumerated by TLC from Agreement.tla) x every linter command x projects covering all probe "
                "kinds x 2 layouts, plus Linter.lint for files and directories; non-trivial = the compared "
                "bags are non-empty; distinct by (project, command, target, law)")
    chk.assumptions = ["per-file rule = every rule except dry.* and stringly-typed.*",
                       "API results are filtered to the rule ids the CLI command owns (kit.COMMANDS)"]
    r = tlc.run("Agreement", "mc/Agreement.cfg", workers=1, timeout=300)
    chk.add_tlc("Agreement target enumeration", r)
    targets = [(t[0], t[1]) for t in r.tuples("TARGET")]
    if len(targets) != n + 1 + (2 ** n - 1):
        raise MachineryError(f"Agreement: expected {n + 1 + 2 ** n - 1} targets, got {len(targets)}")
    chk.exhaustive = True
    cmds = sorted(kit.COMMANDS)
    offsets = [0, 5, 10] if quick else [0, 2, 4, 6, 8, 10, 12]
    jobs = []
    small = [t for t in targets if t[0] != "list" or len(t[1]) <= 2]
    for off in offsets:
        for layout in ("flat", "samename"):
            for cmd in cmds:
                for config, explicit, tg in (("base", None, targets), ("overrides", None, targets),
                                             ("overrides", "empty.yaml", small), ("base", "empty.json", small),
                                             ("overrides", "alt.yaml", small), ("base", "ignores.yaml", small)):
                    # (always kept: an explicit EMPTY file against a project file with per-language thresholds, for the
                    # commands whose verdicts those thresholds change)
                    keep = explicit and explicit.startswith("empty") and config == "overrides" and off == offsets[0] \
                        and cmd in ("nesting", "srp", "magic-numbers")
                    if quick and explicit and (len(jobs) + off) % 3 and explicit != "ignores.yaml" and not keep:
                        continue
                    if quick and explicit == "ignores.yaml" and off != offsets[0]:
                        continue
                    if cmd == "dry" and explicit and explicit.startswith("empty"):
                        # `dry --config F` overlays F's dry section on the project config instead of
                        # replacing the config; whether that is intended is not documented -> excluded
                        continue
                    jobs.append({"n": n, "cross": [[1, 2], [3, 6]], "layout": layout, "offset": off,
                                 "cmd": cmd, "targets": tg, "config": config, "explicit": explicit,
                                 "root": str(scratch_root() / f"c10-{len(jobs)}" / "proj")})
    # repository-level ignore patterns (Walker.tla): the walker of a directory run and a run naming each file
    # must agree on which files are linted, whatever the patterns match
    rc = tlc.run("Walker", "mc/Walker.cfg", workers=1, timeout=300)
    chk.add_tlc("Walker: ignore-pattern sets, walker as coded", rc)
    if rc.violation:
        raise MachineryError("Walker.tla: WalkerMatchesUnion violated:\n" + rc.stdout[-1500:])
    rp = tlc.run("Walker", "mc/Walker_pruning.cfg", workers=1, timeout=300)
    chk.add_tlc("Walker: a walker pruning ignored directories (non-vacuity)", rp)
    if not rp.violation:
        raise MachineryError("vacuity: a walker that prunes ignored directories satisfies WalkerMatchesUnion")
    pcases = tlc.parse_cases(rc.stdout)
    if len(pcases) < 50:
        raise MachineryError(f"Walker.tla emitted {len(pcases)} pattern sets")
    dir_and_files = [t for t in targets if t[0] != "list" or len(t[1]) == n]
    for ci, cmd in enumerate(cmds):
        mine = list(pcases)
        if quick:
            chk.rng.shuffle(mine)
            # always: the pattern that matches every directory and no file, and one bare directory name
            always = [pc for pc in pcases if [p["kind"] for p in pc["pats"]] in (["question"], ["bare"])][:3]
            mine = always + [pc for pc in mine if pc not in always][:4]
        for pi, pc in enumerate(mine):
            jobs.append({"n": n, "cross": [[1, 2], [3, 6]], "layout": "nested", "offset": [0, 5, 10][(ci + pi) % 3],
                         "cmd": cmd, "targets": dir_and_files, "config": "base", "explicit": None, "pats": pc["pats"],
                         "root": str(scratch_root() / f"c10-{len(jobs)}" / "proj")})
    # the same identifiers in every file, and a list accumulator next to a string accumulator of the same name:
    # whatever a rule remembers per identifier must not travel from one file of a run to the next
    for ci, cmd in enumerate(cmds):
        for force in ({4: "collector", 5: "perf"}, {4: "perf", 5: "collector"}, None, {4: "tstwins", 5: "pytwins"},
                      {4: "selfdup", 5: "clean"}):
            if force and force.get(4) == "selfdup" and cmd not in ("dry", "stringly-typed", "nesting"):
                continue
            if quick and force is None and ci % 2:
                continue
            jobs.append({"n": n, "cross": [[1, 2], [3, 6]], "layout": "flat", "offset": [0, 5, 10][ci % 3], "cmd": cmd,
                         "targets": dir_and_files, "config": "base", "explicit": None,
                         "shared_names": not (force and 4 in force and force[4] in ("tstwins", "selfdup")), "force": force,
                         "root": str(scratch_root() / f"c10-{len(jobs)}" / "proj")})
    for ci, cmd in enumerate(cmds):
        if quick and cmd not in ("dry", "stringly-typed", "nesting", "magic-numbers", "unwrap-abuse"):
            continue
        for layout in (("flat",) if quick else ("flat", "samename")):
            # which files end up next to each other (and so in one task, if tasks hold several files) depends on the offset
            for off in ([0, 5, 10] if cmd in ("dry", "stringly-typed") else [[0, 5, 10][ci % 3]]):
                jobs.append({"n": 18, "cross": [[1, 2, 3], [4, 18], [9, 10], [11, 13]], "layout": layout, "offset": off,
                             "cmd": cmd, "targets": [], "config": "base", "explicit": None, "parallel": True,
                             "root": str(scratch_root() / f"c10-{len(jobs)}" / "proj")})
    log(f"C10: {len(jobs)} jobs x <= {len(targets)} targets")
    res = pool.run_jobs(job, jobs, nproc=NCPU, timeout=600)
    records, meta = [], []
    for j, r_ in zip(jobs, res):
        if not r_.ok:
            raise MachineryError(f"C10 job failed ({j['cmd']}): {r_.error}")
        for rec in r_.value["recs"]:
            records.append({k: rec[k] for k in ("law", "whole", "parts", "api", "cli")})
            meta.append((j, rec, r_.value["rev"]))
    verdicts = trace.validate(chk, "AgreementTrace", "mc/AgreementTrace.cfg", records)
    for (j, rec, rev), (la, lb, at) in zip(meta, verdicts):
        case = {"cmd": j["cmd"], "layout": j["layout"], "offset": j["offset"], "kind": rec["kind"],
                "config": j["config"], "explicit": j["explicit"],
                "sel": rec["sel"], "law": rec["law"]}
        if j.get("parallel"):
            case["cli_flags"] = ["--parallel"]
        if j.get("pats") is not None:
            case["pats"] = j["pats"]
        if j.get("shared_names"):
            case["shared_names"] = True
            case["force"] = j.get("force")
        a = rec["whole"] if rec["law"] == "union" else rec["api"]
        b = [x for p in rec["parts"] for x in p] if rec["law"] == "union" else rec["cli"]
        chk.count(case, nontrivial=bool(a or b))
        py_ok = Counter(a) == Counter(b)
        if py_ok != (la == "ok"):
            raise MachineryError(f"C10: Python pre-check and TLC verdict disagree on {case}")
        if la != "ok":
            diff = (Counter(a) - Counter(b)) + (Counter(b) - Counter(a))
            v = rev[next(iter(diff)) - 1]
            relation = {"dir": "DirVsFiles", "list": "ListVsFiles"}[rec["kind"]] if rec["law"] == "union" else "ApiVsCli"
            side = "whole/api only" if (Counter(a) - Counter(b)) else "parts/cli only"
            key = {"rule": v["rule_id"], "relation": relation, "target": rec["kind"]}
            if j.get("parallel"):
                key["cli_flags"] = "--parallel"
            if j.get("pats"):
                key["ignore_patterns"] = sorted({p["kind"] for p in j["pats"]})
            if j.get("shared_names"):
                key["shared_names"] = True
            chk.reject(key,
                       dict(case, v=v, side=side),
                       f"{relation}: thailint {j['cmd']} on {rec['kind']} {rec['sel']} disagrees on "
                       f"{v['rule_id']} at {v['file_path']}:{v['line']} ({side})")
