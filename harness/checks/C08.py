"""C08 — results depend only on current file contents and config, not on order or history.

spec/Orchestrator.tla models the long-lived object; TLC-simulated histories are replayed on one
real Linter with a fresh Linter as reference after every call and validated by
OrchestratorTrace.tla; file-order permutations, hash seeds and side effects are exercised with
the same projection.
"""
from __future__ import annotations

import hashlib
import itertools
import json
import os
from collections import Counter
from pathlib import Path

from .. import drive, kit, pool, projects, tlc
from ..common import NCPU, MachineryError, canon, log, mkscratch, scratch_root

NAMES = {1: "a.py", 2: "pkg/b.py", 3: "c.py"}


def content(p: int, c: int) -> str:
    plain = f"def plain{p}(qty{p}):\n    return qty{p} * {40 + p}\n"
    if c == 1:
        return plain
    if c == 2:
        return projects.dry_member(p, 0)
    if c == 3:
        return projects.stringly_member(p, 0)
    if c == 4:
        return "# thailint: ignore-file[magic-numbers]\n" + plain
    if c == 5:
        return f"def plain{p}(qty{p}):\n    return qty{p} * {40 + p}  # thailint: ignore[magic-numbers]\n"
    if c == 6:
        return (f"# moved down by one line\ndef plain{p}(qty{p}):\n"
                f"    # thailint: ignore-next-line[magic-numbers]\n    return qty{p} * {40 + p}\n")
    raise ValueError(c)


def emit_cfg(paths: int, maxops: int) -> str:
    return ("SPECIFICATION Spec\nCONSTANTS\n  Paths = {%s}\n  MaxOps = %d\n  DryResetOnFinalize = TRUE\n"
            "  ApiFileFinalizes = TRUE\nINVARIANT Emit\nINVARIANT HistoryFree\n"
            % (", ".join(map(str, range(1, paths + 1))), maxops))


def gen_histories(chk, num: int, depth: int, seed: int) -> list[list]:
    d = mkscratch("c08cfg")
    cfg = d / "emit.cfg"
    cfg.write_text(emit_cfg(3, depth))
    r = tlc.run("Orchestrator", str(cfg), workers=1, simulate=f"num={num}", depth=depth + 1, seed=seed,
                timeout=600)
    if r.violation:
        raise MachineryError("Orchestrator.tla: HistoryFree violated in the model itself")
    out, seen = [], set()
    for t in r.tuples("HIST"):
        h = []
        for op in t[0]:
            name, a, b = op
            if isinstance(a, dict):
                a = sorted(a["__set__"])
            h.append([name, a, b])
        k = canon(h)
        if k not in seen:
            seen.add(k)
            out.append(h)
    return out


# ---- child-side -----------------------------------------------------------------------------
def _bag(vs, root):
    out = []
    for v in vs:
        d = drive.viol_dict(v)
        d["file_path"] = drive.rel(d["file_path"], root)
        out.append(d)
    return out


def _abs(bag) -> list:
    inv = {v: k for k, v in NAMES.items()}
    out = set()
    for v in bag:
        p = inv.get(v["file_path"], 0)
        if v["rule_id"].startswith("dry."):
            out.add(("dry", p))
        elif v["rule_id"].startswith("stringly-typed."):
            out.add(("str", p))
        elif v["rule_id"].startswith("magic-numbers."):
            out.add(("pf", p))
    return sorted(out)


class PristineRef:
    """Reference results from processes that have never linted anything.

    Forked at job start (before the long-lived object exists); every request is served by a further
    fork of that pristine server, so process-global singletons (the cached ignore parser, rule-level
    class attributes) cannot carry state from the used object into the reference.
    """

    def __init__(self):
        from multiprocessing.connection import Pipe
        self.conn, child = Pipe()
        self.pid = os.fork()
        if self.pid == 0:
            self.conn.close()
            while True:
                try:
                    req = child.recv()
                except EOFError:
                    os._exit(0)
                if req is None:
                    os._exit(0)
                r, w = os.pipe()
                gp = os.fork()
                if gp == 0:
                    os.close(r)
                    try:
                        out = ("ok", _ref_call(req))
                    except BaseException as e:  # noqa: BLE001
                        out = ("err", repr(e))
                    import pickle
                    with os.fdopen(w, "wb") as f:
                        pickle.dump(out, f)
                    os._exit(0)
                os.close(w)
                import pickle
                with os.fdopen(r, "rb") as f:
                    data = pickle.load(f)
                os.waitpid(gp, 0)
                child.send(data)
        child.close()

    def call(self, req):
        self.conn.send(req)
        st, val = self.conn.recv()
        if st != "ok":
            raise RuntimeError("reference process failed: " + val)
        return val

    def close(self):
        try:
            self.conn.send(None)
            os.waitpid(self.pid, 0)
        except OSError:
            pass


def _ref_call(req):
    from src.api import Linter
    kind, root, arg = req
    os.chdir(root)
    lin = Linter(project_root=root)
    if kind == "lint":
        return _bag(lin.lint(arg), Path(root))
    return _bag(lin.orchestrator.lint_files([Path(a) for a in arg]), Path(root))


def job_history(job: dict) -> dict:
    drive.preload()
    from src.api import Linter
    root = Path(job["root"])
    root.mkdir(parents=True, exist_ok=True)
    (root / ".thailint.yaml").write_text(projects.BASE_CONFIG)
    os.chdir(root)
    ref = PristineRef()
    used = Linter(project_root=str(root))
    steps = []
    for name, a, b in job["hist"]:
        if name == "write":
            f = root / NAMES[a]
            f.parent.mkdir(parents=True, exist_ok=True)
            f.write_text(content(a, b))
            continue
        if name == "delete":
            (root / NAMES[a]).unlink()
            continue
        if name == "lintfile":
            call = lambda l: l.lint(str(root / NAMES[a]))  # noqa: E731
            req = ("lint", str(root), str(root / NAMES[a]))
        elif name == "lintdir":
            call = lambda l: l.lint(str(root))  # noqa: E731
            req = ("lint", str(root), str(root))
        else:
            fl = [root / NAMES[p] for p in a]
            call = lambda l: l.orchestrator.lint_files(list(fl))  # noqa: E731
            req = ("files", str(root), [str(x) for x in fl])
        ub = _bag(call(used), root)
        fb = ref.call(req)
        cu, cf = Counter(canon(v) for v in ub), Counter(canon(v) for v in fb)
        steps.append({"same": cu == cf, "used": _abs(ub), "fresh": _abs(fb),
                      "ghost": [json.loads(k) for k in (cu - cf)][:3],
                      "lost": [json.loads(k) for k in (cf - cu)][:3]})
    ref.close()
    return {"steps": steps}


def job_perm(job: dict) -> dict:
    drive.preload()
    from src.cli.utils import setup_base_orchestrator
    root = Path(job["root"])
    root.mkdir(parents=True, exist_ok=True)
    files = projects.build(job["n"], job["cross"], job["layout"])
    drive.write_tree(root, dict(files))
    # "overrides": the sections carry per-language thresholds - which language is linted first must not matter
    (root / ".thailint.yaml").write_text(projects.CONFIGS[job.get("config", "base")])
    os.chdir(root)
    paths = [root / rel for rel, _ in files]
    ref = None
    bad = []
    for perm in job["perms"]:
        order = [paths[i] for i in perm]
        orch = setup_base_orchestrator(order, None, False, None)
        found = orch.lint_files_parallel(order, max_workers=2) if job.get("mode") == "parallel" else orch.lint_files(order)
        bag = Counter(canon(v) for v in _bag(found, root))
        if ref is None:
            ref = bag
        elif bag != ref:
            bad.append({"perm": perm, "missing": [json.loads(k) for k in (ref - bag)][:3],
                        "extra": [json.loads(k) for k in (bag - ref)][:3]})
    return {"bad": bad, "nperm": len(job["perms"])}


def _snapshot(d: Path) -> dict:
    out = {}
    for base, dirs, files in os.walk(d):
        for n in dirs + files:
            p = Path(base) / n
            try:
                st = p.lstat()
                h = hashlib.sha256(p.read_bytes()).hexdigest()[:12] if p.is_file() else "dir"
                out[str(p.relative_to(d))] = [st.st_size if p.is_file() else 0, st.st_mtime_ns, h]
            except OSError:
                out[str(p.relative_to(d))] = ["?", 0, "?"]
    return out


def job_side(job: dict) -> dict:
    """One CLI command as a real process; project dir and private TMPDIR snapshotted before/after."""
    root = Path(job["root"])
    root.mkdir(parents=True, exist_ok=True)
    tmp = root.parent / "tmpdir"
    tmp.mkdir(exist_ok=True)
    files = projects.build(job["n"], job["cross"], "flat")
    drive.write_tree(root, dict(files))
    cfg = projects.BASE_CONFIG + f"  storage_mode: {job['storage']}\n"
    (root / ".thailint.yaml").write_text(cfg)
    before = _snapshot(root)
    outs = {}
    for seed in job["seeds"]:
        argv = [job["cmd"], "--format", "json"] + (["--parallel"] if job["parallel"] else []) + ["."]
        r = drive.cli_subprocess(argv, cwd=root, env={"TMPDIR": str(tmp)}, hashseed=str(seed))
        viol, _ = drive.parse_json_violations(r["stdout"])
        outs[str(seed)] = {"exit": r["exit"], "viol": sorted(canon(v) for v in viol) if viol is not None else None}
    after = _snapshot(root)
    changed = sorted(set(k for k in set(before) | set(after) if before.get(k) != after.get(k)))
    left = sorted(str(p.relative_to(tmp)) for p in tmp.rglob("*"))
    return {"changed": changed, "tmp_left": left, "outs": outs}


def run(chk) -> None:
    quick = chk.tier == "quick"
    drive.preload()
    chk.rule = ("histories of Write/Delete/LintFile/LintDir/LintFiles over 3 paths x 6 content classes, "
                "simulated by TLC from Orchestrator.tla and replayed on one real Linter (fresh Linter as "
                "reference after every call); plus file-order permutations, PYTHONHASHSEED values and "
                "side-effect snapshots per command; non-trivial = history with >= 2 lint calls and an "
                "edit between them, or a permutation/seed/side-effect case; distinct by canonical case")
    chk.assumptions = ["contents are abstracted to 6 classes (plain, DRY block, string-set validation, "
                       "ignore-file header, inline directive at two different lines); the config file is not edited during a history",
                       "fresh-object reference is computed by the same code (relation between runs)"]
    # 1. design model
    r = tlc.run("Orchestrator", "mc/Orchestrator.cfg", workers=min(8, NCPU), coverage=True, timeout=900)
    chk.add_tlc("Orchestrator exhaustive (3 paths, <=6 ops)", r)
    if r.violation:
        raise MachineryError("Orchestrator.tla invariants violated:\n" + r.stdout[-1500:])
    zero = tlc.coverage_zero_actions(r.stdout)
    if zero:
        raise MachineryError(f"vacuity: actions never taken in Orchestrator model: {zero}")
    pin = tlc.run("Orchestrator", "mc/Orchestrator_pinned.cfg", workers=1, timeout=300)
    chk.add_tlc("Orchestrator as coded at the pinned commit (non-vacuity)", pin)
    if not pin.violation:
        raise MachineryError("vacuity: HistoryFree holds even without the resets")
    chk.extra["model_of_pinned_commit_violates_HistoryFree"] = True

    # 2. histories
    hists = []
    for depth, num in ([(6, 120), (9, 120)] if quick else [(6, 1000), (9, 1500), (12, 1500)]):
        hists += gen_histories(chk, num, depth, chk.seed + depth)
    # directed history predicted by the pinned-commit model (stale DRY rows, leaked evidence)
    hists.append([["write", 1, 2], ["write", 2, 2], ["lintfile", 1, 0], ["write", 1, 1], ["lintdir", 0, 0]])
    hists.append([["write", 1, 3], ["write", 2, 3], ["lintdir", 0, 0], ["delete", 1, 0], ["lintdir", 0, 0]])
    hists.append([["write", 1, 2], ["write", 2, 2], ["lintdir", 0, 0], ["write", 2, 4], ["lintdir", 0, 0],
                  ["write", 2, 2], ["lintfiles", [1, 2], 0]])
    jobs = [{"hist": h, "root": str(scratch_root() / f"c08h-{i}" / "proj")} for i, h in enumerate(hists)]
    log(f"C08: {len(jobs)} histories")
    res = pool.run_jobs(job_history, jobs, nproc=NCPU, timeout=300)
    records = []
    for job, r_ in zip(jobs, res):
        if not r_.ok:
            if r_.hang:
                chk.reject({"clause": "Hang"}, {"hist": job["hist"]}, "history replay did not terminate")
                continue
            raise MachineryError(f"C08 history job failed: {r_.error}")
        lints = [op for op in job["hist"] if op[0].startswith("lint")]
        nontriv = len(lints) >= 2
        chk.count({"hist": job["hist"]}, nontrivial=nontriv)
        records.append({"hist": [[op[0], op[1] if not isinstance(op[1], list) else 0,
                                  op[2], op[1] if isinstance(op[1], list) else []] for op in job["hist"]],
                        "steps": [{"same": s["same"], "used": [list(x) for x in s["used"]],
                                   "fresh": [list(x) for x in s["fresh"]]} for s in r_.value["steps"]]})
        for i, s in enumerate(r_.value["steps"]):
            if not s["same"]:
                shape = [op[0] for op in job["hist"]]
                for v in s["ghost"]:
                    chk.reject({"clause": "History", "kind": "ghost", "rule": v["rule_id"]},
                               {"kind": "history", "hist": job["hist"], "step": i, "v": v},
                               f"used Linter reports {v['rule_id']} at {v['file_path']}:{v['line']} that a fresh one does not; history {shape}")
                for v in s["lost"]:
                    chk.reject({"clause": "History", "kind": "lost", "rule": v["rule_id"]},
                               {"kind": "history", "hist": job["hist"], "step": i, "v": v},
                               f"used Linter misses {v['rule_id']} at {v['file_path']}:{v['line']} that a fresh one reports; history {shape}")
    validate(chk, records)

    # 3. permutations of the file list
    pjobs = []
    for n in ([3, 4, 5] if quick else [3, 4, 5, 6]):
        perms = list(itertools.permutations(range(n)))
        if len(perms) > 130:
            chk.rng.shuffle(perms)
            perms = perms[:130]
        for layout in ("flat", "samename"):
            pjobs.append({"n": n, "cross": [[1, 2], [3, n]] if n >= 4 else [[1, 3]], "layout": layout,
                          "config": "overrides" if layout == "samename" or n == 5 else "base",
                          "perms": [list(p) for p in perms]})
    for n in ([12] if quick else [12, 20]):
        perms = []
        for _ in range(20 if quick else 200):
            p = list(range(n))
            chk.rng.shuffle(p)
            perms.append(p)
        pjobs.append({"n": n, "cross": [[1, 2], [3, n], [5, 6, 7]], "layout": "flat", "perms": perms})
    # the same claim for the pooled path (2 workers: the pool is used from 4 files on): how the list is cut into
    # tasks must not show in the result
    for n, num in ([(4, 24), (6, 12)] if quick else [(4, 24), (5, 60), (6, 60), (9, 40)]):
        perms = list(itertools.permutations(range(n)))
        chk.rng.shuffle(perms)
        pjobs.append({"n": n, "cross": [[1, 2], [3, n]], "layout": "flat", "mode": "parallel",
                      "perms": [list(range(n))] + [list(p) for p in perms[:num - 1]]})
    for i, j in enumerate(pjobs):
        j["root"] = str(scratch_root() / f"c08p-{i}" / "proj")
    res = pool.run_jobs(job_perm, pjobs, nproc=NCPU, timeout=900)
    for job, r_ in zip(pjobs, res):
        if not r_.ok:
            raise MachineryError(f"C08 permutation job failed: {r_.error}")
        chk.count({"kind": "perm", "n": job["n"], "layout": job["layout"], "nperm": r_.value["nperm"], "mode": job.get("mode", "sequential"),
                   "config": job.get("config", "base")},
                  nontrivial=True, n=r_.value["nperm"])
        for b in r_.value["bad"][:3]:
            v = (b["missing"] + b["extra"])[0]
            chk.reject({"clause": "Order", "rule": v["rule_id"], **({"mode": "parallel"} if job.get("mode") else {})},
                       {"kind": "perm", "mode": job.get("mode", "sequential"), "n": job["n"], "layout": job["layout"], "perm": b["perm"], "cross": job["cross"]},
                       f"file order {b['perm']} changes {v['rule_id']} findings")

    # 4. hash seeds and side effects, real processes
    sjobs = []
    cmds = sorted(kit.COMMANDS) if not quick else ["dry", "stringly-typed", "magic-numbers", "nesting",
                                                   "file-placement", "lazy-ignores", "perf", "srp"]
    seeds = [0, 1, 2] if quick else list(range(8))
    for cmd in cmds:
        for parallel in (False, True):
            for storage in (("memory", "tempfile") if cmd == "dry" or not quick else ("memory",)):
                sjobs.append({"cmd": cmd, "parallel": parallel, "storage": storage, "n": 18,
                              # groups of three and four files: a finding then lists several OTHER locations, whose
                              # order in the message must not depend on the hash seed either
                              "cross": [[1, 2, 9], [3, 18, 7, 12]], "seeds": seeds if not parallel else seeds[:1],
                              "root": str(scratch_root() / f"c08s-{len(sjobs)}" / "proj")})
    res = pool.run_jobs(job_side, sjobs, nproc=max(2, NCPU // 2), timeout=900)
    for job, r_ in zip(sjobs, res):
        case = {"kind": "side", "cmd": job["cmd"], "parallel": job["parallel"], "storage": job["storage"]}
        if not r_.ok:
            raise MachineryError(f"C08 side-effect job failed: {r_.error}")
        v = r_.value
        chk.count(case, nontrivial=True, n=len(job["seeds"]))
        if v["changed"]:
            chk.reject({"clause": "FsChanged", "cmd": job["cmd"], "parallel": job["parallel"]},
                       dict(case, changed=v["changed"][:5]), f"thailint {job['cmd']} modified the project: {v['changed'][:3]}")
        if v["tmp_left"]:
            chk.reject({"clause": "TmpLeft", "cmd": job["cmd"], "storage": job["storage"]},
                       dict(case, left=v["tmp_left"][:5]), f"thailint {job['cmd']} left temporary files: {v['tmp_left'][:3]}")
        outs = list(v["outs"].items())
        for s, o in outs[1:]:
            if o != outs[0][1]:
                chk.reject({"clause": "Seed", "cmd": job["cmd"]}, dict(case, seed=s),
                           f"thailint {job['cmd']} output differs between PYTHONHASHSEED={outs[0][0]} and {s}")


def validate(chk, records) -> None:
    d = mkscratch("c08trace")
    chunks = [records[i::NCPU] for i in range(NCPU)]
    gjobs = []
    for i, ch in enumerate(chunks):
        if not ch:
            continue
        tf = d / f"t{i}.json"
        tf.write_text(json.dumps(ch))
        gjobs.append({"trace": str(tf), "n": len(ch), "i": i})

    def runone(g):
        r = tlc.run("OrchestratorTrace", "mc/OrchestratorTrace.cfg", workers=1,
                    env={"TRACE_FILE": g["trace"]}, timeout=900)
        return {"verdicts": r.tuples("VERDICT"), "generated": r.generated, "distinct": r.distinct,
                "violation": r.violation, "tail": r.stdout[-1500:]}

    res = pool.run_jobs(runone, gjobs, nproc=NCPU, timeout=1000)
    for g, r in zip(gjobs, res):
        if not r.ok:
            raise MachineryError(f"OrchestratorTrace failed: {r.error}")
        v = r.value
        if v["violation"] or len(v["verdicts"]) != g["n"]:
            raise MachineryError("OrchestratorTrace: unexpected TLC result\n" + v["tail"])
        chk.states += v["distinct"]
        chk.transitions += v["generated"]
        recs = chunks[g["i"]]
        for tid, layer_a, layer_b, at in v["verdicts"]:
            chk.traces += 1
            rec = recs[tid - 1]
            if layer_b != "ok":
                chk.notes.append(f"MODEL-DRIFT C08 clause={layer_b} at op {at} hist={rec['hist']}")
                chk.extra["model_drift"] = chk.extra.get("model_drift", 0) + 1
            if layer_a != "ok":
                chk.reject({"clause": "Trace:" + layer_a}, {"kind": "trace", "hist": rec["hist"]},
                           f"TLC rejected observed history: {layer_a} at op {at}")
