"""C20 — config tooling never loses user settings and only writes validated values.

spec/ConfigTool.tla models the application config file under set/get/reset (AtomicReject,
OnlyValidStored) and the init-config merge (NoRedeclare, layer B = exact key match of the pinned
commit).  TLC-simulated command histories are replayed through real `thailint config ...`
processes; init-config cases (user sections x spelling x style x preset) are executed and their
outcome measured; ConfigToolTrace.tla judges both kinds of record.
"""
from __future__ import annotations

import json
import os
from pathlib import Path

from .. import drive, kit, pool, tlc, trace
from ..common import NCPU, MachineryError, canon, log, mkscratch, scratch_root

DEFAULTS = {"log_level": "INFO", "output_format": "text", "max_retries": "3", "timeout": "30", "greeting": "Hello",
            "feature_flag": "\0never printed"}
VALUES = {
    "log_level": {1: "DEBUG", 2: "ERROR", 9: "BOGUS"},
    "output_format": {1: "json", 2: "yaml", 9: "xml"},
    "max_retries": {1: "5", 2: "0", 3: "010", 9: "-1"},
    "timeout": {1: "60", 2: "1", 3: "0100", 4: "1:30", 5: "1e22", 6: "1e-7", 9: "0"},
    "feature_flag": {1: "on", 2: "010", 3: "1:30", 4: "plain text", 5: "true", 6: "0", 7: "false", 8: "1"},
    "greeting": {1: "Hi", 2: "Hello there", 3: "007", 4: "1e3", 5: "yes", 6: "null", 7: "true story", 8: "Hi \U0001F44B"},
}
# numeric keys: the number is what must come back (a decimal integer with a leading zero is that integer)
# (a key without schema that holds no text yet reads "010" as the number 10 as well)
PRINTED = {("max_retries", 3): "10", ("timeout", 3): "100", ("feature_flag", 2): "10", ("timeout", 5): "1e+22", ("feature_flag", 5): "True", ("feature_flag", 7): "False",
           ("timeout", 6): "1e-07"}
USER_VALUES = {
    "nesting": {"max_nesting_depth": 2}, "srp": {"max_methods": 3, "max_loc": 77},
    "magic-numbers": {"allowed_numbers": [0, 1, 37], "max_small_integer": 4},
    "dry": {"enabled": True, "min_duplicate_lines": 7},
    "performance": {"enabled": False}, "unwrap-abuse": {"allow_expect": True, "allow_in_tests": False},
}


def gen_histories(chk, num: int, depth: int, seed: int) -> list[list]:
    d = mkscratch("c20cfg")
    cfg = d / "emit.cfg"
    cfg.write_text(f"SPECIFICATION Spec\nCONSTANTS\n  MaxCmds = {depth}\n  ExactKeyMatch = FALSE\nINVARIANT Emit\n")
    r = tlc.run("ConfigTool", str(cfg), workers=1, simulate=f"num={num}", depth=depth + 1, seed=seed, timeout=600)
    out, seen = [], set()
    for t in r.tuples("HIST"):
        k = canon(t[0])
        if k not in seen:
            seen.add(k)
            out.append(t[0])
    return out


def job_hist(j: dict) -> dict:
    root = Path(j["root"])
    root.mkdir(parents=True)
    cfgname = "config.yaml" if j["carrier"] == "yaml" else "settings.json"
    cfgpath = root / cfgname
    pre = [] if j["implicit"] else ["--config", str(cfgpath)]
    if j["implicit"]:
        cfgpath = root / "config.yaml"
    steps = []
    for op, k, v in j["hist"]:
        before = cfgpath.read_bytes() if cfgpath.exists() else b""
        if op == "set":
            argv = pre + ["config", "set", k, VALUES[k][v]]
        elif op == "get":
            argv = pre + ["config", "get", k]
        else:
            argv = pre + ["config", "reset", "--yes"]
        r = drive.cli_subprocess(argv, cwd=root, timeout=60)
        after = cfgpath.read_bytes() if cfgpath.exists() else b""
        got = -1
        if op == "get":
            text = r["stdout"].rstrip("\n")
            table = {0: DEFAULTS[k], **VALUES[k]}
            cands = [i for i, s in table.items() if text in (s, PRINTED.get((k, i))) and i != 9
                     and not (k == "timeout" and i == 4)]
            got = cands[0] if cands else -1
        steps.append({"exit": r["exit"] if r["exit"] is not None else -9, "changed": before != after, "got": got,
                      "stdout": r["stdout"][-120:], "stderr": r["stderr"][-200:]})
    return {"steps": steps}


def render_user(user: list[dict], style: str) -> str:
    import yaml
    out = ["# my project configuration (hand written)", "my_extra_setting: keep-me"]
    for u in user:
        name = u["name"].replace("-", "_") if u["spelling"] == "underscore" else u["name"]
        vals = USER_VALUES[u["name"]]
        if style == "flow":
            out.append(f"{name}: " + json.dumps(vals))
        elif style == "flowlines":       # a flow mapping written over several lines: its closing brace stands in column 0
            items = list(vals.items())
            out.append(f"{name}: {{")
            out += [f"  {json.dumps(k)}: {json.dumps(v)}" + ("," if n < len(items) - 1 else "") for n, (k, v) in enumerate(items)]
            out.append("}")
        elif style == "col0comment":     # a block mapping with comment lines in column 0 inside the section
            body = ["  " + l for l in yaml.safe_dump(vals, default_flow_style=False).rstrip().split("\n")]
            out.append(f"{name}:")
            out += ["# the values below were agreed with the team", body[0]]
            for b in body[1:]:
                out += [f"#{b[1:]}-old", b]
        elif style == "commented":
            out.append(f"{name}:   # tuned by hand")
            out += ["  " + l for l in yaml.safe_dump(vals, default_flow_style=False).rstrip().split("\n")]
        else:
            out.append(f"{name}:")
            out += ["  " + l for l in yaml.safe_dump(vals, default_flow_style=False).rstrip().split("\n")]
    return "\n".join(out) + "\n"


def job_init(j: dict) -> dict:
    import yaml
    root = Path(j["root"])
    root.mkdir(parents=True)
    (root / ".git").mkdir()
    drive.write_tree(root, kit.FILES)
    cfg = root / ".thailint.yaml"
    existing = None
    if j["user"] is not None:
        existing = render_user(j["user"], j["style"])
        cfg.write_text(existing)
    r1 = drive.cli_subprocess(["init-config", "--non-interactive", "--preset", j["preset"]], cwd=root)
    content1 = cfg.read_text() if cfg.exists() else ""
    out = {"exit": r1["exit"], "valid_yaml": True, "preserved": True, "effective": True, "idempotent": True,
           "accepted": True, "detail": {}}
    try:
        raw = yaml.safe_load(content1)
        out["valid_yaml"] = isinstance(raw, dict)
    except yaml.YAMLError as e:
        out["valid_yaml"] = False
        out["detail"]["yaml"] = str(e)[:200]
        raw = None
    if existing is not None and raw is not None:
        # Preserve: the user's text is still there, line for line, in order
        it = iter(content1.split("\n"))
        out["preserved"] = all(any(line == x for x in it) for line in existing.rstrip("\n").split("\n"))
        # Effect: what the tool itself loads for the section is what the user wrote
        drive.preload()
        from src.core.config_parser import parse_config_file
        loaded = parse_config_file(cfg)
        bad = {}
        for u in j["user"]:
            sec = loaded.get(u["name"].replace("-", "_"), loaded.get(u["name"]))
            for k, v in USER_VALUES[u["name"]].items():
                if not isinstance(sec, dict) or sec.get(k) != v:
                    bad[f"{u['name']}.{k}"] = None if not isinstance(sec, dict) else sec.get(k)
        out["effective"] = not bad
        out["detail"]["effect"] = bad
        if loaded.get("my_extra_setting") != "keep-me":
            out["preserved"] = False
    r2 = drive.cli_subprocess(["init-config", "--non-interactive", "--preset", j["preset"]], cwd=root)
    out["idempotent"] = (cfg.read_text() if cfg.exists() else "") == content1 and r2["exit"] == 0
    if j["check_commands"]:
        badcmds = {}
        for cmd in sorted(kit.COMMANDS):
            r = drive.cli([cmd, "--format", "json", "."], cwd=root)
            if r["exit"] not in (0, 1):
                badcmds[cmd] = [r["exit"], (r["stderr"] or "")[-200:]]
        out["accepted"] = not badcmds
        out["detail"]["commands"] = badcmds
    return out


def run(chk) -> None:
    quick = chk.tier == "quick"
    chk.rule = ("(a) histories of config set/get/reset over 6 keys (5 of the schema, one of the user's own) x {valid, invalid, type-ambiguous} values, "
                "simulated by TLC from ConfigTool.tla and replayed through real CLI processes on yaml and json "
                "files (explicit --config and the default location); (b) init-config on every existing-file case "
                "(subsets of 6 user sections x hyphen/underscore spelling x block / one-line flow / multi-line flow / commented / column-0-comment style x 3 "
                "presets) and on no file; non-trivial = history contains a set / an existing file; distinct by case")
    chk.assumptions = ["`returned unchanged` is judged on the text printed by `config get` against the text given "
                       "to `config set`", "Effect is judged through the tool's own loader (parse_config_file)"]
    r = tlc.run("ConfigTool", "mc/ConfigTool.cfg", workers=min(8, NCPU), timeout=600)
    chk.add_tlc("ConfigTool exhaustive (<=4 commands) + NoRedeclare", r)
    if r.violation:
        raise MachineryError("ConfigTool.tla invariants violated:\n" + r.stdout[-1500:])
    pin = tlc.run("ConfigTool", "mc/ConfigTool_pinned.cfg", workers=1, timeout=300)
    chk.add_tlc("ConfigTool with exact key match (non-vacuity)", pin)
    if not pin.violation:
        raise MachineryError("vacuity: NoRedeclare holds with exact key matching")
    ucs = tlc.parse_cases(r.stdout, "USERCASES")
    usercases = ucs[0] if ucs else []
    hists = gen_histories(chk, 60 if quick else 600, 5, chk.seed) + gen_histories(chk, 30 if quick else 300, 8, chk.seed + 1)
    # directed: accepted value then get; rejected value leaves bytes; reset
    hists += [[["set", "greeting", 3], ["get", "greeting", 0]], [["set", "max_retries", 2], ["get", "max_retries", 0]],
              [["set", "max_retries", 3], ["get", "max_retries", 0]], [["set", "timeout", 3], ["get", "timeout", 0]],
              [["set", "timeout", 1], ["set", "timeout", 4], ["get", "timeout", 0]],
              [["set", "timeout", 1], ["set", "timeout", 5], ["get", "timeout", 0], ["get", "log_level", 0]],
              [["set", "timeout", 2], ["set", "timeout", 6], ["get", "timeout", 0]],
              [["set", "greeting", 1], ["set", "greeting", 8], ["get", "greeting", 0], ["get", "timeout", 0]],
              [["set", "feature_flag", 1], ["get", "feature_flag", 0], ["set", "feature_flag", 2], ["get", "feature_flag", 0]],
              [["set", "feature_flag", 3], ["get", "feature_flag", 0], ["reset", "", 0]],
              [["set", "feature_flag", 5], ["get", "feature_flag", 0], ["set", "feature_flag", 6], ["get", "feature_flag", 0]],
              [["set", "feature_flag", 6], ["set", "feature_flag", 5], ["get", "feature_flag", 0], ["set", "feature_flag", 4], ["get", "feature_flag", 0]],
              [["set", "feature_flag", 7], ["set", "feature_flag", 6], ["get", "feature_flag", 0]],
              [["set", "feature_flag", 8], ["set", "feature_flag", 5], ["get", "feature_flag", 0], ["set", "feature_flag", 8], ["get", "feature_flag", 0]],
              [["set", "log_level", 1], ["set", "log_level", 9], ["get", "log_level", 0]],
              [["set", "timeout", 1], ["reset", "", 0], ["get", "timeout", 0]]]
    jobs = []
    for i, h in enumerate(hists):
        jobs.append({"kind": "hist", "hist": h, "carrier": "yaml" if i % 2 == 0 else "json",
                     "implicit": i % 5 == 4 and i % 2 == 0, "root": str(scratch_root() / f"c20h-{i}")})
    njobs_h = len(jobs)
    styles = ["block", "flow", "commented", "flowlines", "col0comment"]
    presets = ["standard", "strict", "lenient"]
    k = 0
    for uc in usercases:
        if not uc:
            continue
        for style in styles:
            for preset in (presets if not quick else [presets[k % 3]]):
                k += 1
                jobs.append({"kind": "init", "user": sorted(uc, key=lambda u: u["name"]), "style": style,
                             "preset": preset, "check_commands": k % 6 == 0,
                             "root": str(scratch_root() / f"c20i-{len(jobs)}")})
    for preset in presets:
        jobs.append({"kind": "init", "user": None, "style": "none", "preset": preset, "check_commands": True,
                     "root": str(scratch_root() / f"c20i-{len(jobs)}")})
    log(f"C20: {njobs_h} command histories, {len(jobs) - njobs_h} init-config cases")
    res = pool.run_jobs(lambda j: job_hist(j) if j["kind"] == "hist" else job_init(j), jobs, nproc=NCPU, timeout=900)
    records, meta = [], []
    for j, r_ in zip(jobs, res):
        if not r_.ok:
            raise MachineryError(f"C20 job failed: {r_.error}")
        v = r_.value
        blank = {"hist": [], "steps": [], "valid_yaml": True, "preserved": True, "effective": True,
                 "idempotent": True, "accepted": True}
        if j["kind"] == "hist":
            records.append(dict(blank, kind="hist", hist=j["hist"],
                                steps=[{"exit": s["exit"], "changed": s["changed"], "got": s["got"]} for s in v["steps"]]))
        else:
            records.append(dict(blank, kind="init", **{k_: v[k_] for k_ in ("valid_yaml", "preserved", "effective",
                                                                            "idempotent", "accepted")}))
        meta.append((j, v))
    verdicts = trace.validate(chk, "ConfigToolTrace", "mc/ConfigToolTrace.cfg", records)
    for (j, v), (la, lb, at) in zip(meta, verdicts):
        if j["kind"] == "hist":
            case = {"kind": "hist", "hist": j["hist"], "carrier": j["carrier"], "implicit": j["implicit"]}
            chk.count(case, nontrivial=any(o[0] == "set" for o in j["hist"]))
            if la != "ok":
                op = j["hist"][at - 1]
                st = v["steps"][at - 1]
                vclass = "n/a"
                if op[0] == "get":
                    # which value was last set for this key
                    last = [o for o in j["hist"][:at - 1] if o[0] in ("set", "reset")]
                    cur = 0
                    for o in j["hist"][:at - 1]:
                        if o[0] == "reset":
                            cur = 0
                        elif o[0] == "set" and o[1] == op[1] and o[2] != 9:
                            cur = o[2]
                    vclass = "default" if cur == 0 else ("ambiguous" if (op[1] == "greeting" and cur >= 3) or op[1] == "feature_flag"
                                                        or (op[1] in ("max_retries", "timeout") and cur >= 3) else "plain")
                    vtext = {0: DEFAULTS[op[1]], **VALUES[op[1]]}[cur]
                else:
                    vtext = VALUES[op[1]][op[2]] if op[0] == "set" else ""
                chk.reject({"clause": la, "key": op[1], "value": vtext, "value_class": vclass, "carrier": j["carrier"]},
                           dict(case, step=at, observed=st),
                           f"{la} at step {at} {op}: exit={st['exit']} changed={st['changed']} stdout={st['stdout']!r}")
        else:
            case = {"kind": "init", "user": j["user"], "style": j["style"], "preset": j["preset"]}
            chk.count(case, nontrivial=j["user"] is not None)
            if la != "ok":
                spell = sorted({u["spelling"] for u in (j["user"] or [])})
                chk.reject({"clause": la, "style": j["style"], "spellings": spell,
                            "sections": sorted(u["name"] for u in (j["user"] or [])
                                               if la not in ("Effect",) or any(k_.startswith(u["name"] + ".")
                                                                               for k_ in v["detail"].get("effect", {})))},
                           dict(case, detail=v["detail"]),
                           f"{la}: init-config --preset {j['preset']} on {j['style']} file with {j['user']}: {v['detail']}")
