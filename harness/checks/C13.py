"""C13 — meaning-preserving edits leave the findings unchanged up to line shift.

spec/Edits.tla enumerates edit sequences (blank/comment insertion at four positions, trailing
whitespace, re-indentation, CRLF, BOM, appended unrelated code) and defines the shift function
(monotone, bounded; checked by TLC); every sequence is applied to every linter x language base
project of C04 plus SRP size-boundary bases; EditsTrace.tla computes Expected(base, edits).
"""
from __future__ import annotations

import ast
import json
import os
import re
from collections import Counter
from pathlib import Path

from .. import drive, kit, pool, tlc, trace
from ..common import NCPU, MachineryError, canon, log, scratch_root
from . import C04

TAIL = {"py": "\n\ndef unrelated_tail(value):\n    return value\n",
        "ts": "\nfunction unrelatedTail(value: number): number {\n  return value;\n}\n",
        "rs": "\nfn unrelated_tail(value: i32) -> i32 {\n    value\n}\n"}


def srp_boundary(lang: str) -> str:
    """Two classes: one exactly on max_loc (12 code lines), one above it."""
    if lang == "py":
        def cls(name, n):
            body = "".join(f"        self.v{i} = {i % 2}\n" for i in range(n - 3))
            return f"class {name}:\n    def __init__(self):\n{body}        self.z = 0\n"
        return cls("OnLimit", 12) + "\n\n" + cls("AboveLimit", 14)
    def cls(name, n):
        body = "".join(f"    this.v{i} = {i % 2};\n" for i in range(n - 5))
        return f"class {name} {{\n  v: number;\n  constructor() {{\n{body}    this.v = 0;\n  }}\n}}\n"
    return cls("OnLimit", 12) + "\n" + cls("AboveLimit", 14)


ELIF_PY = '''def route(kind, items):
    for item in items:
        if kind == "a":
            item.run()
        elif kind == "b":
            for sub in item:
                sub.run()
        elif kind == "c":
            for sub in item:
                if sub:
                    sub.stop()
        else:
            item.stop()
    return items


def drain(kind, queue):
    while queue:
        try:
            queue.pop()
        except IndexError:
            if kind:
                break
        finally:
            with open(kind) as fh:
                fh.read()
    return queue
'''
ELIF_TS = '''function route(kind: string, items: number[][]): number[][] {
  for (const item of items) {
    if (kind === "a") {
      item.pop();
    } else if (kind === "b") {
      for (const sub of item) {
        item.push(sub);
      }
    } else if (kind === "c") {
      for (const sub of item) {
        if (sub) {
          item.push(sub);
        }
      }
    } else {
      item.pop();
    }
  }
  return items;
}
'''
DECOR_PY = '''import functools


@functools.wraps(print)
@functools.lru_cache(maxsize=None)
def walk(kind, items):
    for item in items:
        if kind:
            for sub in item:
                if sub:
                    while sub.busy():
                        with sub.lock():
                            sub.step()
    return items


class Holder:
    @staticmethod
    def sink(kind, items):
        for item in items:
            if kind:
                for sub in item:
                    try:
                        sub.run()
                    except ValueError:
                        if sub:
                            with sub.lock():
                                sub.stop()
        return items
'''
MAIN_PY = '''import sys


def report(values):
    print("values", values)
    return len(values)


if __name__ == "__main__":
    print("starting")
    count = report(sys.argv)
    if count:
        print("done", count)
'''
CQS_TS = '''class Basket {
  private items: string[] = [];

  add(item: string): this {
    const size = measure(this.items);
    this.items.push(item + size);
    return this;
  }

  takeAndCount(repo: Store, item: string): number {
    const current = repo.find(item);
    repo.save(item);
    repo.flush();
    return current;
  }
}
'''
SRP_CFG = "srp:\n  max_loc: 12\n  max_methods: 50\n  check_keywords: false\n"
BASES = [(b, C04.CONFIG) for b in C04.BASES] + [
    (("srp", "srp", "py", {"main.py": srp_boundary("py")}), C04.CONFIG + SRP_CFG),
    (("srp", "srp", "ts", {"main.ts": srp_boundary("ts")}), C04.CONFIG + SRP_CFG),
    # if / elif / else chains and try / except / finally with branches exactly on and one above the nesting limit
    (("nesting", "nesting", "py", {"main.py": ELIF_PY}), C04.CONFIG),
    (("nesting", "nesting", "ts", {"main.ts": ELIF_TS}), C04.CONFIG),
    # the same functions below two decorators: a blank or comment line may stand between a decorator and its `def`
    # (the sweep inserts one at every boundary), the finding stays on the line it was on
    (("nesting", "nesting", "py", {"main.py": DECOR_PY}), C04.CONFIG),
    # a script whose last statement is the `__main__` block (prints inside it are exempt, the one outside is not)
    (("improper-logging", "print-statements", "py", {"main.py": MAIN_PY}), C04.CONFIG),
    # TypeScript command-query separation: a fluent method (ends in `return this;`, exempt) next to a mixed one
    (("cqs", "cqs", "ts", {"main.ts": CQS_TS}), C04.CONFIG),
    # the same script without an extension: its language is known from the `#!` line only (edits above that line would
    # change a documented fact and are left out; a byte-order mark in front of it is an edit like any other)
    (("improper-logging", "print-statements", "py", {"tool": "#!/usr/bin/env python3\n" + MAIN_PY}), C04.CONFIG),
]


def apply_edits(content: str, lang: str, edits: list[dict]) -> tuple[str, list[dict]]:
    lines = content.rstrip("\n").split("\n")
    out = []
    eol, bom = "\n", ""
    c = "#" if lang == "py" else "//"
    k = 0
    for e in edits:
        kind, p = e["kind"], e["pos"]
        n = len(lines)
        at = e["at_line"] if p == 4 else {0: 1, 1: n // 3 + 1, 2: (2 * n) // 3 + 1, 3: n + 1}[p]
        if kind in ("blank", "comment"):
            k += 1
            nxt = lines[at - 1] if at <= n else ""
            ind = nxt[:len(nxt) - len(nxt.lstrip())]
            lines.insert(at - 1, "" if kind == "blank" else f"{ind}{c} note {k} about nothing in particular")
            out.append({"kind": kind, "at": at})
        elif kind == "trailing":
            lines[at - 1] = lines[at - 1] + "   "
            out.append({"kind": kind, "at": at})
        elif kind == "reindent":
            lines = [(" " * (len(l) - len(l.lstrip(" ")))) + l if l.strip() else l for l in lines]
            out.append({"kind": kind, "at": 0})
        elif kind == "narrow":
            lines = [(" " * ((len(l) - len(l.lstrip(" "))) // 2)) + l.lstrip(" ") if l.strip() else l for l in lines]
            out.append({"kind": kind, "at": 0})
        elif kind == "crlf":
            eol = "\r\n"
            out.append({"kind": kind, "at": 0})
        elif kind == "bom":
            bom = "﻿"
            out.append({"kind": kind, "at": 0})
        elif kind == "append":
            lines += TAIL[lang].rstrip("\n").split("\n")
            out.append({"kind": kind, "at": 0})
        elif kind == "rename":
            lines = rename_locals("\n".join(lines), lang).split("\n")
            out.append({"kind": kind, "at": 0})
    return bom + eol.join(lines) + eol, out


def safe_boundaries(content: str, lang: str) -> list[int]:
    """Line numbers `at` (1..n+1) such that a blank or comment line inserted to become line `at` cannot change the
    meaning of the file: not inside a multi-line string / template / block comment, not after a backslash."""
    lines = content.rstrip("\n").split("\n")
    n = len(lines)
    bad: set[int] = set()
    if lang == "py":
        import io
        import tokenize
        try:
            for tok in tokenize.generate_tokens(io.StringIO(content).readline):
                if tok.type in (tokenize.STRING, getattr(tokenize, "FSTRING_MIDDLE", -1)) and tok.end[0] > tok.start[0]:
                    bad.update(range(tok.start[0] + 1, tok.end[0] + 1))
        except (tokenize.TokenError, IndentationError, SyntaxError):
            return []
        bad.update(i + 2 for i, l in enumerate(lines) if l.rstrip().endswith("\\"))
    else:
        inside = False      # inside /* */ or a template literal or a raw string
        for i, l in enumerate(lines, 1):
            if inside:
                bad.add(i)
            for m in re.finditer(r"/\*|\*/|`|r#*\"|\"#+", l):
                t = m.group(0)
                if t == "/*":
                    inside = True
                elif t == "*/":
                    inside = False
                elif t == "`" or t.startswith("r") or t.endswith("#"):
                    inside = not inside
    return [at for at in range(1, n + 2) if at not in bad]


NAME_RULES = ("stringly-typed", "dry")      # rules documented to look at identifiers / at the text of statements
KEEP_NAMES = re.compile(r"verbose|logger|debug|^self$|^cls$|^_$", re.I)


def rename_locals(text: str, lang: str) -> str:
    """Consistently rename function-local identifiers (parameters and variables bound inside functions)."""
    from .. import docex
    if lang == "py":
        try:
            tree = ast.parse(text)
        except SyntaxError:
            return text
        local: set[str] = set()
        top = {n.id for stmt in tree.body for n in ast.walk(stmt) if isinstance(n, ast.Name)
               and not isinstance(stmt, (ast.FunctionDef, ast.AsyncFunctionDef, ast.ClassDef))}
        for fn in [n for n in ast.walk(tree) if isinstance(n, (ast.FunctionDef, ast.AsyncFunctionDef))]:
            for a in fn.args.args + fn.args.kwonlyargs + fn.args.posonlyargs:
                local.add(a.arg)
            for n in ast.walk(fn):
                if isinstance(n, ast.Name) and isinstance(n.ctx, ast.Store):
                    local.add(n.id)
        kw = {k.arg for k in ast.walk(tree) if isinstance(k, ast.keyword) and k.arg}
        local = {n for n in local if n not in top and n not in kw and not KEEP_NAMES.search(n) and not n.isupper()}
        return docex.py_rename(text, local, "_rn")
    pat = (r"^\s+(?:const|let|var)\s+([A-Za-z_]\w*)" if lang in ("ts", "js") else r"^\s+let\s+(?:mut\s+)?([A-Za-z_]\w*)")
    names = {m for m in re.findall(pat, text, re.M) if not KEEP_NAMES.search(m) and not m.isupper()}
    suffix = "Rn" if lang in ("ts", "js") else "_rn"
    for n in sorted(names, key=len, reverse=True):
        text = re.sub(rf"(?<![\w.$]){re.escape(n)}(?![\w$])", n + suffix, text)
    return text


def lint(root: Path, names: list[str], linter=None) -> list[dict]:
    return [{k: v for k, v in d.items() if k != "cross"} for d in C04.lint_all(root, names, linter)]


def with_directive(content: str, lang: str, base: list[dict], bare: bool = False) -> str | None:
    """The base file with a same-line ignore directive on the line of its last movable finding."""
    movable = [v for v in base if v["file"] == 0 and not v["pinned"] and v["sub"]]
    if bare:
        # a bare directive silences every rule on its line: keep it off the lines where file-level findings (which do
        # not move with inserted lines) are reported
        fixed = {v["line"] for v in base if v["file"] == 0 and v["pinned"]}
        movable = [v for v in movable if v["line"] not in fixed]
    if not movable:
        return None
    v = max(movable, key=lambda x: x["line"])
    lines = content.rstrip("\n").split("\n")
    if not (1 <= v["line"] <= len(lines)) or "thailint" in lines[v["line"] - 1]:
        return None
    cm = "#" if lang == "py" else "//"
    lines[v["line"] - 1] += f"  {cm} thailint: ignore" + ("" if bare else f"[{v['linter']}.{v['sub']}]")
    return "\n".join(lines) + "\n"


def job(j: dict) -> dict:
    drive.preload()
    (linter, section, lang, files), cfg = j["base"]
    names = list(files)
    main = names[0]
    root0 = Path(j["root"]) / "base"
    root0.mkdir(parents=True)
    padded = {n: C04.pad(c, lang) for n, c in files.items()}
    drive.write_tree(root0, padded)
    (root0 / ".thailint.yaml").write_text(cfg)
    os.chdir(root0)
    base = lint(root0, names)
    runs = []
    expanded = []
    for case in j["cases"]:
        if case["edits"][0]["pos"] == 4:
            ats = safe_boundaries(padded[main], lang)
            if case["edits"][0]["kind"] == "trailing":
                # spaces appended to a line: safe where neither the line nor its successor lies inside a multi-line
                # token, and the line does not end in a continuation backslash
                src_lines = padded[main].rstrip("\n").split("\n")
                ok = set(ats)
                ats = [a for a in range(1, len(src_lines) + 1) if a in ok and (a + 1) in ok and not src_lines[a - 1].rstrip().endswith("\\")]
            if linter in ("file-header", "lazy-ignores"):
                ats = [a for a in ats if a > 12]
            if "." not in main:
                ats = [a for a in ats if a > 1]
            if j.get("sweep_step", 1) > 1:
                ats = ats[j["sweep_phase"] % j["sweep_step"]::j["sweep_step"]]
            expanded += [{"edits": [dict(case["edits"][0], at_line=a)]} for a in ats]
        else:
            expanded.append(case)
    for ci, case in enumerate(expanded):
        if linter in ("file-header", "lazy-ignores") and any(e["pos"] == 0 and e["kind"] in ("blank", "comment")
                                                             for e in case["edits"]):
            continue      # header-sensitive linters: only edits below the header
        if "." not in main and any(e["pos"] == 0 and e["kind"] in ("blank", "comment") for e in case["edits"]):
            continue      # a script known by its first line: nothing is inserted above that line
        new, concrete = apply_edits(padded[main], lang, case["edits"])
        root = Path(j["root"]) / f"c{ci}"
        root.mkdir()
        drive.write_tree(root, padded)
        with open(root / main, "w", encoding="utf-8", newline="") as f:
            f.write(new)
        (root / ".thailint.yaml").write_text(cfg)
        os.chdir(root)
        import src.linter_config.ignore as ig
        ig._CACHED_PARSER = None
        after = lint(root, names)
        if any(e["kind"] == "rename" for e in concrete):
            runs.append({"edits": concrete, "after": [v for v in after if v["linter"] not in NAME_RULES], "case": case,
                         "base": [v for v in base if v["linter"] not in NAME_RULES]})
        else:
            runs.append({"edits": concrete, "after": after, "case": case})
    # the same project edited in place and linted again by the same process (alternately by one held Linter),
    # once as is and once with an inline directive in the file: every step starts from the original text
    import random as _random
    rnd = _random.Random(j["root"])
    for variant in ("plain", "directive", "bare-directive"):
        content0 = padded[main] if variant == "plain" else with_directive(padded[main], lang, base, bare=variant != "directive")
        if content0 is None:
            continue
        rootv = Path(j["root"]) / f"inplace-{variant}"
        rootv.mkdir()
        drive.write_tree(rootv, padded)
        (rootv / main).write_text(content0)
        (rootv / ".thailint.yaml").write_text(cfg)
        os.chdir(rootv)
        import src.linter_config.ignore as ig3
        ig3._CACHED_PARSER = None
        from src.api import Linter as _Linter
        held = _Linter(project_root=str(rootv))
        base_v = lint(rootv, names, held)
        usable = [c for c in j["cases"] if c["edits"][0]["pos"] != 4 and not ((linter in ("file-header", "lazy-ignores") or "." not in main) and any(
            e["pos"] == 0 and e["kind"] in ("blank", "comment") for e in c["edits"]))]
        picked = rnd.sample(usable, min(j.get("inplace_len", 8), len(usable)))
        if variant != "plain":
            # always: spaces appended to the very line that carries the directive
            dline = next(i for i, l in enumerate(content0.split("\n"), 1) if "thailint: ignore" in l
                         and "thailint: ignore" not in (padded[main].split("\n") + [""] * i)[i - 1])
            picked = [{"edits": [{"kind": "trailing", "pos": 4, "at_line": dline}]}] + picked[:-1]
        for ci, case in enumerate(picked):
            new, concrete = apply_edits(content0, lang, case["edits"])
            with open(rootv / main, "w", encoding="utf-8", newline="") as f:
                f.write(new)
            after_v = lint(rootv, names, held if ci % 2 == 0 else None)
            drop = NAME_RULES if any(e["kind"] == "rename" for e in concrete) else ()
            runs.append({"edits": concrete, "after": [v for v in after_v if v["linter"] not in drop],
                         "case": dict(case, inplace=variant), "base": [v for v in base_v if v["linter"] not in drop]})
    return {"base": base, "runs": runs}


def run(chk) -> None:
    quick = chk.tier == "quick"
    drive.preload()
    chk.rule = ("edit sequences of length <= 2 (thorough: <= 3) over {blank, comment} x 4 positions (and, as single edits, x every line boundary of the file), trailing whitespace x 2 "
                "positions, reindent, CRLF, BOM, appended unrelated code, renaming of local identifiers (enumerated by TLC from Edits.tla) x 27 "
                "linter x language bases; all rules linted before/after; non-trivial = base has findings; "
                "distinct by (base, edit sequence)")
    chk.assumptions = ["comment lines are directive-free and indented like the following line; the probe files "
                       "contain no multi-line strings, so every insertion point is meaning-preserving",
                       "file-level findings (file-header, file-placement) do not shift",
                       "renaming = every function-local identifier gets a suffix; findings of stringly-typed and dry "
                       "(which look at names / statement text) are left out of the comparison for renaming edits"]
    r = tlc.run("Edits", "mc/Edits.cfg" if quick else "mc/Edits3.cfg", workers=4, timeout=1800)
    chk.add_tlc("Edits sequences + shift meta-properties", r)
    if r.violation:
        raise MachineryError("Edits.tla invariants violated:\n" + r.stdout[-1500:])
    cases = tlc.parse_cases(r.stdout)
    chk.exhaustive = not quick
    if quick:
        cases = [c for i, c in enumerate(cases) if len(c["edits"]) == 1 or i % 3 == 0]
    jobs = [{"base": b, "cases": cases, "root": str(scratch_root() / f"c13-{i}"), "sweep_step": 1,
             "sweep_phase": chk.seed + i} for i, b in enumerate(BASES)]
    log(f"C13: {len(jobs)} bases x {len(cases)} edit sequences")
    res = pool.run_jobs(job, jobs, nproc=NCPU, timeout=1800)
    records, meta = [], []
    for j, r_ in zip(jobs, res):
        if not r_.ok:
            raise MachineryError(f"C13 job failed ({j['base'][0][0]}/{j['base'][0][2]}): {r_.error}")
        for run_ in r_.value["runs"]:
            records.append({"base": run_.get("base", r_.value["base"]), "after": run_["after"], "edits": run_["edits"]})
            meta.append((j["base"][0], run_.get("base", r_.value["base"]), run_))
    verdicts = trace.validate(chk, "EditsTrace", "mc/EditsTrace.cfg", records, timeout=1800)
    for (b, base, run_), (la, lb, at) in zip(meta, verdicts):
        kinds = [e["kind"] for e in run_["edits"]]
        case = {"linter": b[0], "lang": b[2], "edits": run_["case"]["edits"]}
        chk.count(case, nontrivial=bool(base))
        if la == "ok":
            continue
        def shift(line):
            for e in run_["edits"]:
                if e["kind"] in ("blank", "comment") and e["at"] <= line:
                    line += 1
            return line
        exp = Counter((v["file"], v["linter"], v["sub"],
                       v["line"] if v["pinned"] or v["file"] != 0 else shift(v["line"])) for v in base
                      for _ in range(v["n"]))
        aft = Counter((v["file"], v["linter"], v["sub"], v["line"]) for v in run_["after"] for _ in range(v["n"]))
        if (exp == aft) != (la == "ok"):
            raise MachineryError(f"C13: Python mirror and TLC disagree on {case}: TLC={la}")
        culprits = sorted({k[1] for k in (exp - aft)} | {k[1] for k in (aft - exp)})
        inserts = any(e["kind"] in ("blank", "comment") for e in run_["edits"])
        for cul in culprits:
            chk.reject({"clause": la, "culprit": cul, "lang": b[2], "kinds": sorted(set(kinds)), "inserts": inserts},
                       {"case": case, "concrete": run_["edits"], "base": base, "after": run_["after"]},
                       f"{la}: {cul} ({b[2]}, base {b[0]}) after {run_['edits']}: expected-only "
                       f"{sorted(exp - aft)[:3]} observed-only {sorted(aft - exp)[:3]}")
