"""X05 (beyond the listed properties) — the CQS rule as documented (docs/cqs-linter.md, "How It Works").

spec/Cqs.tla enumerates functions (0..3 INPUT and 0..3 OUTPUT operations, name kind, decorator kind, returns
self or not, language) x configurations (min_operations 1..3, detect_fluent_interface) and states when the
function is reported; every case is rendered as one method of a class (documented INPUT / OUTPUT statement
forms in rotation), linted through Linter.lint(rules=["cqs"]), and CqsTrace.tla judges the finding at the
method's header line.
"""
from __future__ import annotations

from pathlib import Path

from .. import drive, pool, tlc, trace
from ..common import NCPU, MachineryError, canon, log, scratch_root

PY_IN = ["value_{i} = fetch_{i}(key)", "left_{i}, right_{i} = fetch_{i}(key)", "self.slot_{i} = fetch_{i}(key)",
         "cache[key] = fetch_{i}(key)", "result_{i}: int = fetch_{i}(key)"]
PY_OUT = ["emit_{i}(key)", "sink.emit_{i}(key)", "sink.first_{i}().second_{i}(key)"]
TS_IN = ["const value{i} = fetch{i}(key);", "const {{ left{i}, right{i} }} = fetch{i}(key);",
         "const [head{i}, tail{i}] = fetch{i}(key);", "this.slot{i} = fetch{i}(key);"]
TS_OUT = ["emit{i}(key);", "sink.emit{i}(key);", "sink.first{i}().second{i}(key);"]


def render(c: dict, k: int) -> tuple[str, int, str]:
    if c["lang"] == "python":
        name = {"plain": f"handle_{k}", "init": "__init__", "new": "__new__", "configured": "setup_probe"}[c["name"]]
        deco = {"none": [], "property": ["    @property"], "cachedProperty": ["    @cached_property"],
                "other": ["    @traced"], "configured": ["    @registered"]}[c["deco"]]
        lines = ["from functools import cached_property", "", f"class Probe{k}:"] + deco
        header = len(lines) + 1
        lines.append(f"    def {name}(self, key, sink, cache):")
        for i in range(c["nIn"]):
            lines.append("        " + PY_IN[(i + k) % len(PY_IN)].format(i=i))
        for i in range(c["nOut"]):
            lines.append("        " + PY_OUT[(i + k) % len(PY_OUT)].format(i=i))
        lines.append("        return self" if c["fluent"] else "        return None")
        return "\n".join(lines) + "\n", header, "py"
    name = {"plain": f"handle{k}", "configured": "setupProbe"}[c["name"]]
    lines = [f"class Probe{k} {{"]
    header = len(lines) + 1
    lines.append(f"  {name}(key: string, sink: any) {{")
    for i in range(c["nIn"]):
        lines.append("    " + TS_IN[(i + k) % len(TS_IN)].format(i=i))
    for i in range(c["nOut"]):
        lines.append("    " + TS_OUT[(i + k) % len(TS_OUT)].format(i=i))
    lines.append("    return this;" if c["fluent"] else "    return null;")
    lines += ["  }", "}"]
    return "\n".join(lines) + "\n", header, "ts"


def job(j: dict) -> dict:
    import yaml
    drive.preload()
    from src import Linter
    root = Path(j["root"])
    root.mkdir(parents=True)
    (root / ".git").mkdir()
    (root / "pkg").mkdir()
    out = []
    for k, c in enumerate(j["cases"]):
        src, header, ext = render(c, k)
        name = f"pkg/probe_{k}.{ext}"
        (root / name).write_text(src)
        sec = {"min_operations": c["minOps"], "detect_fluent_interface": c["detectFluent"],
               "ignore_methods": ["__init__", "__new__", "setup_probe", "setupProbe"],
               "ignore_decorators": ["property", "cached_property", "registered"]}
        cfg = root / ".thailint.yaml"
        cfg.write_text(yaml.safe_dump({"cqs": sec}))
        linter = Linter(config_file=str(cfg), project_root=str(root))
        vs = linter.lint(str(root / name), rules=["cqs"])
        n = sum(1 for v in vs if v.rule_id.startswith("cqs") and v.line == header)
        other = [[v.rule_id, v.line, v.message[:60]] for v in vs if not (v.rule_id.startswith("cqs") and v.line == header)]
        out.append({"n": n, "other": other, "source": src})
    return {"runs": out}


def run(chk) -> None:
    quick = chk.tier == "quick"
    drive.preload()
    chk.rule = ("functions = 0..3 INPUT x 0..3 OUTPUT operations (documented statement forms in rotation) x name kind "
                "(plain, __init__, __new__, configured in ignore_methods) x decorator kind (none, property, "
                "cached_property, other, configured in ignore_decorators) x returns self x language (Python, TypeScript) "
                "x min_operations 1..3 x detect_fluent_interface, emitted by TLC; each a method of its own class in its "
                "own file, linted through Linter.lint(rules=['cqs'])")
    chk.assumptions = ["await / walrus INPUT forms are not generated; TypeScript constructors and decorators carry no "
                       "documented verdict and are not generated"]
    res = tlc.run("Cqs", "mc/Cqs.cfg", workers=2, timeout=600)
    if res.violation or res.error:
        raise MachineryError("Cqs.tla: laws fail or TLC error\n" + res.stdout[-2000:])
    chk.add_tlc("Cqs", res)
    cases = tlc.parse_cases(res.stdout)
    cases.sort(key=canon)
    chk.rng.shuffle(cases)
    if quick:
        cases = cases[:1500]
    chk.exhaustive = not quick
    jobs = [{"cases": cases[i:i + 20], "root": str(scratch_root() / f"x05-{i}")} for i in range(0, len(cases), 20)]
    log(f"X05: {len(cases)} cases")
    results = pool.run_jobs(job, jobs, nproc=NCPU, timeout=600)
    records, meta = [], []
    for j, r in zip(jobs, results):
        if not r.ok or "error" in r.value:
            raise MachineryError(f"X05 job failed: {r.error if not r.ok else r.value['error']}")
        for c, run_ in zip(j["cases"], r.value["runs"]):
            records.append(dict(c, n=run_["n"], other=len(run_["other"])))
            meta.append((c, run_))
    if sum(1 for r in records if r["n"]) * 100 < len(records):
        raise MachineryError("X05: almost no case was reported (vacuous)")
    verdicts = trace.validate(chk, "CqsTrace", "mc/CqsTrace.cfg", records)
    for (c, run_), (la, _lb, _at) in zip(meta, verdicts):
        chk.count(c, nontrivial=c["nIn"] > 0 and c["nOut"] > 0)
        if la == "ok":
            continue
        chk.reject({"clause": la, "lang": c["lang"], "name": c["name"], "deco": c["deco"], "fluent": c["fluent"],
                    "detectFluent": c["detectFluent"], "enough": c["nIn"] >= c["minOps"] and c["nOut"] >= c["minOps"]},
                   {"case": c, "observed": run_}, f"{la}: {c}: n={run_['n']} other={run_['other'][:2]}")
