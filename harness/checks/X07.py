"""X07 (beyond the listed properties) — the method-property rule as documented.

spec/MethodProperty.tla enumerates methods (5 documented return patterns x at most two of 15 excluding features x
0..3 pure local statements x max_body_statements 2/3/5 = 5 604 cases) and states when the method is reported; each
is rendered as a method of its own class, linted with `thailint method-property`, and MethodPropertyTrace.tla
judges the finding at the def line.
"""
from __future__ import annotations

from pathlib import Path

from .. import drive, pool, tlc, trace
from ..common import NCPU, MachineryError, canon, log, scratch_root

RET = {
    "attrReturn": ("label", "return self._label"),
    "getPrefix": ("get_label", "return self._label"),
    "computed": ("area", "return self._width * self._height"),
    "boolExpr": ("is_valid", "return self._width > 0"),
    "fstring": ("full_name", 'return f"{self._first} {self._last}"'),
}


def render(c: dict, k: int) -> tuple[str, int, dict]:
    f = set(c["feats"])
    name, ret = RET[c["pattern"]]
    if "dunder" in f:
        name = "__str__"
    elif "actionPrefix" in f:
        name = "to_dict"
    elif "actionName" in f:
        name = "finalize"
    elif "configured" in f:
        name = "_get_css_styles"
    lines = ["from abc import abstractmethod", "", f"class Probe{k}:", "    def __init__(self):", "        self._label = 'x'",
             "        self._width = 2", "        self._height = 3", "        self._first = 'a'", "        self._last = 'b'", ""]
    deco = {"static": "@staticmethod", "classm": "@classmethod", "abstract": "@abstractmethod", "otherDeco": "@traced"}
    for d, text in deco.items():
        if d in f:
            lines.append("    " + text)
    header = len(lines) + 1
    params = "self" + (", index" if "param" in f else "")
    lines.append(f"    def {name}({params}):")
    body = [f"local_{i} = self._width + {i}" for i in range(c["locals"])]
    if "sideEffect" in f:
        body.append("self._cached = True")
    if "externalCall" in f:
        ret = "return fetch_value(self._label)"
    flow = next((x for x in ("flowIf", "flowFor", "flowWhile", "flowTry") if x in f), None)
    ind = "        "
    for b in body:
        lines.append(ind + b)
    if flow == "flowIf":
        lines += [ind + "if self._width:", ind + "    " + ret, ind + "return None"]
    elif flow == "flowFor":
        lines += [ind + "for item in self._label:", ind + "    " + ret, ind + "return None"]
    elif flow == "flowWhile":
        lines += [ind + "while self._width:", ind + "    " + ret, ind + "return None"]
    elif flow == "flowTry":
        lines += [ind + "try:", ind + "    " + ret, ind + "except KeyError:", ind + "    return None"]
    else:
        lines.append(ind + ret)
    return "\n".join(lines) + "\n", header, {"name": name}


def job(j: dict) -> dict:
    import yaml
    drive.preload()
    root = Path(j["root"])
    root.mkdir(parents=True)
    (root / ".git").mkdir()
    (root / "pkg").mkdir()
    out = []
    for k, c in enumerate(j["cases"]):
        src, header, _info = render(c, k)
        name = f"pkg/probe_{k}.py"
        (root / name).write_text(src)
        key = "method-property" if k % 2 == 0 else "method_property"
        (root / ".thailint.yaml").write_text(yaml.safe_dump({key: {"max_body_statements": c["maxBody"],
                                                                   "ignore_methods": ["_get_css_styles"]}}))
        r = drive.cli_json(["method-property", name], cwd=root)
        if r["violations"] is None:
            return {"error": f"no JSON (exit {r['exit']}): {r['stderr'][-300:]}"}
        n = sum(1 for v in r["violations"] if v["rule_id"] == "method-property.should-be-property" and v["line"] == header)
        other = [[v["rule_id"], v["line"]] for v in r["violations"]
                 if not (v["rule_id"] == "method-property.should-be-property" and v["line"] == header)]
        out.append({"n": n, "other": other, "source": src})
    return {"runs": out}


def run(chk) -> None:
    quick = chk.tier == "quick"
    drive.preload()
    chk.rule = ("methods = 5 documented return patterns x subsets (<= 2) of 15 excluding features (parameter, side effect, "
                "4 decorators, 4 control-flow statements, external call, dunder, action prefix / name, ignore_methods) x "
                "0..3 pure local statements x max_body_statements 2/3/5, emitted by TLC (5 604 cases; quick samples 1 500)")
    chk.assumptions = ["local statements are assignments of attribute arithmetic to fresh local names (no side effect)"]
    res = tlc.run("MethodProperty", "mc/MethodProperty.cfg", workers=2, timeout=900)
    if res.violation or res.error:
        raise MachineryError("MethodProperty.tla: laws fail or TLC error\n" + res.stdout[-2000:])
    chk.add_tlc("MethodProperty", res)
    cases = tlc.parse_cases(res.stdout)
    cases.sort(key=canon)
    chk.rng.shuffle(cases)
    if quick:
        cases = [c for c in cases if not c["feats"]] + [c for c in cases if c["feats"]][:1400]
    chk.exhaustive = not quick
    jobs = [{"cases": cases[i:i + 25], "root": str(scratch_root() / f"x07-{i}")} for i in range(0, len(cases), 25)]
    log(f"X07: {len(cases)} cases")
    results = pool.run_jobs(job, jobs, nproc=NCPU, timeout=600)
    records, meta = [], []
    for j, r in zip(jobs, results):
        if not r.ok or "error" in r.value:
            raise MachineryError(f"X07 job failed: {r.error if not r.ok else r.value['error']}")
        for c, run_ in zip(j["cases"], r.value["runs"]):
            records.append({"feats": c["feats"], "locals": c["locals"], "maxBody": c["maxBody"], "n": run_["n"],
                            "other": len(run_["other"])})
            meta.append((c, run_))
    verdicts = trace.validate(chk, "MethodPropertyTrace", "mc/MethodPropertyTrace.cfg", records)
    for (c, run_), (la, _lb, _at) in zip(meta, verdicts):
        chk.count(c, nontrivial=True)
        if la == "ok":
            continue
        chk.reject({"clause": la, "pattern": c["pattern"], "feats": sorted(c["feats"]), "body": c["locals"] + 1,
                    "maxBody": c["maxBody"]}, {"case": c, "observed": run_},
                   f"{la}: {c}: n={run_['n']} other={run_['other'][:2]}")
