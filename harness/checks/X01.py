"""X01 (beyond the listed properties) — whole-process event traces conform to spec/System.tla.

The repository's own test suite is executed with the H2 tap on (THAILINT_VERIF=1); every process that
touched the orchestrator (pytest itself, CLI subprocesses started by tests, pool workers) yields an event
sequence, which SystemTrace.tla consumes through System's actions: runs are not nested, rules run only on
files the orchestrator decided to lint, a sequential run announces at finalize_begin exactly what its rules
reported (conservation), finalize only adds, a pooled run finalizes after every future was collected with
exactly what the workers handed back, a worker hands back exactly what its rules reported, every run ends.
The harness adds pooled CLI runs of generated projects, which the repository's tests never perform.
"""
from __future__ import annotations

import os
from pathlib import Path

from .. import drive, projects, suite_trace, tlc
from ..common import NCPU, MachineryError, log, scratch_root

QUICK_PATHS = ["tests/unit/orchestrator", "tests/integration", "tests/unit/api", "tests/unit/integration",
               "tests/unit/test_cli_project_root.py", "tests/test_cli.py"]


def own_pool_runs() -> list[dict]:
    """A few real --parallel CLI runs (subprocesses, real ProcessPoolExecutor) with the tap on."""
    lines: list[dict] = []
    root = scratch_root() / "x01"
    import json
    n = 0
    for nfiles, cmd in ((20, "dry"), (26, "nesting"), (18, "stringly-typed"), (5, "magic-numbers")):
        n += 1
        d = root / f"p{n}"
        files = dict(projects.build(nfiles, [[0, 1], [2, 3, 4]]))
        files[".thailint.yaml"] = "dry:\n  enabled: true\n  min_duplicate_lines: 3\n"
        drive.write_tree(d, files)
        (d / ".git").mkdir()
        tf = d.parent / f"trace{n}.ndjson"
        r = drive.cli_subprocess([cmd, "--parallel", "--format", "json", "."], cwd=str(d),
                                 env={"THAILINT_VERIF_TRACE": str(tf)}, timeout=300)
        if r.get("hang") or r["exit"] not in (0, 1):
            raise MachineryError(f"X01: own --parallel run failed: exit {r.get('exit')} {r.get('stderr', '')[-300:]}")
        base = len(lines)
        for k, raw in enumerate(tf.read_text().splitlines() if tf.exists() else []):
            e = json.loads(raw)
            e["_pos"] = base + k
            e["pid"] = f"own{n}-{e['pid']}"
            e.setdefault("test", f"harness: thailint {cmd} --parallel ({nfiles} files)")
            lines.append(e)
    return lines


def run(chk) -> None:
    quick = chk.tier == "quick"
    chk.rule = ("event traces of every process of (a) the repository's test suite run with the tap on "
                + ("(orchestrator, integration, api and CLI tests)" if quick else "(all of tests/)")
                + " and (b) four real `--parallel` CLI runs of generated 5..26-file projects; one segment per run, "
                "consumed event by event through the actions of System.tla")
    chk.assumptions += ["the tap writes one line per event with O_APPEND, so file order is the order of the writes; "
                        "worker_done lines are attributed to the pooled run whose submitted paths contain the file",
                        "a process's single-file API traffic outside runs is cut every 4 000 events at a lint_file event"]
    res = tlc.run("System", "mc/System.cfg", workers=min(NCPU, 4), timeout=600)
    if res.violation or res.error:
        raise MachineryError("System.tla: protocol properties fail or TLC error\n" + res.stdout[-2000:])
    chk.add_tlc("System/System.cfg", res)
    lines, info = suite_trace.collect_pytest(QUICK_PATHS if quick else ["tests"])
    chk.extra["pytest"] = info
    own = own_pool_runs()
    segs = suite_trace.segments(lines) + suite_trace.segments(own)
    kinds: dict[str, int] = {}
    for s in segs:
        k = s["events"][0]["ev"] if s["events"][0]["ev"] in suite_trace.STARTERS else "idle-api"
        kinds[k] = kinds.get(k, 0) + 1
    chk.extra["segments"] = kinds
    log(f"X01: {info} -> {len(segs)} segments {kinds}")
    if kinds.get("run_begin", 0) < 20 or kinds.get("pool", 0) < 3 or kinds.get("worker", 0) < 20:
        raise MachineryError(f"X01: too few segments to mean anything: {kinds} (run_begin hook missing?)")
    # negative controls: corrupting one recorded field / dropping one event must be rejected
    import copy
    controls = []
    seq = next((s for s in segs if s["events"][0]["ev"] == "run_begin"
                and any(e["ev"] == "check" and e["n"] > 0 for e in s["events"])
                and s["events"][-1]["ev"] == "finalize_end"), None)
    pool_seg = next((s for s in segs if s["events"][0]["ev"] == "pool"), None)
    wrk = next((s for s in segs if s["events"][0]["ev"] == "worker" and s["events"][-1]["ev"] == "worker_done"), None)
    if seq is None or pool_seg is None or wrk is None:
        raise MachineryError("X01: no segment suitable for the negative controls")
    c1 = copy.deepcopy(seq)
    next(e for e in c1["events"] if e["ev"] == "finalize_begin")["n"] += 1
    controls.append((c1, "Conservation"))
    c2 = copy.deepcopy(pool_seg)
    c2["events"].remove(next(e for e in c2["events"] if e["ev"] == "done"))
    controls.append((c2, "FinalizeBeforeCollection|CheckWithoutLintedFile"))
    c3 = copy.deepcopy(wrk)
    c3["events"][-1]["n"] += 1
    controls.append((c3, "WorkerConservation"))
    c4 = copy.deepcopy(seq)
    c4["events"] = [e for e in c4["events"] if e["ev"] != "lint_file"]
    controls.append((c4, "CheckWithoutLintedFile"))
    c5 = copy.deepcopy(seq)
    c5["events"] = c5["events"][:-1]
    controls.append((c5, "UnfinishedRun"))
    verdicts = suite_trace.validate(chk, segs + [c for c, _ in controls])
    for (c, want), (la, _lb, _at) in zip(controls, verdicts[len(segs):]):
        if la not in want.split("|"):
            raise MachineryError(f"X01 negative control: expected {want}, SystemTrace said {la}")
    chk.extra["negative_controls"] = [w for _, w in controls]
    verdicts = verdicts[:len(segs)]
    for s, (la, _lb, at) in zip(segs, verdicts):
        first = s["events"][0]
        chk.count({"pid": str(s["pid"]), "first": first["ev"], "len": len(s["events"])}, nontrivial=len(s["events"]) > 2)
        if la == "ok":
            continue
        e = s["events"][at - 1] if at else s["events"][-1]
        test = e.get("test") or first.get("test") or ""
        key = {"clause": la, "event": e["ev"], "test": test.split(" (")[0]}
        ctx = s["events"][max(0, at - 4):at + 1] if at else s["events"][-4:]
        chk.reject(key, {"segment": s["events"][:200], "at": at}, f"{la} at event {at} of a {len(s['events'])}-event "
                   f"segment (test {test!r}): ... {[{k: v for k, v in x.items() if k != 'test'} for x in ctx]}")
