"""C02 — the magic-number linter flags exactly the non-allowed literals outside exemptions.

spec/MagicNumbers.tla fixes the item universe (syntactic slot x literal spelling, per language),
the exemption predicate and the expected count per item for every configuration (allowed_numbers
subsets x max_small_integer x file kind), and checks the delta law of allowed_numbers; the universe
is rendered once per language and linted under every configuration; MagicNumbersTrace.tla judges.
"""
from __future__ import annotations

import ast
import json
import os
import re
from pathlib import Path

from .. import drive, pool, tlc, trace
from ..common import NCPU, MachineryError, canon, log, scratch_root
from ..render import magic as R
from . import C01

MSG = re.compile(r"Magic number (\S+)")


def universe(lang: str, cases: list[dict]) -> list[tuple[str, int]]:
    """All items of the language = union over cases of expected>0 with no allowed/exemption (allowed = {}, plain)
    plus the always-exempt ones; reconstructed from the spec's slot/value tables via the base case."""
    raise NotImplementedError


def job(j: dict) -> dict:
    drive.preload()
    import yaml
    root = Path(j["root"])
    root.mkdir(parents=True)
    (root / ".git").mkdir()
    if j["fileKind"] == "lone":
        # one file per literal: a single function, the literal in a special spelling, no other digit in the text,
        # default configuration
        counts, bad = {}, []
        for vid in (11, 12, 13):
            fname = "lone_" + "abc"[vid - 11] + "." + R.EXT[j["lang"]]
            (root / fname).write_text(R.LONE[j["lang"]].format(s=R.SPELL[vid]))
            r = drive.cli_json(["magic-numbers", fname], cwd=root)
            if r["violations"] is None:
                return {"error": f"no JSON (exit {r['exit']}): {r['stderr'][-300:]}"}
            for v in r["violations"]:
                if v["line"] == 2:
                    counts[("returnExpr", vid)] = counts.get(("returnExpr", vid), 0) + 1
        return {"observed": [{"slot": s_, "v": v_, "n": n} for (s_, v_), n in sorted(counts.items())],
                "stray": [], "bad": bad, "exit": 0}
    src, where, nonlit = R.render(j["lang"], [tuple(i) for i in j["items"]])
    C01.selfcheck(j["lang"], src)
    name = {"plain": "probe", "test": "test_probe", "definition": "app_constants"}[j["fileKind"]]
    if j["lang"] == "typescript" and j["fileKind"] == "test":
        fname = "probe.test.ts"
    elif j["lang"] == "rust" and j["fileKind"] != "plain":
        return {"skip": True}
    elif j["lang"] == "typescript" and j["fileKind"] == "definition":
        return {"skip": True}
    else:
        fname = name + "." + R.EXT[j["lang"]]
    (root / fname).write_text(src)
    allowed = [R.NUM[v] for v in j["allowed"]]      # scaffolding contains no numeric literal at all
    key = "magic-numbers" if j["salt"] % 2 == 0 else "magic_numbers"
    (root / ".thailint.yaml").write_text(yaml.safe_dump({key: {"allowed_numbers": allowed,
                                                              "max_small_integer": j["maxSmall"]}}))
    r = drive.cli_json(["magic-numbers", fname], cwd=root)
    if r["violations"] is None:
        return {"error": f"no JSON (exit {r['exit']}): {r['stderr'][-300:]}"}
    counts: dict = {}
    stray, bad = [], []
    for v in r["violations"]:
        line = v["line"]
        if line in where:
            slot, vid = where[line]
            counts[(slot, vid)] = counts.get((slot, vid), 0) + 1
            m = MSG.search(v["message"])
            txt = m.group(1) if m else ""
            ok = txt == R.SPELL[vid]
            try:
                ok = ok or float(int(txt, 0)) == float(R.NUM[vid])
            except ValueError:
                try:
                    ok = ok or float(txt.replace("_", "")) == float(R.NUM[vid])
                except ValueError:
                    pass
            if not ok:
                bad.append([line, txt, R.SPELL[vid]])
        else:
            stray.append([line, v["message"][:60], src.split("\n")[line - 1][:60] if 0 < line <= src.count("\n") else ""])
    return {"observed": [{"slot": s, "v": v, "n": n} for (s, v), n in sorted(counts.items())],
            "stray": stray, "bad": bad, "exit": r["exit"]}


def observe(lang: str, src: str, where: dict, viols: list) -> dict:
    counts: dict = {}
    stray, bad = [], []
    for v in viols:
        line = v["line"]
        if line in where:
            slot, vid = where[line]
            counts[(slot, vid)] = counts.get((slot, vid), 0) + 1
            m = MSG.search(v["message"])
            txt = m.group(1) if m else ""
            ok = txt == R.SPELL[vid]
            try:
                ok = ok or float(int(txt, 0)) == float(R.NUM[vid])
            except ValueError:
                try:
                    ok = ok or float(txt.replace("_", "")) == float(R.NUM[vid])
                except ValueError:
                    pass
            if not ok:
                bad.append([line, txt, R.SPELL[vid]])
        else:
            stray.append([line, v["message"][:60], src.split("\n")[line - 1][:60] if 0 < line <= src.count("\n") else ""])
    return {"observed": [{"slot": s_, "v": v_, "n": n} for (s_, v_), n in sorted(counts.items())],
            "stray": stray, "bad": bad}


def job_mixed(j: dict) -> dict:
    """One directory, one plain file per language, a distinct allowed_numbers / max_small_integer per language
    through per-language overrides (the base values are decoys); one run."""
    drive.preload()
    import os
    import yaml
    root = Path(j["root"])
    root.mkdir(parents=True)
    (root / ".git").mkdir()
    sec: dict = {"allowed_numbers": [424242], "max_small_integer": 2}
    per = {}
    for n, c in enumerate(j["cases"]):
        src, where, _nonlit = R.render(c["lang"], [tuple(i) for i in j["items"][c["lang"]]])
        C01.selfcheck(c["lang"], src)
        fname = f"{'abc'[n]}_probe." + R.EXT[c["lang"]]
        (root / fname).write_text(src)
        per[fname] = (c, src, where)
        sec[c["lang"]] = {"allowed_numbers": [R.NUM[v] for v in c["allowed"]], "max_small_integer": c["maxSmall"]}
    (root / ".thailint.yaml").write_text(yaml.safe_dump({"magic-numbers": sec}))
    r = drive.cli_json(["magic-numbers", "."] if j["salt"] % 2 else ["magic-numbers", *sorted(per)], cwd=root)
    if r["violations"] is None:
        return {"error": f"no JSON (exit {r['exit']}): {r['stderr'][-300:]}"}
    out = []
    for fname, (c, src, where) in per.items():
        vs = [v for v in r["violations"] if os.path.basename(v["file_path"]) == fname]
        out.append(dict(observe(c["lang"], src, where, vs), case=c))
    return {"files": out}


def run(chk) -> None:
    quick = chk.tier == "quick"
    drive.preload()
    chk.rule = ("item universe = every (syntactic slot, literal spelling) pair valid for the language (int, float, "
                "hex, underscore-separated, exponent, Rust-suffixed literals in ~20 slots incl. two identical "
                "literals on one line and non-literal probes), rendered once per language; cases = every "
                "allowed_numbers subset of 5 values x max_small_integer in {3, 10, 20} x file kind (plain, test, "
                "constants-definition), enumerated exhaustively by TLC; non-trivial = at least one expected "
                "finding or an exemption in play; distinct by case")
    chk.assumptions = ["numeric equality between allowed_numbers entries and literals of different type (1_000_000 "
                       "vs 1e6) is not exercised", "constant slots carry three values so that the file stays below "
                       "the constants-definition-file heuristic (10+ UPPER_CASE constants)"]
    r = tlc.run("MagicNumbers", "mc/MagicNumbers.cfg", workers=1, timeout=900)
    chk.add_tlc("MagicNumbers configurations + delta law", r)
    if r.violation:
        raise MachineryError("MagicNumbers.tla invariants violated:\n" + r.stdout[-1500:])
    cases = tlc.parse_cases(r.stdout)
    chk.exhaustive = True
    # the item universe per language: ask TLC's tables through the base case with nothing allowed and
    # no exemption is not possible from Emit alone, so the slot tables are mirrored here and cross-checked
    slots = {
        "python": ["assign", "callArg", "returnExpr", "defaultParam", "arrayElem", "mapValue", "binop", "compare",
                   "index", "twoOnLine", "classAttr", "kwArg", "tupleElem", "rangeArg", "enumerateArg", "strRepeat",
                   "upperConst", "annUpperConst", "nestedFunc", "fstringInterp", "lambdaBody", "ternary", "comprehension",
                   "sliceBound", "unaryMinus", "upperCallArg", "upperFuncBody", "classUpperConst", "localUpperConst",
                   "strKeyMul"],
        "typescript": ["assign", "callArg", "returnExpr", "defaultParam", "arrayElem", "mapValue", "binop", "compare",
                       "index", "twoOnLine", "classAttr", "upperConst", "enumMember", "lowerConst", "templateInterp",
                       "arrowBody", "ternary", "upperCallArg", "upperFuncBody"],
        "rust": ["assign", "callArg", "returnExpr", "arrayElem", "mapValue", "binop", "compare", "index", "twoOnLine",
                 "constItem", "staticItem", "letBinding", "testFn"],
    }
    few = {"upperConst", "annUpperConst", "constItem", "staticItem", "enumMember", "enumDiscriminant"}
    one = {"upperCallArg", "upperFuncBody"}
    items = {l: [(s, v) for s in ss for v in range(1, 11) if (v != 8 or l == "rust") and (s not in few or v in (2, 3, 4))
                 and (s not in one or v == 2) and (s not in ("classUpperConst", "localUpperConst") or v in (2, 3, 4, 9))]
             for l, ss in slots.items()}
    for c in cases:   # cross-check the mirror against TLC: every expected item must be in the mirrored universe
        if c["fileKind"] == "lone":
            continue
        for e in c["expected"]:
            if (e["slot"], e["v"]) not in items[c["lang"]]:
                raise MachineryError(f"C02: item universe mirror out of sync with MagicNumbers.tla: {e}")
    jobs = [dict(c, items=items[c["lang"]], salt=i, root=str(scratch_root() / f"c02-{i}")) for i, c in enumerate(cases)]
    log(f"C02: {len(jobs)} configurations over {sum(len(v) for v in items.values())} items")
    res = pool.run_jobs(job, jobs, nproc=NCPU, timeout=600)
    records, meta = [], []
    for j, r_ in zip(jobs, res):
        if not r_.ok:
            raise MachineryError(f"C02 job failed ({j['lang']}): {r_.error}")
        v = r_.value
        if v.get("skip"):
            continue
        if "error" in v:
            raise MachineryError(f"C02 run failed: {v['error']}")
        records.append({"lang": j["lang"], "allowed": j["allowed"], "maxSmall": j["maxSmall"], "fileKind": j["fileKind"],
                        "observed": v["observed"], "stray": len(v["stray"]), "badvalue": len(v["bad"])})
        meta.append((j, v))
    # mixed-language directories: each language gets its own configuration through per-language overrides
    plain = {l: [c for c in cases if c["lang"] == l and c["fileKind"] == "plain"] for l in items}
    mjobs = []
    for k in range(30 if quick else 250):
        trio = [plain[l][(k * 7 + i * 3) % len(plain[l])] for i, l in enumerate(("python", "typescript", "rust"))]
        chk.rng.shuffle(trio)
        mjobs.append({"cases": trio, "items": items, "salt": k, "root": str(scratch_root() / f"c02-m{k}")})
    mres = pool.run_jobs(job_mixed, mjobs, nproc=NCPU, timeout=600)
    for j, r_ in zip(mjobs, mres):
        if not r_.ok or "error" in r_.value:
            raise MachineryError(f"C02 mixed-language job failed: {r_.error if not r_.ok else r_.value['error']}")
        for f in r_.value["files"]:
            c = f["case"]
            records.append({"lang": c["lang"], "allowed": c["allowed"], "maxSmall": c["maxSmall"], "fileKind": "plain",
                            "observed": f["observed"], "stray": len(f["stray"]), "badvalue": len(f["bad"])})
            meta.append((dict(c, mixed=True), f))
    verdicts = trace.validate(chk, "MagicNumbersTrace", "mc/MagicNumbersTrace.cfg", records, timeout=1800)
    for (j, v), (la, lb, at) in zip(meta, verdicts):
        case = {"lang": j["lang"], "allowed": j["allowed"], "maxSmall": j["maxSmall"], "fileKind": j["fileKind"]}
        chk.count(case, nontrivial=True)
        exp = {(e["slot"], e["v"]): e["n"] for e in j["expected"]}
        obs = {(o["slot"], o["v"]): o["n"] for o in v["observed"]}
        py_ok = exp == obs and not v["stray"] and not v["bad"]
        if py_ok != (la == "ok"):
            raise MachineryError(f"C02: Python mirror and TLC disagree on {case}: TLC={la}")
        if la == "ok":
            continue
        for s in v["stray"]:
            chk.reject({"lang": j["lang"], "clause": "NonLiteralReported", "what": s[2].strip()[:25]}, dict(case, stray=s),
                       f"{j['lang']}: finding on a line without numeric literal item: {s}")
        for b in v["bad"]:
            chk.reject({"lang": j["lang"], "clause": "WrongValue", "spelling": b[2]}, dict(case, bad=b),
                       f"{j['lang']}: message names {b[1]!r} for literal {b[2]}")
        for k in sorted(set(exp) | set(obs)):
            e, o = exp.get(k, 0), obs.get(k, 0)
            if e == o:
                continue
            clause = "Missed" if o < e else ("Spurious" if e == 0 else "Duplicate")
            why = "allowed" if k[1] in j["allowed"] else ("exempt-slot" if e == 0 else "plain")
            chk.reject({"lang": j["lang"], "clause": clause, "slot": k[0], "spelling": R.SPELL[k[1]],
                        "fileKind": j["fileKind"], "why": why if clause == "Spurious" else "n/a"},
                       dict(case, item=list(k), expected=e, observed=o),
                       f"{j['lang']} {clause}: slot {k[0]} literal {R.SPELL[k[1]]}: expected {e}, reported {o} "
                       f"(allowed ids {j['allowed']}, max_small {j['maxSmall']}, {j['fileKind']})")
