"""C16 — the SRP linter applies its method, size and keyword thresholds exactly.

spec/Srp.tla defines Methods/Loc/Issues over class shapes and checks the boundary laws over all
(shape, configuration) pairs; TLC emits every shape; shapes are rendered into Python/TypeScript
classes and Rust struct+impl blocks (several per file, nested and multiple), linted over a grid of
thresholds incl. per-language overrides and --max-methods/--max-loc; SrpTrace.tla judges each file.
"""
from __future__ import annotations

import json
import os
import re
from pathlib import Path

from .. import drive, pool, tlc, trace
from ..common import NCPU, MachineryError, canon, log, scratch_root
from ..render import srp as R
from . import C01

PER_FILE = 30
M_METHODS = re.compile(r"(\d+) methods \(max: (\d+)\)")
M_LINES = re.compile(r"(\d+) lines \(max: (\d+)\)")


def render_file(lang: str, shapes: list[dict], salt: int):
    lines: list[str] = []
    classes = []
    if lang == "rust" and salt % 2 == 1:
        # all structs first, all impl blocks afterwards (struct and impl not contiguous)
        parts = []
        for i, sh in enumerate(shapes):
            name = f"Widget{salt}x{i}" + ("Manager" if sh["keyword"] else "Thing")
            body, hdr, layout, s, nstruct = R.rust(sh, name, split=(i % 2 == 1))
            parts.append((body[:nstruct], body[nstruct:], layout, s, name))
        for st, _, layout, s, name in parts:
            classes.append(dict(s, **layout, line=len(lines) + 1, name=name))
            lines += st
        # the second impl block of a split struct comes after every other struct's blocks
        # (impl A / impl B / impl A: the blocks of one struct are not adjacent)
        later = []
        for _, im, _, _, name in parts:
            cut = next((i for i in range(1, len(im)) if im[i - 1] == "" and im[i] == f"impl {name} {{"), None)
            if cut is None:
                lines += im + [""]
            else:
                lines += im[:cut - 1] + [""]
                later.append(im[cut:])
        for im in later:
            lines += im + [""]
        return "\n".join(lines) + "\n", classes
    for i, sh in enumerate(shapes):
        name = f"Widget{salt}x{i}" + ("Manager" if sh["keyword"] else "Thing")
        if lang == "rust":
            body, hdr, layout, s, _ = R.rust(sh, name, split=(i % 2 == 1))
        else:
            body, hdr, layout, s = getattr(R, lang)(sh, name)
        # Python classes cycle through the places a class statement can stand: module level, inside a function,
        # in an except handler (optional-dependency fallback), in a match case, in an else branch, in a with body
        place = ("top", "top", "func", "except", "inner", "case", "else", "func", "with")[i % 9] if lang == "python" else "top"
        if place == "inner":
            # the class is defined inside ANOTHER class: the enclosing class has no method of its own, its lines of code
            # are its own two plus the inner class's
            inner = dict(s, **layout)
            loc_inner = (inner["headerLines"] + inner["footerLines"] + inner["fill"]
                         + sum(inner[k] * inner["l" + k] for k in ("pub", "stat", "clsm", "priv", "dunder", "prop", "setter", "ctor")))
            outer = {k: 0 for k in ("pub", "stat", "clsm", "priv", "dunder", "prop", "setter", "ctor", "blank", "comment")}
            outer.update({"fill": 1 + loc_inner, "keyword": False})
            classes.append(dict(outer, **dict(layout, headerLines=1, footerLines=0), line=len(lines) + 1, name=f"Shell{salt}x{i}Thing"))
            lines += [f"class Shell{salt}x{i}Thing:", f'    label_{i} = "shell"']
            body = ["    " + l if l else l for l in body]
            classes.append(dict(s, **layout, line=len(lines) + hdr + 1, name=name))
            lines += body + ["", ""]
            continue
        if place != "top":
            pre, ind, post = {
                "func": ([f"def make_{salt}_{i}():"], 4, [f"    return {name}"]),
                "except": (["try:", f"    from fastimpl_{salt}_{i} import {name}", "except ImportError:"], 4, []),
                "case": ([f"match MODE_{salt}_{i}:", '    case "plain":', "        pass", "    case _:"], 8, []),
                "else": ([f"if FAST_{salt}_{i}:", "    pass", "else:"], 4, []),
                "with": ([f"with scope_{salt}_{i}():"], 4, []),
            }[place]
            lines += pre
            body = [" " * ind + l if l else l for l in body] + post
        classes.append(dict(s, **layout, line=len(lines) + hdr + 1, name=name))
        lines += body + ["", ""]
    return "\n".join(lines) + "\n", classes


def parse_report(viols) -> list[dict]:
    out = []
    for v in viols:
        msg = v["message"]
        issues = []
        mm, ml = M_METHODS.search(msg), M_LINES.search(msg)
        order = sorted([(msg.find("methods (max"), "methods") if mm else (-1, ""),
                        (msg.find("lines (max"), "lines") if ml else (-1, ""),
                        (msg.find("responsibility keyword"), "keyword")])
        issues = [n for p, n in order if p >= 0 and n]
        out.append({"line": v["line"], "issues": issues, "methods": int(mm.group(1)) if mm else -1,
                    "maxMethods": int(mm.group(2)) if mm else -1, "loc": int(ml.group(1)) if ml else -1,
                    "maxLoc": int(ml.group(2)) if ml else -1})
    return out


# Srp.tla `keywords`: the built-in list, the user's list naming the other suffix of the generated names, one naming nothing, none
KEYWORD_LISTS = {"default": None, "own": ["Thing"], "other": ["Zebra", "Quux"], "empty": []}


def keyword_hit(c: dict, cfg: dict) -> bool:
    k = cfg.get("keywords", "default")
    return bool(cfg["checkKeywords"]) and (c["keyword"] if k == "default" else (not c["keyword"]) if k == "own" else False)


def job(j: dict) -> dict:
    import yaml
    drive.preload()
    root = Path(j["root"])
    root.mkdir(parents=True)
    (root / ".git").mkdir()
    src, classes = render_file(j["lang"], j["shapes"], j["salt"])
    C01.selfcheck(j["lang"], src)
    fname = "probe." + R.EXT[j["lang"]]
    (root / fname).write_text(src)
    runs = []
    for ci, cfg in enumerate(j["cfgs"]):
        kw = KEYWORD_LISTS[cfg["keywords"]]
        sec = {"max_methods": cfg["maxMethods"], "max_loc": cfg["maxLoc"], "check_keywords": cfg["checkKeywords"]}
        argv = ["srp"]
        mode = (0, 1, 2, 4, 5)[ci % 5]
        if mode in (4, 5):   # the language section overrides ONE threshold only; the other comes from the top level
            other = [l for l in ("python", "typescript", "rust") if l != j["lang"]][0]
            own, top = ("max_methods", "max_loc") if mode == 4 else ("max_loc", "max_methods")
            val = {"max_methods": cfg["maxMethods"], "max_loc": cfg["maxLoc"]}
            sec = {own: 5000 if own == "max_loc" else 50, top: val[top], "check_keywords": cfg["checkKeywords"],
                   j["lang"]: {own: val[own]}, other: {"max_methods": 1, "max_loc": 1}}
        elif mode == 1:      # the values arrive through a per-language override, the base values are decoys
            other = [l for l in ("python", "typescript", "rust") if l != j["lang"]][0]
            sec = {"max_methods": 50, "max_loc": 5000, "check_keywords": cfg["checkKeywords"],
                   j["lang"]: {"max_methods": cfg["maxMethods"], "max_loc": cfg["maxLoc"]},
                   other: {"max_methods": 1, "max_loc": 1}}
        elif mode == 2:    # the values arrive on the command line
            sec = {"max_methods": 50, "max_loc": 5000, "check_keywords": cfg["checkKeywords"]}
            argv += ["--max-methods", str(cfg["maxMethods"]), "--max-loc", str(cfg["maxLoc"])]
        if kw is not None:
            sec["keywords"] = kw
        (root / ".thailint.yaml").write_text(yaml.safe_dump({"srp": sec}))
        r = drive.cli_json(argv + [fname], cwd=root)
        if r["violations"] is None:
            return {"error": f"no JSON (exit {r['exit']}): {r['stderr'][-300:]}"}
        runs.append({"cfg": cfg, "mode": mode, "reported": parse_report(r["violations"])})
    return {"classes": classes, "runs": runs}


def job_mixed(j: dict) -> dict:
    """One directory with a file per language and distinct per-language thresholds; one run."""
    import yaml
    drive.preload()
    root = Path(j["root"])
    root.mkdir(parents=True)
    (root / ".git").mkdir()
    per = {}
    sec = {"max_methods": 50, "max_loc": 5000, "check_keywords": j["checkKeywords"]}
    for n, lang in enumerate(j["order"]):
        src, classes = render_file(lang, j["shapes"][lang], j["salt"] * 2)
        C01.selfcheck(lang, src)
        fname = f"{'abc'[n]}_probe." + R.EXT[lang]
        (root / fname).write_text(src)
        per[fname] = (lang, classes)
        sec[lang] = {"max_methods": j["limits"][lang]["maxMethods"], "max_loc": j["limits"][lang]["maxLoc"]}
    (root / ".thailint.yaml").write_text(yaml.safe_dump({"srp": sec}))
    r = drive.cli_json(["srp", "."], cwd=root)
    if r["violations"] is None:
        return {"error": f"no JSON (exit {r['exit']}): {r['stderr'][-300:]}"}
    out = []
    for fname, (lang, classes) in per.items():
        rep = parse_report([v for v in r["violations"] if os.path.basename(v["file_path"]) == fname])
        out.append({"lang": lang, "classes": classes, "reported": rep,
                    "cfg": dict(j["limits"][lang], checkKeywords=j["checkKeywords"], keywords="default")})
    return {"files": out}


def run(chk) -> None:
    quick = chk.tier == "quick"
    drive.preload()
    chk.rule = ("class shapes = all combinations of public (0..3), static, classmethod, private (0..2), dunder, "
                "property, setter, constructor members, filler/blank/comment body lines and keyword-in-name "
                "(12 288 shapes, emitted by TLC), projected to the member kinds each language documents, 30 per "
                "file incl. classes nested in functions and Rust structs with split impl blocks; thresholds "
                "max_methods 1..4 x max_loc {4, 8, 12, 40} x check_keywords, given directly, through a "
                "per-language override, or on the command line; non-trivial = every (class, configuration)")
    chk.assumptions = ["LOC = non-blank, non-comment lines from the class header to its last line (Rust: struct "
                       "plus all impl blocks)", "TS constructors/accessors and Rust associated functions without "
                       "self are not generated (status not documented)"]
    r = tlc.run("Srp", "mc/Srp.cfg", workers=min(8, NCPU), timeout=1800)
    chk.add_tlc("Srp laws over all (shape, configuration) pairs", r)
    if r.violation:
        raise MachineryError("Srp.tla invariants violated:\n" + r.stdout[-1500:])
    shapes = tlc.parse_cases(r.stdout)
    chk.exhaustive = not quick
    chk.rng.shuffle(shapes)
    if quick:
        shapes = shapes[:1500]
    cfgs = [{"maxMethods": m, "maxLoc": l, "checkKeywords": k, "keywords": "default"} for m in (1, 2, 3, 4) for l in (4, 8, 12, 40)
            for k in (True, False)]
    for n, c in enumerate(cfgs):       # the keyword list is the user's for half of the configurations
        c["keywords"] = ("default", "own", "default", "empty", "default", "other")[(n + n // 6) % 6]
    jobs = []
    for lang in ("python", "typescript", "rust"):
        for i in range(0, len(shapes), PER_FILE):
            sub = cfgs if not quick else [c for n, c in enumerate(cfgs) if (n + i // PER_FILE) % 3 == 0]
            jobs.append({"lang": lang, "shapes": shapes[i:i + PER_FILE], "salt": i // PER_FILE, "cfgs": sub,
                         "root": str(scratch_root() / f"c16-{len(jobs)}")})
    log(f"C16: {len(shapes)} shapes x 3 languages in {len(jobs)} files")
    res = pool.run_jobs(job, jobs, nproc=NCPU, timeout=900)
    records, meta = [], []
    # mixed-language directories: per-language overrides must apply to their own language only
    mjobs = []
    orders = [["python", "typescript", "rust"], ["rust", "python", "typescript"], ["typescript", "rust", "python"]]
    for i in range(12 if quick else 60):
        sub = shapes[(i * 24) % max(1, len(shapes) - 24):][:24]
        lim = [{"maxMethods": 1 + (i + k) % 4, "maxLoc": [4, 8, 12, 40][(i + 2 * k) % 4]} for k in range(3)]
        mjobs.append({"shapes": {"python": sub[:8], "typescript": sub[8:16], "rust": sub[16:24]}, "salt": 500 + i,
                      "order": orders[i % 3], "checkKeywords": i % 2 == 0,
                      "limits": {"python": lim[0], "typescript": lim[1], "rust": lim[2]},
                      "root": str(scratch_root() / f"c16m-{i}")})
    mres = pool.run_jobs(job_mixed, mjobs, nproc=NCPU, timeout=900)
    for mj, r_ in zip(mjobs, mres):
        if not r_.ok:
            raise MachineryError(f"C16 mixed job failed: {r_.error}")
        if "error" in r_.value:
            raise MachineryError(f"C16 mixed run failed: {r_.value['error']}")
        for f in r_.value["files"]:
            records.append({"classes": [{k: c[k] for k in c if k != "name"} for c in f["classes"]],
                            "cfg": f["cfg"], "reported": f["reported"]})
            meta.append(({"lang": f["lang"]}, f["classes"], {"cfg": f["cfg"], "mode": 3, "reported": f["reported"]}))
    for j, r_ in zip(jobs, res):
        if not r_.ok:
            raise MachineryError(f"C16 job failed ({j['lang']}): {r_.error}")
        v = r_.value
        if "error" in v:
            raise MachineryError(f"C16 run failed: {v['error']}")
        for run_ in v["runs"]:
            records.append({"classes": [{k: c[k] for k in c if k != "name"} for c in v["classes"]],
                            "cfg": run_["cfg"], "reported": run_["reported"]})
            meta.append((j, v["classes"], run_))
    verdicts = trace.validate(chk, "SrpTrace", "mc/SrpTrace.cfg", records, timeout=3000)
    for (j, classes, run_), (la, lb, at) in zip(meta, verdicts):
        cfg = run_["cfg"]
        ok_py = True
        rep_by_line: dict = {}
        for r2 in run_["reported"]:
            rep_by_line.setdefault(r2["line"], []).append(r2)
        for c in classes:
            chk.count({"lang": j["lang"], "shape": {k: c[k] for k in ("pub", "stat", "clsm", "priv", "dunder", "prop",
                                                                    "setter", "ctor", "fill", "blank", "comment", "keyword")},
                       "cfg": cfg}, nontrivial=True)
            methods = c["pub"] + c["stat"] + c["clsm"]
            loc = (c["headerLines"] + c["pub"] * c["lpub"] + c["stat"] * c["lstat"] + c["clsm"] * c["lclsm"]
                   + c["priv"] * c["lpriv"] + c["dunder"] * c["ldunder"] + c["prop"] * c["lprop"]
                   + c["setter"] * c["lsetter"] + c["ctor"] * c["lctor"] + c["fill"] + c["footerLines"])
            exp = (["methods"] if methods > cfg["maxMethods"] else []) + (["lines"] if loc > cfg["maxLoc"] else []) + \
                  (["keyword"] if keyword_hit(c, cfg) else [])
            got = rep_by_line.get(c["line"], [])
            clause = None
            detail = {}
            if not exp and got:
                clause = "Spurious"
                detail = {"issues": got[0]["issues"], "dm": got[0]["methods"] - methods if got[0]["methods"] >= 0 else None,
                          "dl": got[0]["loc"] - loc if got[0]["loc"] >= 0 else None}
            elif exp and not got:
                clause = "Missed"
                detail = {"expected": exp}
            elif len(got) > 1:
                clause = "TwoViolations"
            elif exp:
                g = got[0]
                if g["issues"] != exp:
                    clause = "IssueList"
                    detail = {"expected": exp, "observed": g["issues"]}
                elif "methods" in exp and (g["methods"] != methods or g["maxMethods"] != cfg["maxMethods"]):
                    clause = "MethodCount"
                    detail = {"delta": g["methods"] - methods, "max_ok": g["maxMethods"] == cfg["maxMethods"]}
                elif "lines" in exp and (g["loc"] != loc or g["maxLoc"] != cfg["maxLoc"]):
                    clause = "LocCount"
                    detail = {"delta": g["loc"] - loc, "max_ok": g["maxLoc"] == cfg["maxLoc"]}
            if clause:
                ok_py = False
                kinds = sorted(k for k in ("stat", "clsm", "priv", "dunder", "prop", "setter", "ctor") if c[k])
                chk.reject({"lang": j["lang"], "clause": clause, "mode": run_["mode"], "detail": detail,
                            "layout": "blank/comment" if (c["blank"] or c["comment"]) else "dense",
                            "setter": bool(c["setter"])},
                           {"lang": j["lang"], "class": c, "cfg": cfg, "mode": run_["mode"], "reported": got},
                           f"{j['lang']} {clause}: class {c['name']} members {kinds} pub={c['pub']} methods={methods} "
                           f"loc={loc} under {cfg} (mode {run_['mode']}): {detail}")
        stray = [r2 for r2 in run_["reported"] if r2["line"] not in {c["line"] for c in classes}]
        for s_ in stray:
            ok_py = False
            chk.reject({"lang": j["lang"], "clause": "HeaderLine"}, {"lang": j["lang"], "reported": s_},
                       f"{j['lang']}: srp finding at line {s_['line']} which is no class header")
        if ok_py != (la == "ok"):
            raise MachineryError(f"C16: Python mirror and TLC disagree on a {j['lang']} file under {cfg}: TLC={la}")
