"""X08 (beyond the listed properties) — the stateless-class rule as documented.

spec/StatelessClass.tla enumerates classes as feature sets (constructor, instance state by plain / augmented /
annotated assignment, class attributes, ABC / Protocol / other / object base, decorator; at most three at once)
x 0..3 ordinary methods x min_methods 2..3 (1 928 cases) and states when the class is reported; each is rendered,
linted with `thailint stateless-class`, and StatelessClassTrace.tla judges the finding at the class line.
"""
from __future__ import annotations

from pathlib import Path

from .. import drive, pool, tlc, trace
from ..common import NCPU, MachineryError, canon, log, scratch_root


def render(c: dict, k: int) -> tuple[str, int]:
    f = set(c["feats"])
    lines = ["from abc import ABC", "from typing import Protocol", ""]
    if "decorated" in f:
        lines.append("@registered")
    base = ("ABC" if "baseAbc" in f else "Protocol" if "baseProtocol" in f else "BaseThing" if "baseOther" in f
            else "object" if "baseObject" in f else "")
    header = len(lines) + 1
    lines.append(f"class Probe{k}({base}):" if base else f"class Probe{k}:")
    body: list[str] = []
    if "classAttr" in f:
        body += ["    DEFAULT_LIMIT = 10", ""]
    if "classAnn" in f:
        body += ["    retries: int = 3", ""]
    if "init" in f:
        body += ["    def __init__(self):", "        pass", ""]
    if "new" in f:
        body += ["    def __new__(cls):", "        return super().__new__(cls)", ""]
    for i in range(c["methods"]):
        body += [f"    def operation_{i}(self, value):", f"        return value + {i}", ""]
    if "instAssign" in f:
        body += ["    def remember(self, value):", "        self._last = value", "        return value", ""]
    if "instAug" in f:
        body += ["    def bump(self, value):", "        self._count += value", "        return value", ""]
    if "instAnn" in f:
        body += ["    def note(self, value):", "        self._note: int = value", "        return value", ""]
    if not body:
        body = ["    pass", ""]
    return "\n".join(lines + body), header


def job(j: dict) -> dict:
    import yaml
    drive.preload()
    root = Path(j["root"])
    root.mkdir(parents=True)
    (root / ".git").mkdir()
    (root / "pkg").mkdir()
    out = []
    for k, c in enumerate(j["cases"]):
        src, header = render(c, k)
        name = f"pkg/probe_{k}.py"
        (root / name).write_text(src)
        key = "stateless-class" if k % 2 == 0 else "stateless_class"
        (root / ".thailint.yaml").write_text(yaml.safe_dump({key: {"min_methods": c["minMethods"]}}))
        r = drive.cli_json(["stateless-class", name], cwd=root)
        if r["violations"] is None:
            return {"error": f"no JSON (exit {r['exit']}): {r['stderr'][-300:]}"}
        n = sum(1 for v in r["violations"] if v["rule_id"] == "stateless-class.violation" and v["line"] == header)
        other = [[v["rule_id"], v["line"]] for v in r["violations"]
                 if not (v["rule_id"] == "stateless-class.violation" and v["line"] == header)]
        out.append({"n": n, "other": other, "source": src})
    return {"runs": out}


def run(chk) -> None:
    drive.preload()
    chk.rule = ("classes = subsets (<= 3) of 12 features (__init__, __new__, self.x = / += / : int = inside a method, class "
                "attribute plain / annotated, base ABC / Protocol / other / object, class decorator) x 0..3 ordinary "
                "methods x min_methods 2..3, emitted by TLC (1 928 cases)")
    chk.assumptions = ["the stateless-class section is given in the project's .thailint.yaml (C05 records that this linter "
                       "does not read its section: min_methods 3 cases then disagree and are matched by that finding's key)"]
    res = tlc.run("StatelessClass", "mc/StatelessClass.cfg", workers=2, timeout=600)
    if res.violation or res.error:
        raise MachineryError("StatelessClass.tla: laws fail or TLC error\n" + res.stdout[-2000:])
    chk.add_tlc("StatelessClass", res)
    cases = tlc.parse_cases(res.stdout)
    cases.sort(key=canon)
    chk.exhaustive = True
    jobs = [{"cases": cases[i:i + 25], "root": str(scratch_root() / f"x08-{i}")} for i in range(0, len(cases), 25)]
    log(f"X08: {len(cases)} cases")
    results = pool.run_jobs(job, jobs, nproc=NCPU, timeout=600)
    records, meta = [], []
    for j, r in zip(jobs, results):
        if not r.ok or "error" in r.value:
            raise MachineryError(f"X08 job failed: {r.error if not r.ok else r.value['error']}")
        for c, run_ in zip(j["cases"], r.value["runs"]):
            records.append({"feats": c["feats"], "methods": c["methods"], "minMethods": c["minMethods"], "n": run_["n"],
                            "other": len(run_["other"])})
            meta.append((c, run_))
    verdicts = trace.validate(chk, "StatelessClassTrace", "mc/StatelessClassTrace.cfg", records)
    for (c, run_), (la, _lb, _at) in zip(meta, verdicts):
        chk.count(c, nontrivial=True)
        if la == "ok":
            continue
        chk.reject({"clause": la, "feats": sorted(c["feats"]), "minMethods": c["minMethods"],
                    "counted": c["methods"] + len(set(c["feats"]) & {"instAssign", "instAug", "instAnn"})},
                   {"case": c, "observed": run_}, f"{la}: {c}: n={run_['n']} other={run_['other'][:2]}")
