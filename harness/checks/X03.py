"""X03 (beyond the listed properties) — lazy-ignores matches directives against the header's Suppressions section.

spec/LazyIgnores.tla enumerates files (tool kind x declared ids x up to MaxDirectives directives naming id sets),
states which directives are unjustified and which declared ids are orphaned, and checks the laws of that
requirement; every file is rendered with the documented syntax of its tool, linted, and LazyIgnoresTrace.tla
judges the findings per directive line and per declared id.
"""
from __future__ import annotations

import re
from pathlib import Path

from .. import drive, pool, tlc, trace
from ..common import NCPU, MachineryError, canon, log, scratch_root

IDS = {
    "noqa": {1: "PLR0912", 2: "E501", 3: "F401", 4: "W605"},
    "typeIgnore": {1: "arg-type", 2: "attr-defined", 3: "union-attr", 4: "call-arg"},
    "pylint": {1: "no-member", 2: "invalid-name", 3: "too-many-branches", 4: "unused-import"},
    "nosec": {1: "B602", 2: "B603", 3: "B604", 4: "B605"},
    "pyright": {1: "reportPrivateImportUsage", 2: "reportGeneralTypeIssues", 3: "reportOptionalMemberAccess",
                4: "reportMissingImports"},
    "thailint": {1: "nesting", 2: "srp", 3: "dry", 4: "magic-numbers"},
}


def directive(kind: str, ids: list[str]) -> str:
    if kind == "noqa":
        return "# noqa: " + ", ".join(ids)
    if kind == "typeIgnore":
        return "# type: ignore[" + ", ".join(ids) + "]"
    if kind == "pylint":
        return "# pylint: disable=" + ",".join(ids)
    if kind == "nosec":
        return "# nosec " + ids[0]
    if kind == "pyright":
        return "# pyright: ignore[" + ", ".join(ids) + "]"
    return "# thailint: ignore[" + ids[0] + "]"


def render(case: dict, salt: int) -> tuple[str, dict]:
    ids = IDS[case["kind"]]
    lines = ['"""', f"Purpose: probe module {salt} for suppression bookkeeping", ""]
    if case["header"]:
        lines.append("Suppressions:")
        for r in case["header"]:
            lines.append(f"    - {ids[r]}: reviewed exception number {r} of probe {salt}")
    lines += ['"""', "", "import os", ""]
    where = {}
    for i, d in enumerate(case["dirs"], start=1):
        where[len(lines) + 1] = i
        lines.append(f"value_{i} = compute_{i}(os.sep)  {directive(case['kind'], [ids[r] for r in d])}")
        lines.append("")
    lines.append("final_value = 0")
    return "\n".join(lines) + "\n", where


def job(j: dict) -> dict:
    drive.preload()
    root = Path(j["root"])
    root.mkdir(parents=True)
    (root / ".git").mkdir()
    (root / ".thailint.yaml").write_text("{}\n")
    out = []
    for k, case in enumerate(j["cases"]):
        src, where = render(case, j["salt"] * 100 + k)
        name = f"pkg/probe_{k}.py"
        (root / "pkg").mkdir(exist_ok=True)
        (root / name).write_text(src)
        r = drive.cli_json(["lazy-ignores", name], cwd=root)
        if r["violations"] is None:
            return {"error": f"no JSON (exit {r['exit']}): {r['stderr'][-300:]}"}
        ids = IDS[case["kind"]]
        rev = {v.upper(): k2 for k2, v in ids.items()}
        unj: dict = {}
        orp: dict = {}
        stray = []
        for v in r["violations"]:
            if v["rule_id"] == "lazy-ignores.unjustified" and v["line"] in where:
                unj[where[v["line"]]] = unj.get(where[v["line"]], 0) + 1
            elif v["rule_id"] == "lazy-ignores.orphaned":
                m = re.search(r"header: ([^:]+):", v["message"])
                rid = rev.get(m.group(1).strip().upper()) if m else None
                if rid is None:
                    stray.append([v["line"], v["message"][:80]])
                else:
                    orp[rid] = orp.get(rid, 0) + 1
            else:
                stray.append([v["rule_id"], v["line"], v["message"][:80]])
        out.append({"unjust": [{"i": i, "n": n} for i, n in sorted(unj.items())],
                    "orphan": [{"r": r_, "n": n} for r_, n in sorted(orp.items())], "stray": stray})
    return {"runs": out}


def run(chk) -> None:
    quick = chk.tier == "quick"
    drive.preload()
    chk.rule = ("files = tool kind (noqa, type: ignore, pylint: disable, nosec, pyright: ignore, thailint: ignore) x "
                "declared ids (subsets of 3) x 0..2 directives (thorough: 0..3) naming non-empty id sets (several ids "
                "where the tool's documented syntax lists them), emitted by TLC; each rendered as a Python file with a "
                "header docstring and linted alone")
    chk.assumptions = ["rule ids are spelled identically in header and directive (the docs contradict themselves on case "
                       "sensitivity); no inline justification text (undocumented); bare directives without ids are not generated"]
    res = tlc.run("LazyIgnores", "mc/LazyIgnores.cfg" if quick else "mc/LazyIgnores3.cfg", workers=min(NCPU, 4), timeout=1800)
    if res.violation or res.error:
        raise MachineryError("LazyIgnores.tla: laws fail or TLC error\n" + res.stdout[-2000:])
    chk.add_tlc("LazyIgnores", res)
    cases = tlc.parse_cases(res.stdout)
    cases.sort(key=canon)
    chk.rng.shuffle(cases)
    if not quick:
        cases = cases[:20000]
    chk.exhaustive = quick or len(cases) <= 20000
    jobs = [{"cases": cases[i:i + 25], "salt": i // 25, "root": str(scratch_root() / f"x03-{i // 25}")}
            for i in range(0, len(cases), 25)]
    log(f"X03: {len(cases)} files")
    results = pool.run_jobs(job, jobs, nproc=NCPU, timeout=900)
    records, meta = [], []
    for j, r in zip(jobs, results):
        if not r.ok or "error" in r.value:
            raise MachineryError(f"X03 job failed: {r.error if not r.ok else r.value['error']}")
        for case, run_ in zip(j["cases"], r.value["runs"]):
            records.append({"header": case["header"], "dirs": case["dirs"], "unjust": run_["unjust"],
                            "orphan": run_["orphan"], "stray": len(run_["stray"])})
            meta.append((case, run_))
    verdicts = trace.validate(chk, "LazyIgnoresTrace", "mc/LazyIgnoresTrace.cfg", records, timeout=3000)
    for (case, run_), (la, _lb, _at) in zip(meta, verdicts):
        chk.count(case, nontrivial=bool(case["dirs"]) or bool(case["header"]))
        if la == "ok":
            continue
        key = {"clause": la, "kind": case["kind"], "multi": any(len(d) > 1 for d in case["dirs"])}
        chk.reject(key, {"case": case, "observed": run_, "source": render(case, 0)[0]},
                   f"{la}: {case['kind']} header {case['header']} directives {case['dirs']}: {run_}")
