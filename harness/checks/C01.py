"""C01 — the nesting linter flags exactly the functions whose nesting exceeds the limit.

spec/Nesting.tla builds every control-structure tree (token sequences) with its documented depth
and checks WrapAddsOne / FlipOnce / BranchesFlat; every tree is rendered into each language that
can express it, 15 functions per file in rotating function forms, and linted with every limit
1..maxDepth+1; NestingTrace.tla recomputes DepthOf and judges each file.
"""
from __future__ import annotations

import ast
import json
import os
import re
from pathlib import Path

from .. import drive, pool, tlc, trace
from ..common import NCPU, MachineryError, canon, log, mkscratch, scratch_root
from ..render import nesting as R

PER_FILE = 15
MSG = re.compile(r"Function '([^']+)' has excessive nesting depth \((\d+)\)")


def depth_of(toks) -> int:
    h, m = 0, 1
    for k, _ in toks:
        if k == "open":
            h += 1
            m = max(m, h + 1)
        elif k == "close":
            h -= 1
    return m


def render_file(lang: str, funcs: list[dict], salt: int) -> tuple[str, list[dict]]:
    lines: list[str] = []
    meta = []
    forms = R.FORMS[lang]
    for i, f in enumerate(funcs):
        name = f"fn_{salt}_{i}"
        try:
            body, hdr = R.RENDER[lang](name, f["toks"], forms[(i + salt) % len(forms)])
        except R.Unsupported:
            continue
        compact = lang != "python" and hdr == 0 and (i + salt) % 4 == 3
        if compact:
            # the whole function on ONE line (a brace language does not need a line per nesting level)
            body = [" ".join(l.strip() for l in body)]
        meta.append({"toks": f["toks"], "line": len(lines) + hdr + 1, "name": name, "form": forms[(i + salt) % len(forms)],
                     "compact": compact})
        lines += body + ["", ""]
    return "\n".join(lines) + "\n", meta


def selfcheck(lang: str, src: str) -> None:
    if lang == "python":
        ast.parse(src)
        return
    from src.analyzers.typescript_base import TypeScriptBaseAnalyzer
    from src.analyzers.rust_base import RustBaseAnalyzer
    root = TypeScriptBaseAnalyzer().parse_typescript(src) if lang == "typescript" else RustBaseAnalyzer().parse_rust(src)
    if root is None:
        raise RuntimeError("tree-sitter unavailable")

    def walk(n):
        if n.type == "ERROR" or n.is_missing:
            raise RuntimeError(f"renderer produced invalid {lang}: {n.type} at {n.start_point}")
        for c in n.children:
            walk(c)
    walk(root)


def job(j: dict) -> dict:
    drive.preload()
    root = Path(j["root"])
    root.mkdir(parents=True)
    (root / ".git").mkdir()
    src, meta = render_file(j["lang"], j["funcs"], j["salt"])
    selfcheck(j["lang"], src)
    fname = "probe." + R.EXT[j["lang"]]
    (root / fname).write_text(src)
    if not meta:
        return {"meta": [], "runs": []}
    maxd = max(depth_of(f["toks"]) for f in meta)
    runs = []
    for L in range(1, maxd + 2):
        if L % 2:
            (root / ".thailint.yaml").write_text(f"nesting:\n  max_nesting_depth: {L}\n")
            argv = ["nesting", fname]
        else:
            (root / ".thailint.yaml").write_text("nesting:\n  max_nesting_depth: 50\n")
            argv = ["nesting", "--max-depth", str(L), fname]
        r = drive.cli_json(argv, cwd=root)
        if r["violations"] is None:
            return {"error": f"no JSON (exit {r['exit']}): {r['stderr'][-300:]}", "meta": meta}
        rep = []
        for v in r["violations"]:
            m = MSG.search(v["message"])
            rep.append([v["line"], int(m.group(2)) if m else -1, m.group(1) if m else "?"])
        runs.append({"L": L, "reported": rep})
    return {"meta": meta, "runs": runs}


def job_mixed(j: dict) -> dict:
    """One directory with one file per language and a distinct limit per language; one run over the directory."""
    drive.preload()
    root = Path(j["root"])
    root.mkdir(parents=True)
    (root / ".git").mkdir()
    per = {}
    sec = ["nesting:", "  max_nesting_depth: 50"]
    for n, lang in enumerate(j["order"]):
        src, meta = render_file(lang, j["funcs"][lang], j["salt"] + n)
        selfcheck(lang, src)
        fname = f"{'abc'[n]}_probe." + R.EXT[lang]
        (root / fname).write_text(src)
        per[fname] = (lang, meta)
        sec += [f"  {lang}:", f"    max_nesting_depth: {j['limits'][lang]}"]
    (root / ".thailint.yaml").write_text("\n".join(sec) + "\n")
    r = drive.cli_json(["nesting", "."] if j["salt"] % 2 else ["nesting", *sorted(per)], cwd=root)
    if r["violations"] is None:
        return {"error": f"no JSON (exit {r['exit']}): {r['stderr'][-300:]}"}
    out = []
    for fname, (lang, meta) in per.items():
        rep = []
        for v in r["violations"]:
            if os.path.basename(v["file_path"]) != fname:
                continue
            m = MSG.search(v["message"])
            rep.append([v["line"], int(m.group(2)) if m else -1, m.group(1) if m else "?"])
        out.append({"lang": lang, "meta": meta, "runs": [{"L": j["limits"][lang], "reported": rep}]})
    return {"files": out}


def run(chk) -> None:
    quick = chk.tier == "quick"
    drive.preload()
    chk.rule = ("all control-structure trees with <= 3 structures over 8 kinds and their branch forms (elif/else, "
                "except/finally, case), enumerated exhaustively by TLC from Nesting.tla; each rendered into every "
                "language whose documented construct list covers it, 15 functions per file in rotating function "
                "forms (def/async/method/decorated; function/arrow/method/function expression; fn/impl/pub fn), "
                "linted with every limit 1..max+1 (config and --max-depth alternating); non-trivial = depth >= 2; "
                "distinct by (language, token sequence)")
    chk.assumptions = ["every body starts with one plain statement, so the deepest statement of a structure is in "
                       "its body; nested function definitions, lambdas and comprehensions are not generated",
                       "Python `match` / TS `switch` / Rust `match` count once together with their arms"]
    r = tlc.run("Nesting", "mc/Nesting.cfg", workers=1, timeout=1200)
    chk.add_tlc("Nesting trees (<=3 structures)", r)
    if r.violation:
        raise MachineryError("Nesting.tla invariants violated:\n" + r.stdout[-1500:])
    cases = tlc.parse_cases(r.stdout)
    chk.exhaustive = not quick
    by_lang: dict[str, list] = {"python": [], "typescript": [], "rust": []}
    for c in cases:
        for l in c["langs"]:
            by_lang[l].append({"toks": c["toks"], "depth": c["depth"]})
    jobs = []
    for lang, fs in by_lang.items():
        chk.rng.shuffle(fs)
        if quick:
            fs = fs[:4500]
        for i in range(0, len(fs), PER_FILE):
            jobs.append({"lang": lang, "funcs": fs[i:i + PER_FILE], "salt": i // PER_FILE,
                         "root": str(scratch_root() / f"c01-{len(jobs)}")})
    log(f"C01: {sum(len(j['funcs']) for j in jobs)} functions in {len(jobs)} files")
    res = pool.run_jobs(job, jobs, nproc=NCPU, timeout=600)
    # mixed-language directories: a distinct limit per language through per-language overrides, one run
    mjobs = []
    for k in range(40 if quick else 400):
        order = ["python", "typescript", "rust"]
        chk.rng.shuffle(order)
        limits = dict(zip(["python", "typescript", "rust"], chk.rng.sample([1, 2, 3, 4], 3)))
        mjobs.append({"order": order, "limits": limits, "salt": 1000 + k, "root": str(scratch_root() / f"c01-m{k}"),
                      "funcs": {l: [by_lang[l][(k * 12 + i) % len(by_lang[l])] for i in range(12)] for l in order}})
    mres = pool.run_jobs(job_mixed, mjobs, nproc=NCPU, timeout=600)
    records, meta = [], []
    for j, r_ in zip(mjobs, mres):
        if not r_.ok or "error" in r_.value:
            raise MachineryError(f"C01 mixed-language job failed: {r_.error if not r_.ok else r_.value['error']}")
        for f in r_.value["files"]:
            records.append({"funcs": [{"toks": m["toks"], "line": m["line"]} for m in f["meta"]],
                            "runs": [{"L": r2["L"], "reported": [[a, b] for a, b, _ in r2["reported"]]} for r2 in f["runs"]]})
            meta.append(({"lang": f["lang"], "mixed": True, "limits": j["limits"]}, f))
    for j, r_ in zip(jobs, res):
        if not r_.ok:
            raise MachineryError(f"C01 job failed ({j['lang']}): {r_.error}")
        v = r_.value
        if "error" in v:
            raise MachineryError(f"C01 run failed ({j['lang']}): {v['error']}")
        records.append({"funcs": [{"toks": m["toks"], "line": m["line"]} for m in v["meta"]],
                        "runs": [{"L": r2["L"], "reported": [[a, b] for a, b, _ in r2["reported"]]} for r2 in v["runs"]]})
        meta.append((j, v))
    verdicts = trace.validate(chk, "NestingTrace", "mc/NestingTrace.cfg", records, timeout=3000)
    for (j, v), (la, lb, at) in zip(meta, verdicts):
        for m in v["meta"]:
            chk.count({"lang": j["lang"], "toks": m["toks"]}, nontrivial=depth_of(m["toks"]) >= 2)
        py_ok = True
        for r2 in v["runs"]:
            exp = {(m["line"], depth_of(m["toks"])) for m in v["meta"] if depth_of(m["toks"]) > r2["L"]}
            obs = {(a, b) for a, b, _ in r2["reported"]}
            if exp == obs:
                continue
            py_ok = False
            byline = {m["line"]: m for m in v["meta"]}
            for (line, d) in sorted(obs ^ exp):
                m = byline.get(line)
                if m is None:
                    chk.reject({"lang": j["lang"], "clause": "HeaderLine"}, {"file": j, "L": r2["L"], "line": line},
                               f"{j['lang']}: reported line {line} is no function header")
                    continue
                D = depth_of(m["toks"])
                od = next((b for a, b, _ in r2["reported"] if a == line), None)
                kinds = sorted({t[1] for t in m["toks"] if t[0] == "open"})
                if od is not None and od != D:
                    key = {"lang": j["lang"], "clause": "DepthEq", "delta": od - D,
                           "special": sorted(set(kinds) & {"match", "closure", "loop", "try", "with"})}
                else:
                    key = {"lang": j["lang"], "clause": "FlagEq", "delta": "missed" if od is None else "spurious",
                           "margin": D - r2["L"], "form": m["form"] if m["form"] == "fnexpr" else "any"}
                chk.reject(key, {"lang": j["lang"], "toks": m["toks"], "form": m["form"], "L": r2["L"],
                                 "expected_depth": D, "observed_depth": od},
                           f"{j['lang']} {m['form']} {m['toks']}: documented depth {D}, limit {r2['L']}, reported {od}")
        if py_ok != (la == "ok"):
            raise MachineryError(f"C01: Python mirror and TLC disagree on a {j['lang']} file: TLC={la}")
