"""X14 (beyond the listed properties) — improper-logging.conditional-verbose (Python).

spec/ConditionalVerbose.tla enumerates (guard form, guarded statement, place: if-body / else-branch / one loop deeper);
every case is one function in a Python file linted with `thailint improper-logging`; ConditionalVerboseTrace.tla judges
how many conditional-verbose findings there are and at which lines.
"""
from __future__ import annotations

from pathlib import Path

from .. import drive, pool, tlc, trace
from ..common import NCPU, MachineryError, log, scratch_root

COND = {"verbose": "verbose", "selfVerbose": "self.verbose", "configVerbose": "config.verbose",
        "ctxGet": 'ctx.obj.get("verbose")', "ctxSubscript": 'ctx.obj["verbose"]', "upperVerbose": "VERBOSE",
        "debugName": "debug", "verboseAnd": "verbose and items", "notVerbose": "not verbose", "verbosityGt": "verbosity > 1",
        "quiet": "quiet", "itemsTruth": "items", "verboseString": 'mode == "verbose"'}
STMT = {"loggerDebug": ['logger.debug("processing started")'], "loggerInfo": ['logger.info("user created")'],
        "loggingWarning": ['logging.warning("falling back")'], "selfLoggerError": ['self.logger.error("failed")'],
        "logException": ['log.exception("boom")'],
        "twoLoggers": ['logger.debug("first step")', 'logger.info("second step")'],
        "print": ['print("processing started")'], "plainCall": ["notify(items)"], "assignment": ["count = len(items)"]}


def render(c: dict, k: int) -> tuple[list[str], list[int]]:
    """(lines of one function, 1-based offsets of the logger calls within it)."""
    head = [f"def handle_{k}(self, ctx, config, items, verbose, quiet, debug, mode, verbosity, VERBOSE, logger, log):"]
    body = STMT[c["stmt"]]
    islog = c["stmt"] not in ("print", "plainCall", "assignment")
    lines = list(head) + [f"    if {COND[c['cond']]}:"]
    at = []
    if c["place"] == "body":
        for b in body:
            lines.append("        " + b)
            at.append(len(lines))
    elif c["place"] == "bodyLoop":
        lines.append("        for item in items:")
        for b in body:
            lines.append("            " + b)
            at.append(len(lines))
    else:
        lines.append(f"        marker_{k} = len(items)")
        lines.append("    else:")
        for b in body:
            lines.append("        " + b)
            at.append(len(lines))
    lines += ["    return items", "", ""]
    return lines, (at if islog else [])


def job(j: dict) -> dict:
    drive.preload()
    root = Path(j["root"])
    (root / "pkg").mkdir(parents=True)
    (root / ".git").mkdir()
    text, spans = ["import logging", "", ""], []
    for k, c in enumerate(j["cases"]):
        lines, at = render(c, k)
        base = len(text)
        spans.append((base + 1, base + len(lines), [base + a for a in at]))
        text += lines
    (root / "pkg" / "mod.py").write_text("\n".join(text) + "\n")
    r = drive.cli_json(["improper-logging", "pkg/mod.py"], cwd=root)
    if r["violations"] is None:
        return {"error": f"no JSON (exit {r['exit']}): {r['stderr'][-300:]}"}
    out = []
    for lo, hi, at in spans:
        obs = sorted(v["line"] for v in r["violations"] if v["rule_id"] == "improper-logging.conditional-verbose" and lo <= v["line"] <= hi)
        out.append({"lines": at, "obs": obs})
    return {"runs": out}


def run(chk) -> None:
    drive.preload()
    chk.rule = ("13 guard forms (4 documented, 6 undocumented look-alikes without verdict, 3 that are no verbose flags) x 9 guarded "
                "statements (6 logger-call forms incl. two calls, print, plain call, assignment) x place (if-body, else-branch, "
                "one loop deeper): 351 cases, all run")
    chk.assumptions = ["guard forms the documentation does not list (subscript, upper case, `debug`, `verbose and x`, `not verbose`, "
                       "`verbosity > 1`) carry no verdict"]
    res = tlc.run("ConditionalVerbose", "mc/ConditionalVerbose.cfg", workers=1, timeout=300)
    if res.violation or res.error:
        raise MachineryError("ConditionalVerbose.tla: laws fail or TLC error\n" + res.stdout[-2000:])
    chk.add_tlc("ConditionalVerbose", res)
    cases = tlc.parse_cases(res.stdout)
    chk.exhaustive = True
    jobs = [{"cases": cases[i:i + 13], "root": str(scratch_root() / f"x14-{i}")} for i in range(0, len(cases), 13)]
    log(f"X14: {len(cases)} cases")
    results = pool.run_jobs(job, jobs, nproc=NCPU, timeout=600)
    records, meta = [], []
    for j, r in zip(jobs, results):
        if not r.ok or "error" in r.value:
            raise MachineryError(f"X14 job failed: {r.error if not r.ok else r.value['error']}")
        for c, run_ in zip(j["cases"], r.value["runs"]):
            records.append({"cond": c["cond"], "stmt": c["stmt"], "place": c["place"], "lines": run_["lines"], "obs": run_["obs"]})
            meta.append((c, run_))
    if sum(1 for r in records if r["obs"]) < 20:
        raise MachineryError("X14: almost nothing was reported (vacuous)")
    verdicts = trace.validate(chk, "ConditionalVerboseTrace", "mc/ConditionalVerboseTrace.cfg", records)
    for (c, run_), (la, _lb, _at) in zip(meta, verdicts):
        chk.count({k: c[k] for k in ("cond", "stmt", "place")}, nontrivial=not c["unspecified"])
        if la == "ok":
            continue
        chk.reject({"clause": la, "cond": c["cond"], "stmt": c["stmt"], "place": c["place"]}, {"case": c, "observed": run_},
                   f"{la}: if {COND[c['cond']]}: {c['stmt']} in {c['place']}: expected {c['expected']} at {run_['lines']}, "
                   f"reported at {run_['obs']}")
