"""C04 — suppression directives silence exactly what they name, in every linter.

spec/Ignore.tla enumerates directive cases (form x spelling x placement) and defines
Names/InScope/Expected; every case is instantiated for every linter x language on a base project
whose directive-free findings are measured first; IgnoreTrace.tla computes Expected(base, d) and
judges the findings of the edited project.
"""
from __future__ import annotations

import json
import os
from collections import Counter
from pathlib import Path

from .. import drive, kit, pool, projects, tlc, trace
from ..common import NCPU, MachineryError, canon, log, scratch_root

CONFIG = projects.BASE_CONFIG + """file-placement:
  global_deny:
    - pattern: ".*main.*"
      reason: "probe"
"""

# linter (first component of its rule ids), config section, language, files (first = main file)
BASES = [
    ("nesting", "nesting", "py", {"main.py": kit.FILES["nest.py"]}),
    ("nesting", "nesting", "ts", {"main.ts": kit.FILES["nest.ts"]}),
    ("magic-numbers", "magic-numbers", "py", {"main.py": kit.FILES["magic.py"]}),
    ("magic-numbers", "magic-numbers", "ts", {"main.ts": kit.FILES["nest.ts"]}),
    ("magic-numbers", "magic-numbers", "rs", {"main.rs": kit.FILES["risky.rs"]}),
    ("srp", "srp", "py", {"main.py": kit.FILES["srp.py"]}),
    ("dry", "dry", "py", {"main.py": kit.FILES["dup_a.py"], "other.py": kit.FILES["dup_b.py"]}),
    ("stringly-typed", "stringly-typed", "py", {"main.py": kit.FILES["stringly_a.py"],
                                                "other.py": kit.FILES["stringly_b.py"]}),
    ("improper-logging", "print-statements", "py", {"main.py": kit.FILES["prints.py"]}),
    ("improper-logging", "print-statements", "ts", {"main.ts": kit.FILES["nest.ts"]}),
    ("method-property", "method-property", "py", {"main.py": kit.FILES["methodprop.py"]}),
    ("stateless-class", "stateless-class", "py", {"main.py": kit.FILES["stateless.py"]}),
    ("lbyl", "lbyl", "py", {"main.py": kit.FILES["lbyl.py"]}),
    ("collection-pipeline", "collection-pipeline", "py", {"main.py": kit.FILES["pipeline.py"]}),
    ("file-header", "file-header", "py", {"main.py": kit.FILES["magic.py"]}),
    ("performance", "performance", "py", {"main.py": kit.FILES["perf.py"]}),
    ("cqs", "cqs", "py", {"main.py": kit.FILES["cqs.py"]}),
    ("unwrap-abuse", "unwrap-abuse", "rs", {"main.rs": kit.FILES["risky.rs"]}),
    ("clone-abuse", "clone-abuse", "rs", {"main.rs": kit.FILES["risky.rs"]}),
    ("blocking-async", "blocking-async", "rs", {"main.rs": kit.FILES["risky.rs"]}),
    ("file-placement", "file-placement", "py", {"main.py": kit.FILES["magic.py"]}),
]
MINLINES = 16


def pad(content: str, lang: str) -> str:
    lines = content.rstrip("\n").split("\n")
    c = "#" if lang == "py" else "//"
    k = 0
    while len(lines) < MINLINES:
        k += 1
        lines.append(f"{c} filler {k}")
    return "\n".join(lines) + "\n"


def lint_all(root: Path, names: list[str], linter=None) -> list[dict]:
    from src.api import Linter
    vs = (linter or Linter(project_root=str(root))).lint(str(root))
    out = Counter()
    for v in vs:
        rel = drive.rel(str(v.file_path), root)
        if rel not in names or v.rule_id.startswith("lazy-ignores"):
            continue
        linter, _, sub = v.rule_id.partition(".")
        # file-level findings (reported at line 1 for the whole file) do not move with inserted lines
        out[(names.index(rel), linter, sub, v.line)] += 1
    return [{"file": f, "linter": l, "sub": s, "line": ln, "n": n, "cross": l in ("dry", "stringly-typed"),
             "pinned": l in ("file-header", "file-placement")}
            for (f, l, s, ln), n in sorted(out.items())]


def rule_text(spelling: str, linter: str, sub: str) -> tuple[str, str, str]:
    """(text to write, olinter, osub)."""
    full = linter + ("." + sub if sub else "")
    if spelling == "fullId":
        return full, "", ""
    if spelling == "linterPrefix":
        return linter, "", ""
    if spelling == "prefixStar":
        return linter + ".*", "", ""
    if spelling == "upperCase":
        return full.upper(), "", ""
    if spelling == "mixedCase":
        return "".join(ch.upper() if i % 2 else ch for i, ch in enumerate(full)), "", ""
    if spelling == "alias":
        return "print-statements.detected", "", ""
    if spelling == "aliasUpper":
        return "PRINT-STATEMENTS.Detected", "", ""
    if spelling == "aliasPrefix":
        return "Print-Statements", "", ""
    if spelling in ("otherRule", "listFirst", "listLast"):
        o = ("srp", "violation") if linter != "srp" else ("nesting", "excessive-depth")
        other = o[0] + "." + o[1]
        if spelling == "listFirst":
            return full + "," + other, o[0], o[1]
        if spelling == "listLast":
            return other + "," + full, o[0], o[1]
        return other, o[0], o[1]
    return "", "", ""


def build_case(base_viol: list[dict], linter: str, lang: str, main_lines: list[str], case: dict):
    """Returns (new main lines, directive record) or None if the case does not apply."""
    targets = [v for v in base_viol if v["file"] == 0 and v["linter"] == linter]
    if not targets:
        return None
    t = targets[0]
    sp = case["spelling"]
    if sp.startswith("alias") and not (linter == "improper-logging" and t["sub"] == "print-statement"):
        return None
    form, pl = case["form"], case["placement"]
    if linter in ("file-header", "file-placement") and form in ("sameLine", "nextLine", "block"):
        return None      # file-level findings have no line a line-scoped directive could refer to
    if linter == "dry" and (form == "block" or (form in ("nextLine", "sameLine") and pl == "after")):
        return None      # would put a line inside the multi-line duplicate block (C13's subject)
    if sp == "prefixStar" and not t["sub"]:
        return None      # `cqs.*` for the rule id `cqs`: meaning not documented
    name, ol, os_ = rule_text(sp, linter, t["sub"])
    c = "#" if lang == "py" else "//"
    lines = list(main_lines)
    n = len(lines)

    def indent_of(i):  # 1-based base line
        s = lines[i - 1] if 0 < i <= len(lines) else ""
        return s[:len(s) - len(s.lstrip())]

    before: list[int] = []
    at, end_at = 0, 0
    L = t["line"]
    if form == "sameLine":
        tl = L if pl == "on" else L + 1
        if tl > n:
            return None
        txt = f"{c} thailint: ignore[{name}]" if sp != "bare" else f"{c} thailint: ignore"
        if case.get("lead", "none") == "afterComment":
            txt = {"py": "# pragma: no cover  ", "ts": "// eslint-disable-line  "}.get(lang, "// SAFETY: checked  ") + txt
        lines[tl - 1] = lines[tl - 1] + "  " + txt
        at = tl
    elif form == "nextLine":
        k = {"before": L, "twoBefore": L - 1, "after": L + 1}[pl]
        if k < 1 or k > n:
            return None
        txt = f"{c} thailint: ignore-next-line[{name}]" if sp != "bare" else f"{c} thailint: ignore-next-line"
        lines.insert(k - 1, indent_of(k) + txt)
        before = [k]
        at = k
    elif form == "block":
        if pl == "around":
            s_, e_ = L, L + 1
        else:   # around a later line that has no finding of the named rule(s): the last line
            s_, e_ = n, n + 1
            if any(v["file"] == 0 and v["line"] >= n for v in base_viol):
                return None
        start = f"{c} thailint: ignore-start {name}" if sp != "bare" else f"{c} thailint: ignore-start"
        ind = indent_of(s_)
        lines.insert(s_ - 1, ind + start)
        lines.insert(e_, ind + f"{c} thailint: ignore-end")
        before = [s_, e_]
        at, end_at = s_, e_ + 1
    elif form == "fileHeader":
        k = 1 if pl == "header" else 12
        txt = f"{c} thailint: ignore-file[{name}]" if sp != "bare" else f"{c} thailint: ignore-file"
        lines.insert(k - 1, indent_of(k) + txt)
        before = [k]
        at = k
    else:   # repoPattern / linterPattern / repoDirPattern: nothing inserted
        if sp != "fullId":
            return None
    d = {"form": form, "spelling": sp, "file": 0, "tlinter": linter, "tsub": t["sub"], "olinter": ol, "osub": os_,
         "at": at, "endAt": end_at, "before": before}
    return lines, d, L


def build_stacked(lines1: list[str], d1: dict, target_line: int, linter: str, sub: str, lang: str, stack: str):
    """A second directive, naming another rule, on top of the file that already carries d1.

    Coordinates are those of lines1 (the file with d1).  Returns (lines2, d2)."""
    name, ol, os_ = rule_text("otherRule", linter, sub)
    c = "#" if lang == "py" else "//"
    lines = list(lines1)
    # the target violation's line in lines1, and the first line of the (own-line directive + target) group
    tl = target_line + sum(1 for b in d1["before"] if b <= target_line)
    top = d1["at"] if d1["form"] == "nextLine" and d1["at"] == tl - 1 else tl

    def indent_of(i):
        x = lines[i - 1] if 0 < i <= len(lines) else ""
        return x[:len(x) - len(x.lstrip())]

    if stack == "blockOther":
        ind = indent_of(top)
        lines.insert(top - 1, ind + f"{c} thailint: ignore-start {name}")
        lines.insert(tl + 1, ind + f"{c} thailint: ignore-end")
        before, at, end_at, form = [top, tl + 1], top, tl + 2, "block"
    elif stack == "lineOtherAbove":
        lines.insert(top - 1, indent_of(top) + f"{c} thailint: ignore-next-line[{name}]")
        before, at, end_at, form = [top], top, 0, "nextLine"
    else:   # fileOther
        lines.insert(0, f"{c} thailint: ignore-file[{name}]")
        before, at, end_at, form = [1], 1, 0, "fileHeader"
    d2 = {"form": form, "spelling": "otherRule", "file": 0, "tlinter": linter, "tsub": sub, "olinter": ol, "osub": os_,
          "at": at, "endAt": end_at, "before": before}
    return lines, d2


def names(d: dict, v: dict) -> bool:
    """Python mirror of Ignore.tla Names (diagnosis only; TLC's verdict is authoritative)."""
    if d["form"] in ("repoPattern", "repoDirPattern"):
        return True
    if d["form"] == "linterPattern":
        return v["linter"] == d["tlinter"]
    sp = d["spelling"]
    if sp in ("fullId", "upperCase", "mixedCase", "alias", "aliasUpper", "aliasPrefix"):
        return v["linter"] == d["tlinter"] and v["sub"] == d["tsub"]
    if sp in ("linterPrefix", "prefixStar"):
        return v["linter"] == d["tlinter"]
    if sp == "bare":
        return True
    if sp in ("listFirst", "listLast") and v["linter"] == d["tlinter"] and v["sub"] == d["tsub"]:
        return True
    return v["linter"] == d["olinter"] and v["sub"] == d["osub"]


def expected(base: list[dict], d: dict) -> list[dict]:
    out = []
    if d["form"] == "repoDirPattern":
        return out
    for v in base:
        nl = v["line"] + sum(1 for b in d["before"] if b <= v["line"]) \
            if v["file"] == d["file"] and not v["pinned"] else v["line"]
        if d["form"] in ("repoPattern", "linterPattern"):
            scope = True
        elif d["form"] == "sameLine":
            scope = nl == d["at"]
        elif d["form"] == "nextLine":
            scope = nl == d["at"] + 1
        elif d["form"] == "block":
            scope = d["at"] < nl < d["endAt"]
        else:
            scope = d["at"] <= 10
        if v["file"] == d["file"] and names(d, v) and scope:
            continue
        if d["form"] in ("repoPattern", "linterPattern") and v["cross"] and v["file"] != d["file"] and names(d, v):
            continue
        out.append(dict(v, line=nl))
    return out


def in_scope(d: dict, nl: int) -> bool:
    if d["form"] in ("repoPattern", "linterPattern", "repoDirPattern"):
        return True
    if d["form"] == "sameLine":
        return nl == d["at"]
    if d["form"] == "nextLine":
        return nl == d["at"] + 1
    if d["form"] == "block":
        return d["at"] < nl < d["endAt"]
    return d["at"] <= 10


def expected2(base: list[dict], d1: dict, d2: dict) -> list[dict]:
    """Mirror of Ignore.tla Expected2 (diagnosis only)."""
    def moved(x):
        return x + sum(1 for b in d2["before"] if b <= x)
    d1s = dict(d1, at=moved(d1["at"]), endAt=moved(d1["endAt"]) if d1["endAt"] else 0)
    out = []
    for v in base:
        l1 = v["line"] + sum(1 for b in d1["before"] if b <= v["line"]) \
            if v["file"] == d1["file"] and not v["pinned"] else v["line"]
        l2 = l1 if v["pinned"] or v["file"] != d2["file"] else moved(l1)
        if v["file"] == d1["file"] and names(d1, v) and in_scope(d1s, l2):
            continue
        if v["file"] == d2["file"] and names(d2, v) and in_scope(d2, l2):
            continue
        out.append(dict(v, line=l2))
    return out


def job(j: dict) -> dict:
    drive.preload()
    linter, section, lang, files = j["base"]
    names = list(files)
    main = names[0]
    root0 = Path(j["root"]) / "base"
    root0.mkdir(parents=True, exist_ok=True)
    padded = {n: pad(c, lang) for n, c in files.items()}
    drive.write_tree(root0, padded)
    (root0 / ".thailint.yaml").write_text(CONFIG)
    os.chdir(root0)
    base = lint_all(root0, names)
    main_lines = padded[main].rstrip("\n").split("\n")
    out = []
    single: dict = {}
    ordered = sorted(enumerate(j["cases"]), key=lambda x: x[1].get("stack", "none") != "none")
    for ci, case in ordered:
        stack = case.get("stack", "none")
        if stack != "none":
            # second directive naming another rule on top of the single-directive file measured before
            got = single.get((case["form"], case["spelling"], case["placement"]))
            if got is None or section == "lazy-ignores":
                continue
            lines1, d1, tline, after1 = got
            tsub = d1["tsub"]
            lines, d = build_stacked(lines1, d1, tline, linter, tsub, lang, stack)
            root = Path(j["root"]) / f"c{ci}"
            root.mkdir()
            drive.write_tree(root, padded)
            (root / main).write_text("\n".join(lines) + "\n")
            (root / ".thailint.yaml").write_text(CONFIG)
            os.chdir(root)
            import src.linter_config.ignore as ig
            ig._CACHED_PARSER = None
            after = lint_all(root, names)
            out.append({"case": case, "d": d, "after": after, "d1": d1})
            continue
        built = build_case(base, linter, lang, main_lines, case)
        if built is None:
            continue
        lines, d, tline = built
        root = Path(j["root"]) / f"c{ci}"
        root.mkdir()
        drive.write_tree(root, padded)
        (root / main).write_text("\n".join(lines) + "\n")
        cfg = CONFIG
        if case["form"] == "repoDirPattern":
            if linter == "file-placement":
                continue          # its probe rule is written for the file's place at the top of the project
            import shutil
            (root / "app" / "generated").mkdir(parents=True, exist_ok=True)
            for n in names:
                shutil.move(str(root / n), str(root / "app" / "generated" / n))
            (root / ".thailintignore").write_text("generated/\n")
            (root / ".thailint.yaml").write_text(cfg)
            os.chdir(root)
            import src.linter_config.ignore as ig
            ig._CACHED_PARSER = None
            after = [v for v in lint_all(root, ["app/generated/" + n for n in names])]
            out.append({"case": case, "d": d, "after": after})
            continue
        if case["form"] == "repoPattern":
            (root / ".thailintignore").write_text(main + "\n")
        elif case["form"] == "linterPattern":
            if section in ("dry", "file-placement"):
                continue
            cfg = CONFIG + f"{section}:\n  ignore:\n    - \"{main}\"\n"
        (root / ".thailint.yaml").write_text(cfg)
        os.chdir(root)
        import src.linter_config.ignore as ig
        ig._CACHED_PARSER = None      # a fresh process per project (singleton keyed by root anyway)
        after = lint_all(root, names)
        out.append({"case": case, "d": d, "after": after})
        if case.get("lead", "none") == "none":
            single[(case["form"], case["spelling"], case["placement"])] = (lines, d, tline, after)
    # the same project edited in place and linted again by the same process (one ignore parser, one set of
    # rule objects for the whole sequence): a directive's effect must follow the file's current text
    rootr = Path(j["root"]) / "reuse"
    rootr.mkdir()
    drive.write_tree(rootr, padded)
    (rootr / ".thailint.yaml").write_text(CONFIG)
    os.chdir(rootr)
    import src.linter_config.ignore as ig2
    ig2._CACHED_PARSER = None
    from src.api import Linter as _Linter
    held = _Linter(project_root=str(rootr))
    inplace = [c for c in j["cases"] if c["form"] in ("sameLine", "nextLine", "block", "fileHeader")
               and c.get("stack", "none") == "none" and c.get("lead", "none") == "none"]

    def pick(form, placement, spelling):
        return [c for c in inplace if (c["form"], c["placement"], c["spelling"]) == (form, placement, spelling)]

    # alternate file-level and line-level directives so that anything remembered per file goes stale
    seq = (pick("sameLine", "on", "fullId") + pick("fileHeader", "header", "fullId") + pick("nextLine", "before", "fullId")
           + pick("fileHeader", "header", "bare") + pick("block", "around", "linterPrefix") + pick("fileHeader", "body", "fullId")
           + pick("sameLine", "on", "otherRule") + pick("fileHeader", "header", "linterPrefix"))
    import random as _random
    rnd = _random.Random(j["root"])
    seq += rnd.sample(inplace, min(4, len(inplace)))
    if rnd.random() < 0.5:
        seq = seq[1:] + seq[:1]
    for ci, case in enumerate(seq):
        built = build_case(base, linter, lang, main_lines, case)
        if built is None:
            continue
        lines, d, _tline = built
        (rootr / main).write_text("\n".join(lines) + "\n")
        after = lint_all(rootr, names, held if ci % 2 == 0 else None)
        out.append({"case": dict(case, reuse=ci + 1), "d": d, "after": after})
    return {"base": base, "runs": out}


def run(chk) -> None:
    quick = chk.tier == "quick"
    drive.preload()
    chk.rule = ("directive cases (form x rule-name spelling x placement x stacked second directive naming another rule; "
                "6 forms, 12 spellings, 3 stackings) enumerated by TLC "
                "from Ignore.tla, instantiated for every linter x language (21 bases) on projects whose "
                "directive-free findings (all rules, via Linter.lint) are the base; Expected(base, d) computed by "
                "TLC; non-trivial = the directive names a reported rule; distinct by (linter, language, case)")
    chk.assumptions = ["the comment style is that of the file's language (# for Python, // for TS/JS/Rust)",
                       "lazy-ignores findings are excluded (exempted by the property)",
                       "own-line directives are indented like the line they precede"]
    r = tlc.run("Ignore", "mc/Ignore.cfg", workers=1, timeout=300)
    chk.add_tlc("Ignore directive cases + block scanner (fixed)", r)
    if r.violation:
        raise MachineryError("Ignore.tla invariants violated:\n" + r.stdout[-1500:])
    pin = tlc.run("Ignore", "mc/Ignore_pinned.cfg", workers=1, timeout=300)
    chk.add_tlc("Ignore block scanner as coded at the pinned commit (non-vacuity)", pin)
    if not pin.violation:
        raise MachineryError("vacuity: the pinned block scanner satisfies ScannerInv")
    cases = tlc.parse_cases(r.stdout)
    chk.exhaustive = True
    jobs = [{"base": b, "cases": cases, "root": str(scratch_root() / f"c04-{i}")} for i, b in enumerate(BASES)]
    log(f"C04: {len(jobs)} bases x {len(cases)} directive cases")
    res = pool.run_jobs(job, jobs, nproc=NCPU, timeout=900)
    records, meta = [], []
    base_of: dict = {}
    for j, r_ in zip(jobs, res):
        if not r_.ok:
            raise MachineryError(f"C04 job failed ({j['base'][0]}/{j['base'][2]}): {r_.error}")
        base = r_.value["base"]
        if not any(v["file"] == 0 and v["linter"] == j["base"][0] for v in base):
            raise MachineryError(f"C04: base project of {j['base'][0]}/{j['base'][2]} reports nothing for it")
        for run_ in r_.value["runs"]:
            base_of[id(run_)] = base
            records.append({"base": base, "after": run_["after"], "d": run_["d"], "stacked": "d1" in run_,
                            "d1": run_.get("d1", run_["d"])})
            meta.append((j["base"], run_))
    verdicts = trace.validate(chk, "IgnoreTrace", "mc/IgnoreTrace.cfg", records)
    for (b, run_), (la, lb, at) in zip(meta, verdicts):
        case = {"linter": b[0], "lang": b[2], **run_["case"]}
        chk.count(case, nontrivial=run_["case"]["spelling"] != "otherRule")
        exp = Counter(canon(v) for v in (expected2(base_of[id(run_)], run_["d1"], run_["d"]) if "d1" in run_
                                         else expected(base_of[id(run_)], run_["d"])))
        aft = Counter(canon(v) for v in run_["after"])
        if (exp == aft) != (la == "ok"):
            raise MachineryError(f"C04: Python mirror and TLC disagree on {case}: TLC={la}")
        if la != "ok":
            for k_, kind in [(k_, "not-silenced") for k_ in (aft - exp)] + [(k_, "lost") for k_ in (exp - aft)]:
                v = json.loads(k_)
                key = {"linter": b[0], "lang": b[2], "form": run_["case"]["form"],
                       "spelling": run_["case"]["spelling"], "placement": run_["case"]["placement"],
                       "clause": la, "culprit": v["linter"], "kind": kind}
                if run_["case"].get("stack", "none") != "none":
                    key["stack"] = run_["case"]["stack"]
                if run_["case"].get("lead", "none") != "none":
                    key["lead"] = run_["case"]["lead"]
                chk.reject(key,
                           {"case": case, "d": run_["d"], "d1": run_.get("d1"), "after": run_["after"], "v": v},
                           f"{la}: base {b[0]} ({b[2]}) {run_['case']['form']}/{run_['case']['spelling']}/"
                           f"{run_['case']['placement']}{'+' + run_['case']['stack'] if run_['case'].get('stack', 'none') != 'none' else ''}: {v['linter']}.{v['sub']} line {v['line']} {kind}")
