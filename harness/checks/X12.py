"""X12 (beyond the listed properties) — the file-header linter: mandatory fields and atemporal language.

spec/FileHeader.tla enumerates headers (present / none / after code / as line comments) x the state of five fields
(absent, empty, one line, two lines) x up to two temporal phrases (eight patterns and a near-miss) x required-field
configuration (default, list, per-language mapping) x enforce_atemporal x Python / TypeScript; each file is linted with
`thailint file-header` and FileHeaderTrace.tla judges the findings (which fields, which phrases, which lines).
"""
from __future__ import annotations

from pathlib import Path

from .. import drive, pool, tlc, trace
from ..common import NCPU, MachineryError, canon, log, scratch_root

FIELDS = ["Purpose", "Scope", "Overview", "Dependencies", "Exports"]
EXTRA = {"python": ["Interfaces", "Implementation"], "typescript": ["Props/Interfaces", "State/Behavior"]}
PHRASE = {"isoDate": "released 2023-01-15", "monthYear": "since January 2023", "currently": "currently supports OAuth",
          "now": "now handles retries", "replaces": "replaces the helper", "formerly": "formerly a script",
          "willBe": "will be extended", "planned": "planned for batches", "nearMiss": "snow known renewal plans"}
DESC = {"ISO date format (YYYY-MM-DD)": "isoDate", "Month Year format": "monthYear", 'temporal qualifier "currently"': "currently",
        'temporal qualifier "now"': "now", 'state change "replaces"': "replaces", 'state change "formerly"': "formerly",
        'future reference "will be"': "willBe", 'future reference "planned"': "planned"}
REQ = {"default": None, "three": ["Purpose", "Scope", "Overview"], "one": ["Purpose"],
       "perLanguage": {"python": ["Purpose"], "typescript": ["Purpose", "Scope"]}}


def render(c: dict, k: int) -> tuple[str, list[int]]:
    """(file text, line of each of the five fields' `Name:` line or 0)."""
    py = c["lang"] == "python"
    valued = [i for i, f in enumerate(FIELDS) if c["st"][f] in ("filled", "twoLines")]
    carrier: dict[int, list[str]] = {}
    for n, p in enumerate(c["phr"]):
        i = valued[0] if (n == 0 or c["where"] == "same") else valued[-1]
        carrier.setdefault(i, []).append(PHRASE[p])
    body: list[str] = []         # header lines without comment decoration
    at = [0] * 5
    for i, f in enumerate(FIELDS):
        s = c["st"][f]
        if s == "absent":
            continue
        at[i] = len(body)
        if s == "empty":
            body.append(f"{f}:")
        else:
            body.append(f"{f}: {f.lower()} text of module {k}" + "".join(", " + t for t in carrier.get(i, [])))
            if s == "twoLines":
                body.append(f"    continued on a second line for module {k}")
        body.append("")
    for f in EXTRA[c["lang"]]:
        body += [f"{f}: {f.lower().replace('/', ' ')} text of module {k}", ""]
    code = ["import os", "", f"def helper_{k}():", "    return os.sep"] if py else \
        [f"export function helper{k}(): string {{", '  return "/";', "}"]
    head = c["head"]
    if head == "none":
        return "\n".join(code) + "\n", [0] * 5
    if head == "lineComments":
        cm = "# " if py else "// "
        return "\n".join([(cm + l).rstrip() for l in body] + code) + "\n", [0] * 5
    block = (['"""'] + body[:-1] + ['"""']) if py else (["/**"] + [(" * " + l).rstrip() for l in body[:-1]] + [" */"])
    if head == "afterCode":
        pre = ["import sys", ""] if py else ["const before = 1;", ""]
        return "\n".join(pre + block + code) + "\n", [0] * 5
    fline = [(a + 2 if c["st"][FIELDS[i]] != "absent" else 0) for i, a in enumerate(at)]
    return "\n".join(block + code) + "\n", fline


def job(j: dict) -> dict:
    import yaml
    drive.preload()
    root = Path(j["root"])
    root.mkdir(parents=True)
    out = []
    for k, c in enumerate(j["cases"]):
        d = root / f"c{k}"
        (d / "pkg").mkdir(parents=True)
        (d / ".git").mkdir()
        name = f"pkg/mod_{k}." + ("py" if c["lang"] == "python" else "ts")
        text, fline = render(c, k)
        (d / name).write_text(text)
        sec: dict = {"enabled": True, "enforce_atemporal": c["atemporal"]}
        if REQ[c["req"]] is not None:
            sec["required_fields"] = REQ[c["req"]]
        (d / ".thailint.yaml").write_text(yaml.safe_dump({"file-header": sec}))
        r = drive.cli_json(["file-header", name] if k % 2 else ["file-header", "pkg"], cwd=d)
        if r["violations"] is None:
            return {"error": f"no JSON (exit {r['exit']}): {r['stderr'][-300:]}"}
        obs = []
        for v in r["violations"]:
            m = v["message"]
            if m.startswith("Missing mandatory field: "):
                obs.append({"line": v["line"], "kind": "missing", "what": m.split(": ", 1)[1]})
            elif m.startswith("Temporal language detected: ") and m.split(": ", 1)[1] in DESC:
                obs.append({"line": v["line"], "kind": "temporal", "what": DESC[m.split(": ", 1)[1]]})
            else:
                obs.append({"line": v["line"], "kind": "other", "what": m[:80]})
        out.append({"fline": fline, "obs": obs, "text": text})
    return {"runs": out}


def run(chk) -> None:
    quick = chk.tier == "quick"
    drive.preload()
    chk.rule = ("file headers: present / none / after code / as line comments x 4^5 field states x <= 2 temporal phrases "
                "(8 patterns + near-miss; same line or first/last valued field) x required-fields configuration (default, "
                "list of 3, list of 1, per-language mapping) x enforce_atemporal x Python / TypeScript, 430 016 cases "
                "emitted by TLC; quick samples 3 000, thorough 40 000")
    chk.assumptions = ["the two default-required fields outside the five modelled ones are always present and filled",
                       "the configuration keys are those the code reads (required_fields, enforce_atemporal)"]
    res = tlc.run("FileHeader", "mc/FileHeader.cfg", workers=min(8, NCPU), timeout=900)
    if res.violation or res.error:
        raise MachineryError("FileHeader.tla: laws fail or TLC error\n" + res.stdout[-2000:])
    chk.add_tlc("FileHeader", res)
    cases = tlc.parse_cases(res.stdout)
    cases.sort(key=canon)
    chk.rng.shuffle(cases)
    # every header kind, every phrase, every configuration in the sample; the rest at random
    nohdr = [c for c in cases if c["head"] != "present"]
    chk.rng.shuffle(nohdr)
    cases = nohdr[:300] + [c for c in cases if c["head"] == "present"][:2700 if quick else 39700]
    jobs = [{"cases": cases[i:i + 25], "root": str(scratch_root() / f"x12-{i}")} for i in range(0, len(cases), 25)]
    log(f"X12: {len(cases)} cases")
    results = pool.run_jobs(job, jobs, nproc=NCPU, timeout=900)
    records, meta = [], []
    for j, r in zip(jobs, results):
        if not r.ok or "error" in r.value:
            raise MachineryError(f"X12 job failed: {r.error if not r.ok else r.value['error']}")
        for c, run_ in zip(j["cases"], r.value["runs"]):
            records.append({"lang": c["lang"], "head": c["head"], "st": c["st"], "phr": c["phr"], "where": c["where"],
                            "req": c["req"], "atemporal": c["atemporal"], "fline": run_["fline"], "obs": run_["obs"]})
            meta.append((c, run_))
    if sum(1 for r in records if r["obs"]) * 4 < len(records):
        raise MachineryError("X12: almost nothing was reported (vacuous)")
    verdicts = trace.validate(chk, "FileHeaderTrace", "mc/FileHeaderTrace.cfg", records)
    for (c, run_), (la, _lb, _at) in zip(meta, verdicts):
        chk.count({k: c[k] for k in ("lang", "head", "st", "phr", "where", "req", "atemporal")}, nontrivial=True)
        if la == "ok":
            continue
        states = sorted(set(c["st"].values()))
        chk.reject({"clause": la, "lang": c["lang"], "head": c["head"], "phrases": sorted(c["phr"]), "req": c["req"],
                    "states": states if la.startswith(("Missing", "Field")) else []},
                   {"case": c, "observed": run_["obs"], "fline": run_["fline"], "text": run_["text"]},
                   f"{la}: {c['lang']} head={c['head']} st={c['st']} phr={c['phr']}/{c['where']} req={c['req']} "
                   f"atemporal={c['atemporal']}: observed {run_['obs']}")
