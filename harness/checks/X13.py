"""X13 (beyond the listed properties) — DRY's documented false-positive filters.

spec/DryFilters.tla enumerates (kind of shared block, setting of the filter that concerns it, setting of the other
three filters); two Python files share exactly that block (everything around it is unique per file); `thailint dry`
must report the block in both files unless the kind is the one the filter's documentation describes and the filter
is on (explicitly or by default).  DryFiltersTrace.tla judges each run.
"""
from __future__ import annotations

from pathlib import Path

from .. import drive, pool, tlc, trace
from ..common import NCPU, MachineryError, log, scratch_root

FILTERS = ["keyword_argument_filter", "import_group_filter", "logger_call_filter", "exception_reraise_filter"]


def body(kind: str, tag: str) -> tuple[list[str], int, int]:
    """(lines of one file, first line of the shared block, its length)."""
    head = [f"def prepare_{tag}(seed_{tag}):", f"    base_{tag} = seed_{tag}", f"    return base_{tag}", "", ""]
    if kind == "kwargs":
        blk = ["        message=message,", "        severity=severity,", "        suggestion=suggestion,", "        location=location,"]
        lines = head + [f"def build_{tag}(message, severity, suggestion, location, tag_{tag}):", f"    return make_{tag}("] + blk \
            + [f"        tag_{tag}=tag_{tag})"]
        return lines, len(head) + 3, 4
    if kind == "kwargsBare":
        blk = ["    message = message_value", "    severity = severity_value", "    suggestion = suggestion_value",
               "    location = location_value"]
        lines = head + [f"def assign_{tag}(message_value, severity_value, suggestion_value, location_value):",
                        f"    first_{tag} = message_value"] + blk + [f"    return first_{tag}, message, severity, suggestion, location"]
        return lines, len(head) + 3, 4
    if kind in ("reraise", "reraiseNoFrom"):
        blk = (["    except ValueError as e:", '        raise RuntimeError("conversion failed") from e'] if kind == "reraise"
               else ["    except ValueError:", '        raise RuntimeError("conversion failed")'])
        lines = head + [f"def convert_{tag}(text_{tag}):", "    try:", f"        number_{tag} = int(text_{tag})"] + blk \
            + [f"    return number_{tag}"]
        return lines, len(head) + 4, 2
    if kind == "loggerRun":
        blk = ['    logger.info("starting the transfer")', '    logger.debug("collecting the inputs")',
               '    logger.warning("falling back to defaults")']
        lines = head + [f"def announce_{tag}(logger):", f"    first_{tag} = logger"] + blk + [f"    return first_{tag}"]
        return lines, len(head) + 3, 3
    blk = ["    total = width * height", "    total = total + margin", "    total = total - border"]
    lines = head + [f"def area_{tag}(width, height, margin, border):", f"    first_{tag} = width"] + blk + [f"    return total, first_{tag}"]
    return lines, len(head) + 3, 3


def job(j: dict) -> dict:
    import yaml
    drive.preload()
    root = Path(j["root"])
    root.mkdir(parents=True)
    out = []
    for k, c in enumerate(j["cases"]):
        d = root / f"c{k}"
        (d / "pkg").mkdir(parents=True)
        (d / ".git").mkdir()
        spans = []
        for tag in ("alpha", "beta"):
            lines, start, n = body(c["kind"], tag)
            (d / "pkg" / f"mod_{tag}.py").write_text("\n".join(lines) + "\n")
            spans.append((start, start + n - 1))
        filters = {}
        for f in FILTERS:
            setting = c["own"] if f == c["filter"] else c["others"]
            if setting != "default":
                filters[f] = setting == "on"
        sec: dict = {"enabled": True, "min_duplicate_lines": c["window"], "min_occurrences": 2}
        if filters:
            sec["filters"] = filters
        (d / ".thailint.yaml").write_text(yaml.safe_dump({"dry": sec}))
        r = drive.cli_json(["dry", "pkg"], cwd=d)
        if r["violations"] is None:
            return {"error": f"no JSON (exit {r['exit']}): {r['stderr'][-300:]}"}
        obs, other = [False, False], []
        for v in r["violations"]:
            rel = drive.rel(v["file_path"], d)
            i = {"pkg/mod_alpha.py": 0, "pkg/mod_beta.py": 1}.get(rel)
            # a finding belongs to the shared block iff it starts inside it
            if i is not None and spans[i][0] <= v["line"] <= spans[i][1]:
                obs[i] = True
            else:
                other.append([rel, v["line"], v["message"][:80]])
        out.append({"obs": obs, "other": other})
    return {"runs": out}


def run(chk) -> None:
    drive.preload()
    chk.rule = ("6 kinds of shared block (keyword arguments inside a call / bare assignments, except-raise-from / except-raise, "
                "a run of three logger calls, plain statements) x own filter on / off / default x other filters on / off / "
                "default (54 cases, all run)")
    chk.assumptions = ["a finding belongs to the shared block iff its line lies inside the block",
                       "keyword arguments with keyword_argument_filter off carry no verdict: the lines of one call are one "
                       "statement, which the Python analyzer never reports (undocumented single-statement detection), so the "
                       "switch cannot be observed",
                       "import groups are not modelled: the tokenizer drops import lines before any filter sees them"]
    res = tlc.run("DryFilters", "mc/DryFilters.cfg", workers=1, timeout=300)
    if res.violation or res.error:
        raise MachineryError("DryFilters.tla: laws fail or TLC error\n" + res.stdout[-2000:])
    chk.add_tlc("DryFilters", res)
    cases = tlc.parse_cases(res.stdout)
    chk.exhaustive = True
    jobs = [{"cases": cases[i:i + 6], "root": str(scratch_root() / f"x13-{i}")} for i in range(0, len(cases), 6)]
    log(f"X13: {len(cases)} cases")
    results = pool.run_jobs(job, jobs, nproc=NCPU, timeout=600)
    records, meta = [], []
    for j, r in zip(jobs, results):
        if not r.ok or "error" in r.value:
            raise MachineryError(f"X13 job failed: {r.error if not r.ok else r.value['error']}")
        for c, run_ in zip(j["cases"], r.value["runs"]):
            records.append({"kind": c["kind"], "own": c["own"], "others": c["others"], "obs": run_["obs"], "other": len(run_["other"])})
            meta.append((c, run_))
    if not any(all(r["obs"]) for r in records):
        raise MachineryError("X13: no shared block was ever reported (vacuous)")
    verdicts = trace.validate(chk, "DryFiltersTrace", "mc/DryFiltersTrace.cfg", records)
    for (c, run_), (la, _lb, _at) in zip(meta, verdicts):
        chk.count({k: c[k] for k in ("kind", "own", "others")}, nontrivial=not c["unspecified"])
        if la == "ok":
            continue
        chk.reject({"clause": la, "kind": c["kind"], "own": c["own"], "others": c["others"] if la == "OtherFinding" else "any"},
                   {"case": c, "observed": run_}, f"{la}: {c['kind']} own={c['own']} others={c['others']}: obs={run_['obs']} "
                   f"other={run_['other'][:2]}")
