"""X10 (beyond the listed properties) — the performance linter's string-concat-loop and regex-in-loop rules.

spec/Perf.tla enumerates `acc += addend` statements (accumulator initialised as string / f-string / list / number x
addend form x loop kind incl. none and nested; Python and TypeScript) and regex calls (seven re functions x module
function or pre-compiled pattern x loop kind); each is rendered inside a function, linted with `thailint perf`, and
PerfTrace.tla judges the finding at the statement's line.
"""
from __future__ import annotations

from pathlib import Path

from .. import drive, pool, tlc, trace
from ..common import NCPU, MachineryError, log, scratch_root

PY_INIT = {"emptyString": 'acc = ""', "fString": 'acc = f"{prefix}:"', "list": "acc = []", "number": "acc = 0"}
PY_ADD = {"strCall": "str(item)", "fString": 'f"{item},"', "literal": '"-"', "name": "item"}
TS_INIT = {"emptyString": 'let acc = "";', "list": "let acc: string[] = [];", "number": "let acc = 0;"}
TS_ADD = {"fString": "`${item},`", "literal": '"-"', "name": "item"}


def py_loop(kind: str, body: list[str]) -> tuple[list[str], int, bool]:
    """(lines, index of the first body line within lines, needs async def)"""
    if kind == "none":
        return body, 0, False
    if kind == "for":
        return ["for item in items:"] + ["    " + b for b in body], 1, False
    if kind == "while":
        return ["while items:", "    item = items.pop()"] + ["    " + b for b in body], 2, False
    if kind == "asyncFor":
        return ["async for item in items:"] + ["    " + b for b in body], 1, True
    return ["for group in items:", "    for item in group:"] + ["        " + b for b in body], 2, False


def render(c: dict) -> tuple[str, int, str]:
    if c["rule"] == "regex":
        call = (f"re.{c['fn']}(pattern, item)" if c["callee"] == "module" else f"compiled.{c['fn']}(item)")
        if c["fn"] == "sub":
            call = (f"re.sub(pattern, '', item)" if c["callee"] == "module" else "compiled.sub('', item)")
        body = [f"found = {call}", "results.append(found)"]
        loop, off, is_async = py_loop(c["loop"], body)
        head = ["import re", "", ("async def" if is_async else "def") + " scan(items, pattern, item=None):",
                "    compiled = re.compile(pattern)", "    results = []"]
        lines = head + ["    " + l for l in loop] + ["    return results"]
        return "\n".join(lines) + "\n", len(head) + off + 1, "py"
    if c["lang"] == "python":
        body = [f"acc += {PY_ADD[c['addend']]}"]
        loop, off, is_async = py_loop(c["loop"], body)
        head = [("async def" if is_async else "def") + " build(items, prefix, item=None):", "    " + PY_INIT[c["init"]]]
        lines = head + ["    " + l for l in loop] + ["    return acc"]
        return "\n".join(lines) + "\n", len(head) + off + 1, "py"
    body = [f"acc += {TS_ADD[c['addend']]};"]
    if c["loop"] == "none":
        loop, off = body, 0
    elif c["loop"] == "for":
        loop, off = ["for (const item of items) {"] + ["  " + b for b in body] + ["}"], 1
    elif c["loop"] == "while":
        loop, off = ["while (items.length) {", "  const item = items.pop();"] + ["  " + b for b in body] + ["}"], 2
    else:
        loop, off = ["for (const group of groups) {", "  for (const item of group) {"] + ["    " + b for b in body] + ["  }", "}"], 2
    head = ["function build(items: any[], groups: any[][], item: any) {", "  " + TS_INIT[c["init"]]]
    lines = head + ["  " + l for l in loop] + ["  return acc;", "}"]
    return "\n".join(lines) + "\n", len(head) + off + 1, "ts"


def job(j: dict) -> dict:
    drive.preload()
    root = Path(j["root"])
    root.mkdir(parents=True)
    (root / ".git").mkdir()
    (root / "pkg").mkdir()
    (root / ".thailint.yaml").write_text("{}\n")
    out = []
    for k, c in enumerate(j["cases"]):
        src, at, ext = render(c)
        name = f"pkg/probe_{k}.{ext}"
        (root / name).write_text(src)
        want = "performance.string-concat-loop" if c["rule"] == "concat" else "performance.regex-in-loop"
        r = drive.cli_json(["perf", name], cwd=root)
        if r["violations"] is None:
            return {"error": f"no JSON (exit {r['exit']}): {r['stderr'][-300:]}"}
        n = sum(1 for v in r["violations"] if v["rule_id"] == want and v["line"] == at)
        other = [[v["rule_id"], v["line"]] for v in r["violations"] if not (v["rule_id"] == want and v["line"] == at)]
        out.append({"n": n, "other": other, "source": src, "at": at})
    return {"runs": out}


def run(chk) -> None:
    drive.preload()
    chk.rule = ("`acc += addend` with acc initialised as \"\" / f-string / [] / 0, addend str(x) / f-string / literal / name, "
                "in no loop / for / while / async for / nested loops, Python and TypeScript; re.{match,search,sub,findall,"
                "split,fullmatch,finditer} as module function or on a pre-compiled pattern in the same loop kinds "
                "(186 cases from TLC)")
    chk.assumptions = ["TypeScript: no async-for, no template-literal initialiser, no String() addend (not in the docs)"]
    res = tlc.run("Perf", "mc/Perf.cfg", workers=2, timeout=600)
    if res.violation or res.error:
        raise MachineryError("Perf.tla: laws fail or TLC error\n" + res.stdout[-2000:])
    chk.add_tlc("Perf", res)
    cases = tlc.parse_cases(res.stdout)
    chk.exhaustive = True
    jobs = [{"cases": cases[i:i + 12], "root": str(scratch_root() / f"x10-{i}")} for i in range(0, len(cases), 12)]
    log(f"X10: {len(cases)} cases")
    results = pool.run_jobs(job, jobs, nproc=NCPU, timeout=600)
    records, meta = [], []
    for j, r in zip(jobs, results):
        if not r.ok or "error" in r.value:
            raise MachineryError(f"X10 job failed: {r.error if not r.ok else r.value['error']}")
        for c, run_ in zip(j["cases"], r.value["runs"]):
            records.append(dict(c, n=run_["n"], other=len(run_["other"])))
            meta.append((c, run_))
    verdicts = trace.validate(chk, "PerfTrace", "mc/PerfTrace.cfg", records)
    for (c, run_), (la, _lb, _at) in zip(meta, verdicts):
        chk.count(c, nontrivial=True)
        if la == "ok":
            continue
        key = {"clause": la, "rule": c["rule"], "lang": c["lang"], "loop": c["loop"]}
        key.update({"init": c["init"], "addend": c["addend"]} if c["rule"] == "concat" else {"fn": c["fn"], "callee": c["callee"]})
        chk.reject(key, {"case": c, "observed": run_}, f"{la}: {c}: n={run_['n']} at={run_['at']} other={run_['other'][:2]}")
