"""C03 — duplicate-code (DRY) findings are sound, mutual and complete.

spec/Dry.tla states Sound / Mutual / Complete / CountOk / NoDupNoReport over abstract projects and
models the coded algorithm (DryAlgo); TLC checks DryAlgo against the requirement over all small
projects (what holds is an invariant, the rest is a prediction) and emits every project; projects are
rendered to Python and TypeScript and the real dry linter's findings are judged by DryTrace.tla.
"""
from __future__ import annotations

import json
import os
import re
from pathlib import Path

from .. import drive, pool, tlc, trace
from ..common import NCPU, MachineryError, canon, log, scratch_root

MSG = re.compile(r"Duplicate code \((\d+) lines, (\d+) occurrences\)(?:\. Also found in: (.*))?$")
STMT = {
    "python": {"A": "alpha_total = compute_alpha(source_alpha)", "B": "beta_total = compute_beta(source_beta)",
               "C": "gamma_total = compute_gamma(source_gamma)", "BL": "", "CM": "# a remark about nothing"},
    "typescript": {"A": "alphaTotal = computeAlpha(sourceAlpha);", "B": "betaTotal = computeBeta(sourceBeta);",
                   "C": "gammaTotal = computeGamma(sourceGamma);", "BL": "", "CM": "// a remark about nothing"},
}


def render(lang: str, toks: list[str], fi: int, variant: int) -> tuple[str, list[str]]:
    """Source text and its abstract token list (one token per source line, incl. wrapper lines)."""
    lines, abstract = [], []
    # module-level statements; first and last line are unique per file (no shared braces / returns).
    # Every third file holds its statements one block deeper (the same run at another indentation is the same run).
    deeper = (fi + variant) % 3 == 1
    ind = "    " if deeper else ""
    lines.append(f"start_{fi} = begin_{fi}()" if lang == "python" else f"const start{fi} = begin{fi}();")
    abstract.append(f"H{fi}")
    if deeper:
        lines.append(f"if start_{fi}:" if lang == "python" else f"if (start{fi}) {{")
        abstract.append(f"W{fi}")
    for i, t in enumerate(toks):
        text = STMT[lang][t]
        if t == "BL" and (i + variant) % 2:
            t, text = "CM", STMT[lang]["CM"]
        if text:
            # whitespace differences and trailing comments on some occurrences
            if (i + fi + variant) % 4 == 0 and t in ("A", "B", "C"):
                text = text.replace(" = ", "  =  ")
            if (i + variant) % 5 == 0 and t in ("A", "B", "C"):
                text = text + ("  # trailing remark" if lang == "python" else "  // trailing remark")
            lines.append(ind + text)
        else:
            lines.append("")
        abstract.append(t)
    if deeper and lang != "python":
        lines.append(f"}} else {{ finish{fi}(start{fi}); }}")
    else:
        lines.append(f"finish_{fi}(start_{fi})" if lang == "python" else f"finish{fi}(start{fi});")
    abstract.append(f"T{fi}")
    return "\n".join(lines) + "\n", abstract


def job(j: dict) -> dict:
    import yaml
    drive.preload()
    root = Path(j["root"])
    root.mkdir(parents=True)
    (root / ".git").mkdir()
    ext = {"python": "py", "typescript": "ts"}[j["lang"]]
    out = []
    for k, (proj, W) in enumerate(j["cases"]):
        d = root / f"p{k}"
        d.mkdir()
        (d / ".git").mkdir()
        names, P = [], []
        for fi, toks in enumerate(proj, 1):
            src, abstract = render(j["lang"], toks, fi, j["salt"] + k)
            # in every other TypeScript project the last file is JavaScript (same statements): a run is the same run in
            # .ts and in .js
            n = f"file{fi}." + ("js" if ext == "ts" and fi == len(proj) and fi > 1 and (j["salt"] + k) % 2 else ext)
            (d / n).write_text(src)
            names.append(n)
            P.append(abstract)
        (d / ".thailint.yaml").write_text(yaml.safe_dump({"dry": {"enabled": True, "min_duplicate_lines": W,
                                                                    "min_occurrences": 2}}))
        r = drive.cli_json(["dry", "."], cwd=d)
        if r["violations"] is None:
            out.append({"error": f"exit {r['exit']}: {r['stderr'][-200:]}"})
            continue
        R = []
        bad = None
        for v in r["violations"]:
            m = MSG.match(v["message"])
            if not m:
                bad = v["message"]
                continue
            refs = []
            for ref in (m.group(3) or "").split(", "):
                if not ref:
                    continue
                pth, _, rng = ref.rpartition(":")
                a, _, b = rng.partition("-")
                refs.append({"file": names.index(os.path.basename(pth)) + 1, "start": int(a), "end": int(b)})
            R.append({"file": names.index(os.path.basename(v["file_path"])) + 1, "line": v["line"],
                      "count": int(m.group(1)), "occ": int(m.group(2)), "refs": refs})
        out.append({"P": P, "W": W, "K": 2, "R": R, "badmsg": bad})
    return {"runs": out}


def run(chk) -> None:
    quick = chk.tier == "quick"
    drive.preload()
    chk.rule = ("projects = ALL pairs (and, thorough, triples) of files of <= 4/5 lines over 2 statement tokens + "
                "blank/comment lines (W = 2) and <= 5/6 lines (W = 3), emitted by TLC; rendered to Python and "
                "TypeScript with whitespace differences and trailing comments on some occurrences, wrapper lines "
                "included in the abstract project; non-trivial = the project contains a shared window; distinct by "
                "(language, project, W)")
    chk.assumptions = ["statement tokens render to one-line assignments (no imports, logger calls or multi-line "
                       "statements, so the documented block filters are out of play)",
                       "Python's 64-bit hash() is treated as injective on snippets",
                       "`covered` = the line ranges intersect"]
    r = tlc.run("Dry", "mc/Dry_quick.cfg" if quick else "mc/Dry.cfg", workers=1, timeout=3000)
    chk.add_tlc("DryAlgo vs Sound/Mutual/CountOk/NoDupNoReport, W=2", r)
    if r.violation:
        raise MachineryError("Dry.tla: DryAlgo violates Sound/CountOk/NoDupNoReport:\n" + r.stdout[-1500:])
    pred = tlc.run("Dry", "mc/Dry_predict.cfg", workers=4, timeout=900)
    chk.add_tlc("DryAlgo vs Complete (prediction: tail windows)", pred)
    chk.extra["prediction_DryAlgo_violates_Complete"] = pred.violation
    pin = tlc.run("Dry", "mc/Dry_pinned.cfg", workers=4, timeout=900)
    chk.add_tlc("DryAlgo with the pinned overlap test vs Mutual (non-vacuity)", pin)
    if not pin.violation:
        raise MachineryError("vacuity: AlgoMutual holds with the pinned overlap test")
    projs2 = [(t[0], 2) for t in r.tuples("PROJ")]
    projs3 = []
    if not quick:
        r3 = tlc.run("Dry", "mc/Dry_w3.cfg", workers=1, timeout=3000)
        chk.add_tlc("DryAlgo vs Sound/Mutual/CountOk/NoDupNoReport, W=3", r3)
        projs3 = [(t[0], 3) for t in r3.tuples("PROJ")]
    chk.rng.shuffle(projs2)
    chk.rng.shuffle(projs3)
    cases = projs2[:3000] + [(p, 3) for p, _ in projs2[3000:4000]] if quick else projs2[:40000] + projs3[:20000]
    # directed: the two predicted shapes
    cases += [([["A"], ["A", "A", "A", "BL", "A"]], 2), ([["A", "B", "B"], ["A", "B", "B", "B"]], 2),
              ([["A", "B", "A", "B", "A", "B", "A"], ["A", "B", "A", "B", "A", "B", "A"]], 3)]
    per = 50
    jobs = []
    for lang in ("python", "typescript"):
        for i in range(0, len(cases), per):
            jobs.append({"lang": lang, "cases": cases[i:i + per], "salt": i // per,
                         "root": str(scratch_root() / f"c03-{len(jobs)}")})
    log(f"C03: {len(cases)} projects x 2 languages")
    res = pool.run_jobs(job, jobs, nproc=NCPU, timeout=1800)
    records, meta = [], []
    for j, r_ in zip(jobs, res):
        if not r_.ok:
            raise MachineryError(f"C03 job failed: {r_.error}")
        for (proj, W), o in zip(j["cases"], r_.value["runs"]):
            if "error" in o:
                raise MachineryError(f"C03 run failed: {o['error']}")
            if o["badmsg"]:
                chk.reject({"lang": j["lang"], "clause": "Message"}, {"proj": proj, "msg": o["badmsg"]},
                           f"unparsable dry message: {o['badmsg'][:100]}")
                continue
            records.append({"P": o["P"], "W": o["W"], "K": o["K"], "R": o["R"]})
            meta.append((j["lang"], proj, W, o))
    verdicts = trace.validate(chk, "DryTrace", "mc/DryTrace.cfg", records, timeout=3000)
    for (lang, proj, W, o), (la, lb, at) in zip(meta, verdicts):
        has_blank = any("BL" in f for f in proj)
        chk.count({"lang": lang, "proj": proj, "W": W}, nontrivial=bool(o["R"]))
        if lb != "ok":
            chk.extra["model_drift"] = chk.extra.get("model_drift", 0) + 1
            if len(chk.notes) < 5:
                chk.notes.append(f"MODEL-DRIFT C03 {lang} W={W} proj={proj} R={o['R']}")
        if la == "ok":
            continue
        chk.reject({"lang": lang, "clause": la, "W": W, "blank_or_comment_inside": has_blank, "files": len(proj),
                    "as_modelled": lb == "ok"},
                   {"lang": lang, "proj": proj, "W": W, "P": o["P"], "R": o["R"]},
                   f"{la}: {lang} W={W} project {proj}: findings {[(v['file'], v['line'], v['count'], v['occ']) for v in o['R']]}")
