"""C17 — the Rust safety linters flag exactly the risky calls outside test code.

spec/RustSafety.tla enumerates every site (module kind x function kind x enclosing loops / closures /
offloading wrappers x risky call) with its verdict per option setting and checks the test-code,
switch-independence and async laws; the sites are rendered 300 per file and each file is linted by
the owning linters under every option setting; RustSafetyTrace.tla judges every file.
"""
from __future__ import annotations

import itertools
import json
import os
from pathlib import Path

from .. import drive, pool, tlc, trace
from ..common import NCPU, MachineryError, canon, log, scratch_root
from ..render import rustsafety as R
from . import C01

PER_FILE = 300
OPTS = {
    "unwrap-abuse": [{"allow_in_tests": a, "allow_expect": e} for a in (True, False) for e in (True, False)],
    "clone-abuse": [{"allow_in_tests": a, "detect_clone_in_loop": l, "detect_clone_chain": c, "detect_unnecessary_clone": u}
                    for a in (True, False) for l in (True, False) for c in (True, False) for u in (True, False)],
    "blocking-async": [{"allow_in_tests": a, "detect_fs_in_async": f, "detect_sleep_in_async": s, "detect_net_in_async": n}
                       for a in (True, False) for f in (True, False) for s in (True, False) for n in (True, False)],
}


def spec_opts(linter: str, o: dict) -> dict:
    return {"allowInTests": o["allow_in_tests"], "allowExpect": o.get("allow_expect", True),
            "detectLoop": o.get("detect_clone_in_loop", True), "detectChain": o.get("detect_clone_chain", True),
            "detectUnnecessary": o.get("detect_unnecessary_clone", True), "detectFs": o.get("detect_fs_in_async", True),
            "detectSleep": o.get("detect_sleep_in_async", True), "detectNet": o.get("detect_net_in_async", True)}


def job(j: dict) -> dict:
    import yaml
    drive.preload()
    root = Path(j["root"])
    root.mkdir(parents=True)
    (root / ".git").mkdir()
    (root / "srcx").mkdir()
    src, where = R.render(j["sites"], j["salt"])
    C01.selfcheck("rust", src)
    (root / "srcx" / "probe.rs").write_text(src)
    runs = []
    for linter in j["linters"]:
        for oi, o in enumerate(OPTS[linter]):
            if j["quick"] and linter != "unwrap-abuse" and (oi + j["salt"]) % 4:
                continue
            key = linter if (oi + j["salt"]) % 2 == 0 else linter.replace("-", "_")
            (root / ".thailint.yaml").write_text(yaml.safe_dump({key: dict(o, ignore=[])}))
            r = drive.cli_json([linter, "srcx/probe.rs"], cwd=root)
            if r["violations"] is None:
                return {"error": f"no JSON (exit {r['exit']}): {r['stderr'][-300:]}"}
            counts: dict = {}
            for v in r["violations"]:
                counts[v["line"]] = counts.get(v["line"], 0) + 1
            runs.append({"linter": linter, "opts": o, "reported": [{"line": l, "n": n} for l, n in sorted(counts.items())]})
    return {"where": where, "runs": runs}


def job_twin(j: dict) -> dict:
    """Two files with byte-identical layout: one with test attributes, one with same-length comments instead."""
    import yaml
    drive.preload()
    root = Path(j["root"])
    root.mkdir(parents=True)
    (root / ".git").mkdir()
    (root / "srcx").mkdir()
    src, where = R.render(j["sites"], j["salt"])
    twin = src.replace("#[cfg(test)]", "// cfg-test ").replace("#[test]", "// test").replace("#[ignore]", "// ignore")
    assert len(twin) == len(src)
    C01.selfcheck("rust", src)
    C01.selfcheck("rust", twin)
    names = ("a_tests.rs", "b_plain.rs") if j["salt"] % 2 == 0 else ("b_tests.rs", "a_plain.rs")
    (root / "srcx" / names[0]).write_text(src)
    (root / "srcx" / names[1]).write_text(twin)
    (root / ".thailint.yaml").write_text(yaml.safe_dump({"unwrap-abuse": {"allow_in_tests": True, "allow_expect": False, "ignore": []}}))
    r = drive.cli_json(["unwrap-abuse", "srcx"], cwd=root)
    if r["violations"] is None:
        return {"error": f"no JSON (exit {r['exit']}): {r['stderr'][-300:]}"}
    out = {}
    for n in names:
        counts: dict = {}
        for v in r["violations"]:
            if os.path.basename(v["file_path"]) == n:
                counts[v["line"]] = counts.get(v["line"], 0) + 1
        out[n] = [{"line": l, "n": c} for l, c in sorted(counts.items())]
    return {"where": where, "names": names, "reported": out}


def run(chk) -> None:
    quick = chk.tier == "quick"
    drive.preload()
    chk.rule = ("sites = module kind (none, plain, #[cfg(test)], plain nested in #[cfg(test)]) x function kind (plain, "
                "#[test], #[test] among other attributes, async) x enclosing sequence of <= 2 loops / closures / "
                "spawn_blocking / block_in_place x 9 risky calls (6 192 sites, all emitted by TLC), 300 per file; "
                "every option setting of the owning linter (4 + 16 + 16), hyphen/underscore section spelling "
                "alternating; non-trivial = every (site, setting); distinct by (site, linter, setting)")
    chk.assumptions = ["no verdict for a clone behind a closure inside a loop and for a let-bound clone inside a loop "
                       "(`never used afterwards` is not defined across iterations)",
                       "nested fn items and #[tokio::test] are not generated (not documented)"]
    r = tlc.run("RustSafety", "mc/RustSafety.cfg", workers=1, timeout=900)
    chk.add_tlc("RustSafety sites + laws", r)
    if r.violation:
        raise MachineryError("RustSafety.tla invariants violated:\n" + r.stdout[-1500:])
    sites = tlc.parse_cases(r.stdout)
    chk.exhaustive = not quick
    chk.rng.shuffle(sites)
    if quick:
        sites = sites[:2400]
    jobs = []
    for i in range(0, len(sites), PER_FILE):
        jobs.append({"sites": sites[i:i + PER_FILE], "salt": i // PER_FILE, "quick": quick,
                     "linters": ["unwrap-abuse", "clone-abuse", "blocking-async"],
                     "root": str(scratch_root() / f"c17-{len(jobs)}")})
    log(f"C17: {len(sites)} sites in {len(jobs)} files")
    res = pool.run_jobs(job, jobs, nproc=NCPU, timeout=1800)
    records, meta = [], []
    for j, r_ in zip(jobs, res):
        if not r_.ok:
            raise MachineryError(f"C17 job failed: {r_.error}")
        v = r_.value
        if "error" in v:
            raise MachineryError(f"C17 run failed: {v['error']}")
        sites_l = [dict(mod=s["mod"], fn=s["fn"], inner=s["inner"], item=s["item"], line=l) for s, l in zip(j["sites"], v["where"])]
        for run_ in v["runs"]:
            records.append({"sites": sites_l, "opts": spec_opts(run_["linter"], run_["opts"]), "linter": run_["linter"],
                            "reported": run_["reported"]})
            meta.append((j, sites_l, run_))
    # twin files: same byte layout, test attributes present in one file only, linted in ONE run
    tsites = [s_ for s_ in sites if s_["item"] in ("unwrap", "expect") and (s_["mod"] != "none" or s_["fn"] != "plain")]
    tjobs = [{"sites": tsites[i:i + 60], "salt": i // 60, "root": str(scratch_root() / f"c17t-{i // 60}")}
             for i in range(0, min(len(tsites), 240 if quick else 1200), 60)]
    tres = pool.run_jobs(job_twin, tjobs, nproc=NCPU, timeout=900)
    uopts = {"allow_in_tests": True, "allow_expect": False}
    for tj, r_ in zip(tjobs, tres):
        if not r_.ok:
            raise MachineryError(f"C17 twin job failed: {r_.error}")
        v = r_.value
        if "error" in v:
            raise MachineryError(f"C17 twin run failed: {v['error']}")
        for n in v["names"]:
            plain = "plain" in n
            sl = [dict(mod=("plain" if plain and s_["mod"] != "none" else s_["mod"]),
                       fn=("plain" if plain and s_["fn"] in ("test", "testAttrs") else s_["fn"]),
                       inner=s_["inner"], item=s_["item"], line=l) for s_, l in zip(tj["sites"], v["where"])]
            records.append({"sites": sl, "opts": spec_opts("unwrap-abuse", uopts), "linter": "unwrap-abuse",
                            "reported": v["reported"][n]})
            meta.append((tj, sl, {"linter": "unwrap-abuse", "opts": uopts, "reported": v["reported"][n]}))
    verdicts = trace.validate(chk, "RustSafetyTrace", "mc/RustSafetyTrace.cfg", records, timeout=3000)
    loops, wraps = {"for", "while", "loop"}, {"spawn_blocking", "block_in_place"}

    def expected(s, o, linter):
        in_test = s["mod"] in ("cfgtest", "cfgtestOuter") or s["fn"] in ("test", "testAttrs")
        ex = in_test and o["allowInTests"]
        inner = s["inner"]
        in_loop = any(inner[i] in loops and all(x in loops for x in inner[i + 1:]) for i in range(len(inner)))
        it = s["item"]
        if it in ("unwrap", "unwrapChain2", "unwrapChainLines", "expectThenUnwrap"):
            return not ex
        if it == "expect":
            return not o["allowExpect"] and not ex
        if it in ("clonePlain", "cloneLetShadowed"):
            return in_loop and o["detectLoop"] and not ex
        if it == "cloneWhileCond":
            return o["detectLoop"] and not ex
        if it == "cloneChain":
            return ((in_loop and o["detectLoop"]) or o["detectChain"]) and not ex
        if it in ("cloneLetUnused", "cloneLetMentioned"):
            return ((in_loop and o["detectLoop"]) or o["detectUnnecessary"]) and not ex
        flag = {"blockFs": "detectFs", "blockFsUse": "detectFs", "blockSleep": "detectSleep", "blockNet": "detectNet"}[it]
        return (s["fn"] == "async" or "asyncfn" in inner) and not (set(inner) & wraps) and o[flag] and not ex

    own = {"unwrap": "unwrap-abuse", "expect": "unwrap-abuse", "unwrapChain2": "unwrap-abuse",
           "unwrapChainLines": "unwrap-abuse", "expectThenUnwrap": "unwrap-abuse", "clonePlain": "clone-abuse", "cloneLetShadowed": "clone-abuse", "cloneChain": "clone-abuse",
           "cloneLetUnused": "clone-abuse", "cloneLetMentioned": "clone-abuse", "cloneWhileCond": "clone-abuse"}
    for (j, sites_l, run_), (la, lb, at) in zip(meta, verdicts):
        o = spec_opts(run_["linter"], run_["opts"])
        rep = {r2["line"]: r2["n"] for r2 in run_["reported"]}
        ok_py = True
        lines = {s["line"] for s in sites_l}
        for ln in rep:
            if ln not in lines:
                ok_py = False
                chk.reject({"linter": run_["linter"], "clause": "WrongPosition"}, {"line": ln, "opts": run_["opts"]},
                           f"{run_['linter']}: finding at line {ln}, which is not the line of a planted call")
        for s in sites_l:
            if own.get(s["item"], "blocking-async") != run_["linter"]:
                continue
            c = {"mod": s["mod"], "fn": s["fn"], "inner": s["inner"], "item": s["item"]}
            uns = (run_["linter"] == "clone-abuse" and not any(s["inner"][i] in loops and all(x in loops for x in s["inner"][i + 1:]) for i in range(len(s["inner"]))) and bool(set(s["inner"]) & loops)) \
                or (s["item"] in ("cloneLetUnused", "cloneLetMentioned") and any(s["inner"][i] in loops and all(x in loops for x in s["inner"][i + 1:]) for i in range(len(s["inner"]))))
            chk.count({"site": c, "linter": run_["linter"], "opts": run_["opts"]}, nontrivial=not uns)
            if uns:
                continue
            e = 1 if expected(s, o, run_["linter"]) else 0
            if s["item"] == "cloneChain" and e:
                inl = any(s["inner"][i] in loops and all(x in loops for x in s["inner"][i + 1:]) for i in range(len(s["inner"])))
                e = (1 if ((inl and o["detectLoop"]) or o["detectChain"]) else 0) + (1 if (inl and o["detectLoop"]) else 0)
            if s["item"] in ("unwrapChain2", "unwrapChainLines") and e:
                e = 2
            if s["item"] == "expectThenUnwrap" and e:
                e = 1 + (0 if o["allowExpect"] else 1)
            n = rep.get(s["line"], 0)
            if n == e:
                continue
            ok_py = False
            clause = "Duplicate" if (n > e and e > 0) else ("Missed" if n < e else "Spurious")
            off = sorted(k for k, v2 in run_["opts"].items() if v2 is False)
            in_test = s["mod"] in ("cfgtest", "cfgtestOuter") or s["fn"] in ("test", "testAttrs")
            scope = "+".join(sorted({("loop" if x in loops else x) for x in s["inner"]})) or "flat"
            chk.reject({"linter": run_["linter"], "clause": clause, "item": s["item"], "in_test": in_test,
                        "loop": bool(set(s["inner"]) & loops), "off": "+".join(off)},
                       {"site": c, "opts": run_["opts"], "expected": e, "observed": n},
                       f"{run_['linter']} {clause}: {s['item']} in mod={s['mod']} fn={s['fn']} inner={s['inner']} "
                       f"with {run_['opts']}: expected {e}, reported {n}")
        if ok_py != (la == "ok"):
            raise MachineryError(f"C17: Python mirror and TLC disagree ({run_['linter']} {run_['opts']}): TLC={la}")
