"""X15 (beyond the listed properties) — the init-config presets generate the documented magic-numbers settings and these
settings have the documented effect.

spec/Presets.tla holds the documented allowed_numbers / max_small_integer per preset and the verdict they imply for a
probe of 13 numbers (as operand and as range() bound); for each preset `thailint init-config --preset p --non-interactive`
writes the file, `thailint magic-numbers` lints the probe with it, and PresetsTrace.tla judges the generated values and
the verdicts.
"""
from __future__ import annotations

from pathlib import Path

from .. import drive, pool, tlc, trace
from ..common import MachineryError, scratch_root


def job(j: dict) -> dict:
    import yaml
    c = j["case"]
    root = Path(j["root"])
    root.mkdir(parents=True)
    (root / ".git").mkdir()
    lines, at_op, at_rg = [], {}, {}
    for n in c["probe"]:
        lines += [f"def scale_{n}(value):", f"    return value * {n}", "", ""]
        at_op[len(lines) - 2] = n
        lines += [f"def loop_{n}(visit):", f"    for i in range({n}):", "        visit(i)", "", ""]
        at_rg[len(lines) - 3] = n
    (root / "probe.py").write_text("\n".join(lines) + "\n")
    r0 = drive.cli_subprocess(["init-config", "--non-interactive", "--preset", c["preset"]], cwd=root)
    cfgp = root / ".thailint.yaml"
    if r0["exit"] != 0 or not cfgp.exists():
        return {"error": f"init-config failed: exit {r0['exit']} {r0['stderr'][-200:]}"}
    sec = (yaml.safe_load(cfgp.read_text()) or {}).get("magic-numbers", {})
    drive.preload()
    r = drive.cli_json(["magic-numbers", "probe.py"], cwd=root)
    if r["violations"] is None:
        return {"error": f"no JSON (exit {r['exit']}): {r['stderr'][-300:]}"}
    ops = sorted({at_op[v["line"]] for v in r["violations"] if v["line"] in at_op})
    rgs = sorted({at_rg[v["line"]] for v in r["violations"] if v["line"] in at_rg})
    other = [v["line"] for v in r["violations"] if v["line"] not in at_op and v["line"] not in at_rg]
    return {"allowed": list(sec.get("allowed_numbers", [])), "maxSmall": int(sec.get("max_small_integer", -1)),
            "operands": ops, "ranges": rgs, "other": other}


def run(chk) -> None:
    chk.rule = "3 presets x a probe of 13 numbers, each as an operand and as a range() bound (all run)"
    chk.assumptions = ["docs/configuration.md 'Presets Explained' is the reference for the preset values"]
    res = tlc.run("Presets", "mc/Presets.cfg", workers=1, timeout=300)
    if res.violation or res.error:
        raise MachineryError("Presets.tla: laws fail or TLC error\n" + res.stdout[-2000:])
    chk.add_tlc("Presets", res)
    cases = tlc.parse_cases(res.stdout)
    chk.exhaustive = True
    jobs = [{"case": c, "root": str(scratch_root() / f"x15-{i}")} for i, c in enumerate(cases)]
    results = pool.run_jobs(job, jobs, nproc=3, timeout=600)
    records = []
    for j, r in zip(jobs, results):
        if not r.ok or "error" in r.value:
            raise MachineryError(f"X15 job failed: {r.error if not r.ok else r.value['error']}")
        if r.value["other"]:
            raise MachineryError(f"X15: finding outside the probe lines: {r.value['other']}")
        records.append({"preset": j["case"]["preset"], "allowed": r.value["allowed"], "maxSmall": r.value["maxSmall"],
                        "operands": r.value["operands"], "ranges": r.value["ranges"]})
    verdicts = trace.validate(chk, "PresetsTrace", "mc/PresetsTrace.cfg", records)
    for rec, j, (la, _lb, _at) in zip(records, jobs, verdicts):
        chk.count({"preset": rec["preset"]}, nontrivial=True)
        if la != "ok":
            chk.reject({"clause": la, "preset": rec["preset"]}, {"case": j["case"], "observed": rec},
                       f"{la}: preset {rec['preset']}: generated allowed={rec['allowed']} max_small={rec['maxSmall']}; reported "
                       f"operands {rec['operands']} (expected {sorted(j['case']['operands'])}), ranges {rec['ranges']} "
                       f"(expected {sorted(j['case']['ranges'])})")
