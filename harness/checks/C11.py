"""C11 — no input makes a linter crash, hang, or silently drop its analysis.

spec/Robust.tla enumerates fault sequences over seed files of each language (fault enumeration
driven by the model); the harness instantiates positions/bytes pseudo-randomly from VERIF_SEED,
places the damaged file among healthy siblings and runs the library API (all rules, H1 failure tap)
and a rotating sample of CLI commands; RobustTrace.tla judges every run.
"""
from __future__ import annotations

import json
import os
import random
import re
from collections import Counter
from pathlib import Path

from .. import drive, kit, pool, projects, tlc, trace
from ..common import NCPU, MachineryError, canon, log, scratch_root
from . import C15

SEED = {"python": ("py", C15.PY), "typescript": ("ts", C15.TS), "javascript": ("js", C15.TS.replace(": number[][]", "")
                                                                                 .replace(": number", "").replace(": string[]", "").replace(": string", "")),
        "rust": ("rs", C15.RS), "script": ("", "#!/usr/bin/env python3\n" + C15.PY)}
CMDS = sorted(kit.COMMANDS)
# multi-line import / export headers: constructs whose handling spans several lines (tokenizer state)
HEAD = {"py": "from typing import (\n    Any,\n    Dict,\n)\nfrom os import (\n    path,\n    sep,\n)\n\n",
        "": "",
        "ts": 'import {\n  join,\n  resolve,\n} from "path";\nexport function scaleBy(\n  factor: number,\n  value: number,\n): number {\n  return factor * value;\n}\n\n',
        "js": 'import {\n  join,\n  resolve,\n} from "path";\nexport function scaleBy(\n  factor,\n  value,\n) {\n  return factor * value;\n}\n\n',
        "rs": "use std::{\n    fs,\n    io,\n};\n\n"}
SEED = {k: (e, t.replace("\n", "\n" + HEAD["py"], 1) if e == "" else HEAD[e] + t) for k, (e, t) in SEED.items()}


def mutate(text: str, ext: str, faults: list[str], rng: random.Random, big: int) -> tuple[bytes, str]:
    data: bytes | None = None
    for op in faults:
        toks = [m.span() for m in re.finditer(r"\w+|[^\w\s]", text)]
        lines = text.split("\n")
        if op == "truncTiny":
            text = text[:2]
        elif op == "quoteFlood":
            i = rng.choice(toks)[0] if toks else 0
            text = text[:i] + '"' * (big * 10) + text[i:]
        elif op == "truncInParen":
            # cut inside a construct that is open across lines: right after a line following an unclosed ( or {
            opens = [m.end() for m in re.finditer(r"[({]\n[^\n]*\n", text)]
            text = text[:rng.choice(opens)] if opens else text[:max(1, len(text) // 3)]
        elif op.startswith("trunc"):
            frac = {"truncQuarter": 0.25, "truncHalf": 0.5, "truncMost": 0.9}[op]
            text = text[:max(1, int(len(text) * frac) + rng.randint(-3, 3))]
        elif op == "deleteToken" and toks:
            a, b = rng.choice(toks)
            text = text[:a] + text[b:]
        elif op == "dupToken" and toks:
            a, b = rng.choice(toks)
            text = text[:b] + " " + text[a:b] + text[b:]
        elif op == "dupLine":
            i = rng.randrange(len(lines))
            lines.insert(i, lines[i])
            text = "\n".join(lines)
        elif op in ("openParen", "closeParen", "openBrace", "closeBracket", "openQuote", "openTriple"):
            ch = {"openParen": "(", "closeParen": ")", "openBrace": "{", "closeBracket": "]", "openQuote": '"',
                  "openTriple": '"""' if ext == "py" else "`"}[op]
            i = rng.choice(toks)[0] if toks else 0
            text = text[:i] + ch + text[i:]
        elif op == "bom":
            text = "\ufeff" + text
        elif op == "crlf":
            text = text.replace("\n", "\r\n")
        elif op == "mixedEol":
            text = "".join(l + rng.choice(["\n", "\r\n", "\r"]) for l in lines)
        elif op == "latin1":
            data = (text.replace("starting", "d\u00e9marr\u00e9").replace("hi", "h\u00ef") + "\n# caf\u00e9\n").encode("latin-1", "replace")
        elif op == "invalidUtf8":
            b = bytearray(text.encode("utf-8"))
            for _ in range(3):
                b.insert(rng.randrange(len(b) + 1), rng.choice([0xff, 0xc3, 0xe2, 0x80]))
            data = bytes(b)
        elif op == "nulBytes":
            i = rng.randrange(len(text) + 1)
            text = text[:i] + "\x00\x00" + text[i:]
        elif op == "controlChars":
            i = rng.randrange(len(text) + 1)
            text = text[:i] + "\x0c\x1b[31m\x7f\u2028\u2029" + text[i:]
        elif op == "nestParens":
            n = big
            expr = "(" * n + "1" + ")" * n
            text += ("\nvalue = " + expr + "\n") if ext == "py" else ("\nconst value = " + expr + ";\n" if ext != "rs" else "\nfn deep() -> i32 { " + expr + " }\n")
        elif op == "nestBlocks":
            n = min(big, 400)
            if ext == "py":
                text += "\ndef deep_blocks(x):\n" + "".join("    " * (i + 1) + "if x:\n" for i in range(n)) + "    " * (n + 1) + "return x\n"
            elif ext == "rs":
                text += "\nfn deep_blocks(x: bool) -> bool {\n" + "if x {\n" * n + "return x;\n" + "}\n" * n + "x\n}\n"
            else:
                text += "\nfunction deepBlocks(x) {\n" + "if (x) {\n" * n + "return x;\n" + "}\n" * n + "}\n"
        elif op == "longLine":
            text += "\n" + ("x = " if ext == "py" else "// ") + "'" + "a" * (big * 50) + "'\n"
        elif op == "longExpr":
            n = big * 2
            expr = " + ".join(str(i % 7) for i in range(n))
            text += ("\ntotal = " + expr + "\n") if ext == "py" else ("\nconst total = " + expr + ";\n" if ext != "rs" else "\nfn total() -> i32 { " + expr + " }\n")
        elif op == "cutDirective":
            cm = "#" if ext in ("py", "") else "//"
            cut = f"{cm} thailint: ignore[stringly-typed.repeated-validation,magic-numbers.numeric-literal,nesting.excessive-de"
            i = rng.randrange(len(lines) + 1)
            lines.insert(i, cut)
            lines.append(f"value = 1  {cm} thailint: ignore-next-line[dry.duplicate-code, improper-logging.print-stateme")
            text = "\n".join(lines)
        elif op == "formatLiterals":
            # valid code whose string literals look like format / template syntax, compared with the same variable the
            # healthy siblings compare (so the literals end up in a cross-file finding's message)
            vals = ["{", "}", "{0}"]
            if ext in ("py", ""):
                text += "\n\ndef classify_marks(tok):\n" + "".join(f"    if tok == \"{v}\":\n        return {i + 1}\n" for i, v in enumerate(vals)) + "    return 0\n"
            elif ext == "rs":
                text += "\nfn classify_marks(tok: &str) -> i32 {\n" + "".join(f"    if tok == \"{v}\" {{ return {i + 1}; }}\n" for i, v in enumerate(vals)) + "    0\n}\n"
            else:
                text += "\nfunction classifyMarks(tok) {\n" + "".join(f"  if (tok === \"{v}\") {{ return {i + 1}; }}\n" for i, v in enumerate(vals)) + "  return 0;\n}\n"
        elif op == "hugeHex":
            lit = "0x" + "f" * 5000
            text += {"py": f"\nLIMIT = {lit}\n\n\ndef scaled(x):\n    return x * {lit}\n",
                     "rs": f"\nfn scaled(x: u128) -> u128 {{\n    x * {lit}\n}}\n"}.get(
                ext, f"\nconst LIMIT = {lit};\nfunction scaled(x) {{\n  return x * {lit};\n}}\n") if ext else \
                f"\nLIMIT = {lit}\n\n\ndef scaled(x):\n    return x * {lit}\n"
        elif op == "manyLines":
            text += "\n" * (big * 20)
        elif op == "empty":
            text = ""
        elif op == "whitespaceOnly":
            text = " \n\t\n   \n"
        elif op == "binary":
            data = bytes(rng.randrange(256) for _ in range(2048))
        elif op == "onlyComment":
            text = ("# just a comment\n" if ext == "py" else "// just a comment\n")
        elif op == "tabsAndSpaces":
            text = "\n".join(("\t" + l[4:]) if l.startswith("    ") and rng.random() < 0.5 else l for l in lines)
        if data is not None:
            break
    if data is None:
        data = text.encode("utf-8", "surrogatepass")
    name = "damaged" + (".weird" if "unknownExt" in faults else ("." + ext if ext else ""))
    return data, name


# healthy siblings made of module-level statements without any bracket: whatever state a damaged file leaves behind
# in a line-oriented scanner ("inside a parenthesised import", "inside a string") is not reset by their first lines
PLAIN_PY = "threshold@ = 10\ntotal = 0\ncount = 0\nfor value in VALUES:\n    if value > threshold@:\n        total += value\n" \
           "        count += 1\n    else:\n        total -= 1\nmean = total / count\nspread = mean * 2 + 41\n"
PLAIN_TS = "let total = 0;\nlet count = 0;\nfor (const value of VALUES) {\n  if (value > THRESHOLD) {\n    total += value;\n" \
           "    count += 1;\n  } else {\n    total -= 1;\n  }\n}\nconst mean = total / count;\nconst spread = mean * 2 + 41;\n"
PLAIN = {"g07_plain.py": "VALUES = [1, 2, 3]\n" + PLAIN_PY.replace("@", ""),
         "g08_plain.py": "VALUES = [4, 5, 6, 7]\nEXTRA = 1\n" + PLAIN_PY.replace("@", ""),
         "g09_plain.ts": "const VALUES = [1, 2, 3];\nconst THRESHOLD = 10;\n" + PLAIN_TS,
         "g10_plain.ts": "const VALUES = [4, 5, 6, 7];\nconst THRESHOLD = 20;\nconst EXTRA = 1;\n" + PLAIN_TS,
         # healthy files that compare one variable with string literals (cross-file stringly-typed evidence)
         "g11_tokens.py": "def classify_plain(tok):\n    if tok == \"begin\":\n        return 1\n    if tok == \"end\":\n        return 2\n    return 0\n",
         "g12_tokens.ts": "export function classifyPlain(tok: string): number {\n  if (tok === \"begin\") {\n    return 1;\n  }\n"
                          "  if (tok === \"end\") {\n    return 2;\n  }\n  return 0;\n}\n"}


def _bag(vs, root, skip, drop_rules: tuple = ()):
    out = []
    for v in vs:
        rel = drive.rel(str(v.file_path), root)
        if rel == skip or v.rule_id.startswith(drop_rules or ("\0",)):
            continue
        out.append(canon([v.rule_id, rel, v.line, v.column, v.message.replace(str(root) + "/", "")]))
    return sorted(out)


def job(j: dict) -> dict:
    drive.preload()
    from src.api import Linter
    rng = random.Random(j["rseed"])
    ext, text = SEED[j["seed"]]
    data, name = mutate(text, ext, j["faults"], rng, j["big"])
    base_root = Path(j["root"]) / "base"
    root = Path(j["root"]) / "proj"
    sib = dict(projects.build(6, [[1, 2]], "flat", offset=j["offset"]))
    sib.update(PLAIN)
    for r in (base_root, root):
        r.mkdir(parents=True)
        drive.write_tree(r, sib)
        (r / ".thailint.yaml").write_text(projects.BASE_CONFIG)
    (root / name).write_bytes(data)
    # a VALID file that compares the siblings' variable legitimately adds cross-file stringly-typed evidence: for that
    # fault the siblings are compared without the stringly-typed findings
    drop = ("stringly-typed.",) if "formatLiterals" in j["faults"] else ()
    os.chdir(base_root)
    baseline = _bag(Linter(project_root=str(base_root)).lint(str(base_root)), base_root, None, drop)
    os.chdir(root)
    faillog = str(Path(j["root"]) / "h1.ndjson")
    os.environ["THAILINT_VERIF_FAILLOG"] = faillog
    import src.linter_config.ignore as ig
    ig._CACHED_PARSER = None
    api_exc = None
    try:
        got = _bag(Linter(project_root=str(root)).lint(str(root)), root, name, drop)
    except BaseException as e:  # noqa: BLE001
        api_exc = f"{type(e).__name__}: {e}"[:300]
        got = None
    # the same files as an explicit list, the damaged file first / in the middle: the healthy files processed AFTER
    # it in the same process must not be affected either (nothing carried over from the damaged file)
    listed_same, listed_order = True, ""
    if got is not None:
        sibs = sorted(sib)
        rng.shuffle(sibs)
        # a bracket-free sibling of the damaged file's language comes right after it
        same = [x for x in sibs if "_plain" in x and x.endswith({"": ".py", "js": ".ts"}.get(ext, "." + ext))]
        sibs = [x for x in sibs if x not in same[:1]]
        k = 0 if rng.random() < 0.6 else rng.randrange(1, len(sibs))
        listed_order = "first" if k == 0 else "middle"
        sibs = sibs[:k] + same[:1] + sibs[k:]
        os.chdir(base_root)
        ref = _bag(Linter(project_root=str(base_root)).orchestrator.lint_files([base_root / x for x in sibs]), base_root, None, drop)
        os.chdir(root)
        order = sibs[:k] + [name] + sibs[k:]
        ig._CACHED_PARSER = None
        try:
            lst = _bag(Linter(project_root=str(root)).orchestrator.lint_files([root / x for x in order]), root, name, drop)
            listed_same = lst == ref
        except BaseException as e:  # noqa: BLE001
            api_exc = f"{type(e).__name__}: {e}"[:300]
    exits = []
    details = []
    for cmd in j["cmds"]:
        r = drive.cli([cmd, "--format", "json", "."], cwd=root)
        exits.append(r["exit"] if r["exit"] is not None else -9)
        if r["exit"] not in (0, 1):
            details.append({"cmd": cmd, "exit": r["exit"], "stderr": (r["stderr"] or "")[-300:], "exc": r["exc"]})
    fails = []
    if os.path.exists(faillog):
        seen = set()
        for line in open(faillog, encoding="utf-8", errors="replace"):
            try:
                f = json.loads(line)
            except json.JSONDecodeError:
                continue
            k = (f.get("rule"), f.get("exc_type"), os.path.basename(f.get("file", "")))
            if k not in seen:
                seen.add(k)
                fails.append(f)
    return {"exits": exits + ([2] if api_exc else []), "fails": fails, "api_exc": api_exc, "details": details,
            "siblings_same": got == baseline if got is not None else True, "listed_same": listed_same,
            "listed_order": listed_order, "name": name, "size": len(data)}


def job_slow(j: dict) -> dict:
    """A healthy seed file with a token flood appended after its last line: parsing takes seconds, and every finding
    of the healthy part must still be reported (same run: a healthy copy linted right after it keeps its own)."""
    drive.preload()
    from src.api import Linter
    ext, text = SEED[j["seed"]]
    root = Path(j["root"])
    root.mkdir(parents=True)
    (root / ".thailint.yaml").write_text(projects.BASE_CONFIG)
    (root / ".git").mkdir()
    flood = {"quote": '"', "backtick": "`", "paren": "("}[j["token"]] * j["n"]
    tail = {"ts": f"const flooded = {flood};\n", "js": f"const flooded = {flood};\n"}[ext]
    (root / f"a_slow.{ext}").write_text(text + tail)
    (root / f"b_healthy.{ext}").write_text(text)
    os.chdir(root)
    nseed = text.count("\n")
    out = {}
    import time
    t0 = time.time()
    faillog = str(root.parent / (root.name + ".h1.ndjson"))
    os.environ["THAILINT_VERIF_FAILLOG"] = faillog
    vs = Linter(project_root=str(root)).lint(str(root))
    os.environ.pop("THAILINT_VERIF_FAILLOG", None)
    out["seconds"] = round(time.time() - t0, 1)
    out["fails"] = []
    if os.path.exists(faillog):
        seen = set()
        for line in open(faillog, encoding="utf-8", errors="replace"):
            try:
                f = json.loads(line)
            except json.JSONDecodeError:
                continue
            k = (f.get("rule"), f.get("exc_type"))
            if k not in seen:
                seen.add(k)
                out["fails"].append(f)
    for name in (f"a_slow.{ext}", f"b_healthy.{ext}"):
        out[name] = sorted(canon([v.rule_id, v.line, v.message]) for v in vs
                           if drive.rel(str(v.file_path), root) == name and v.line <= nseed
                           and not v.rule_id.startswith(("file-header", "file-placement", "dry.", "stringly")))
    ref_root = root / "ref"
    ref_root.mkdir()
    (ref_root / ".thailint.yaml").write_text(projects.BASE_CONFIG)
    (ref_root / f"b_healthy.{ext}").write_text(text)
    os.chdir(ref_root)
    import src.linter_config.ignore as ig
    ig._CACHED_PARSER = None
    ref = Linter(project_root=str(ref_root)).lint(str(ref_root))
    out["ref"] = sorted(canon([v.rule_id, v.line, v.message]) for v in ref
                        if not v.rule_id.startswith(("file-header", "file-placement", "dry.", "stringly")))
    return out


def run(chk) -> None:
    quick = chk.tier == "quick"
    chk.level = "fault_enumeration"
    drive.preload()
    chk.rule = ("fault sequences (36 operations: truncation, token deletion/duplication, bracket/quote imbalance, "
                "encoding damage, nesting/length blow-up, empty/binary/unknown type) of length <= MaxFaults over "
                "seed files of 4 languages plus an extensionless shebang script, enumerated by TLC from Robust.tla; concrete positions/bytes drawn from "
                "VERIF_SEED; each damaged file linted among 12 healthy siblings through Linter.lint (all rules, H1 "
                "tap) and 3 rotating CLI commands; non-trivial = every case (each damages a valid file); distinct "
                "by (seed, fault sequence)")
    chk.assumptions = ["fault enumeration: TLC enumerates fault sequences, the byte-level instantiation is "
                       "pseudo-random and recorded in the replay file", "hang = no result within 300 s"]
    r = tlc.run("Robust", "mc/Robust.cfg" if quick else "mc/Robust3.cfg", workers=1, timeout=900)
    chk.add_tlc("Robust fault sequences", r)
    cases = tlc.parse_cases(r.stdout)
    if quick:
        singles = [c for c in cases if len(c["faults"]) == 1]
        pairs = [c for c in cases if len(c["faults"]) == 2]
        chk.rng.shuffle(pairs)
        cases = singles + pairs[:280]
    else:
        triples = [c for c in cases if len(c["faults"]) == 3]
        chk.rng.shuffle(triples)
        cases = [c for c in cases if len(c["faults"]) < 3] + triples[:6000]
    jobs = []
    for i, c in enumerate(cases):
        jobs.append({"seed": c["seed"], "faults": c["faults"], "rseed": f"{chk.seed}:{i}", "offset": i % 13,
                     "big": 300 if quick else (300 if i % 5 else 3000),
                     "cmds": [CMDS[(i + k * 7) % len(CMDS)] for k in range(3)],
                     "root": str(scratch_root() / f"c11-{i}")})
    # token floods long enough that one tree-sitter parse of the file takes a second or more: slow inputs must still
    # be analysed (findings of the healthy part kept), and the healthy file linted after them keeps its findings
    sjobs = [{"seed": lang, "token": tok, "n": n, "root": str(scratch_root() / f"c11-slow-{lang}-{tok}-{n}")}
             for lang in ("typescript", "javascript")
             for tok, n in ((("quote", 10000),) if quick else (("quote", 10000), ("backtick", 10000), ("quote", 16000)))]
    log(f"C11: {len(jobs)} damaged files")
    sres = pool.run_jobs(job_slow, sjobs, nproc=NCPU, timeout=600)
    for sj, r_ in zip(sjobs, sres):
        case = {"seed": sj["seed"], "faults": [f"append-{sj['token']}-flood-{sj['n']}"]}
        chk.count(case, nontrivial=True)
        if not r_.ok:
            if r_.hang:
                chk.reject({"clause": "Hang", "lang": sj["seed"], "faults": case["faults"]}, sj,
                           f"no result within 600 s for {case}")
                continue
            raise MachineryError(f"C11 slow job failed: {r_.error}")
        v = r_.value
        ext = SEED[sj["seed"]][0]
        if not v["ref"]:
            raise MachineryError("C11 slow job: the healthy seed has no findings (vacuous)")
        for f in v["fails"]:
            chk.reject({"clause": "RuleFailed", "rule": f.get("rule"), "exc_type": f.get("exc_type"), "lang": sj["seed"],
                        "where": f.get("where"), "deep": sj["token"] != "quote"}, dict(sj, fail=f),
                       f"{f.get('rule')} failed with {f.get('exc_type')}: {str(f.get('exc_msg'))[:120]} on {sj['seed']} "
                       f"after {case['faults']}")
        for name in ((f"a_slow.{ext}", f"b_healthy.{ext}") if sj["token"] == "quote" else (f"b_healthy.{ext}",)):
            # (a flood of unbalanced template-string delimiters makes tree-sitter re-interpret the whole file: for that
            # token only the healthy neighbour is judged)
            lost = [x for x in v["ref"] if x not in v[name]]
            if lost:
                chk.reject({"clause": "AnalysisDropped", "lang": sj["seed"], "file": name.split(".")[0],
                            "rule": json.loads(lost[0])[0]}, dict(sj, lost=lost[:5], seconds=v["seconds"]),
                           f"{sj['seed']}: {name} lost {len(lost)} finding(s) of its healthy part, e.g. {lost[0]} "
                           f"(flood of {sj['n']} {sj['token']} characters appended; run took {v['seconds']} s)")
    res = pool.run_jobs(job, jobs, nproc=NCPU, timeout=300)
    records, meta = [], []
    for j, r_ in zip(jobs, res):
        case = {"seed": j["seed"], "faults": j["faults"], "rseed": j["rseed"], "cmds": j["cmds"], "big": j["big"]}
        chk.count({"seed": j["seed"], "faults": j["faults"]}, nontrivial=True)
        if not r_.ok:
            if r_.hang:
                records.append({"hang": True, "exits": [], "failed": 0, "siblings_same": True})
                meta.append((case, {"fails": [], "details": [], "api_exc": None}))
                continue
            raise MachineryError(f"C11 job failed: {r_.error}")
        v = r_.value
        records.append({"hang": False, "exits": v["exits"], "failed": len(v["fails"]),
                        "siblings_same": v["siblings_same"] and v["listed_same"]})
        meta.append((case, v))
    verdicts = trace.validate(chk, "RobustTrace", "mc/RobustTrace.cfg", records)
    for (case, v), (la, lb, at) in zip(meta, verdicts):
        if la == "ok":
            continue
        lang = case["seed"]
        # "deep": the generated nesting reaches Python's recursion limit (1000 frames, some of them the caller's): the blow-up
        # size 3000 of the thorough tier, or 300..400 nested blocks in a brace language (three tree levels per block)
        deep = (case["big"] >= 3000 and bool({"nestParens", "longExpr", "nestBlocks"} & set(case["faults"]))) \
            or ("nestBlocks" in case["faults"] and lang not in ("python", "script"))
        flood = case["big"] >= 3000 and "quoteFlood" in case["faults"]
        if la == "RuleFailed":
            for f in v["fails"]:
                chk.reject({"clause": la, "rule": f.get("rule"), "exc_type": f.get("exc_type"), "lang": lang,
                            "where": f.get("where"), "deep": deep},
                           dict(case, fail=f), f"{f.get('rule')} failed with {f.get('exc_type')}: "
                           f"{str(f.get('exc_msg'))[:120]} on {lang} after {case['faults']}")
        elif la == "Crash":
            d = (v["details"] or [{}])[0]
            chk.reject({"clause": la, "lang": lang, "api": bool(v["api_exc"]),
                        "exc": (v["api_exc"] or d.get("exc") or "")[:60]},
                       dict(case, details=v["details"], api_exc=v["api_exc"]),
                       f"run aborted on {lang} after {case['faults']}: {v['api_exc'] or d}")
        else:
            key = {"clause": la, "lang": lang, "faults": "30000-quote flood" if flood else case["faults"]}
            if la == "SiblingsChanged" and v.get("siblings_same") and not v.get("listed_same", True):
                key["order"] = v["listed_order"]      # only the explicit-list run with the damaged file early shows it
            chk.reject(key, case, f"{la} on {lang} after {case['faults']} (big={case['big']}"
                       + (f", damaged file {v.get('listed_order')} in an explicit list" if "order" in key else "") + ")")
