"""C09 — results do not depend on how paths are spelled or where the project lives.

spec/Paths.tla enumerates placements (parent-directory name x working directory x spelling);
every placement is executed for every linter command and compared with the reference placement;
PathsTrace.tla judges each record.
"""
from __future__ import annotations

import json
import os
from collections import Counter
from pathlib import Path

from .. import drive, kit, pool, tlc, trace
from ..common import NCPU, MachineryError, canon, log, scratch_root

CONFIG = """dry:
  enabled: true
  min_duplicate_lines: 3
magic-numbers:
  ignore:
    - "legacy/"
file-placement:
  directories:
    docs_dir:
      deny:
        - pattern: ".*\\\\.py$"
          reason: "no python in docs_dir"
"""

EXTRA = {
    "tests/test_sample.ts": 'export function t(q: number): number {\n  return q * 41;\n}\n',
    "tests/it.rs": 'fn it() -> i32 {\n    let v: Option<i32> = Some(1);\n    v.unwrap()\n}\n',
    "examples/demo.rs": 'fn demo() -> i32 {\n    let v: Option<i32> = Some(1);\n    v.unwrap()\n}\n',
    "build/gen.py": "def built(q):\n    return q * 43\n",
    "gen/skipme.py": "def skipped(q):\n    return q * 47\n",
    "gen/deep/kept.py": "def kept(q):\n    return q * 53\n",
    "legacy/old.py": "def old(q):\n    return q * 59\n",
    "docs_dir/misplaced.py": "def misplaced(q):\n    return q\n",
    "srcx/lib.rs": 'fn lib() -> i32 {\n    let v: Option<i32> = Some(1);\n    v.unwrap()\n}\n',
    "srcx/comp.ts": 'export function c(q: number): number {\n  return q * 61;\n}\n',
    "srcx/skip_one.py": "def skip_one(q):\n    return q * 67\n",
    ".thailintignore": "# anchored patterns\ngen/*.py\nsrcx/skip_*.py\n",
}


def layout(top: Path, parent: str) -> Path:
    proj = top / parent / "proj"
    proj.mkdir(parents=True, exist_ok=True)
    drive.write_tree(proj, kit.FILES)
    drive.write_tree(proj, EXTRA)
    (proj / ".thailint.yaml").write_text(CONFIG)
    (proj / "sub").mkdir(exist_ok=True)
    (top / "else").mkdir(exist_ok=True)
    (top / "co" / ".git").mkdir(parents=True, exist_ok=True)
    (top / "co" / "work").mkdir(exist_ok=True)
    # another project: its root carries its own ignore file, which hides every source file of ITS tree
    (top / "other" / ".git").mkdir(parents=True, exist_ok=True)
    (top / "other" / ".thailintignore").write_text("*.py\n*.ts\n*.rs\n*.js\n")
    (top / "other" / ".thailint.yaml").write_text("nesting:\n  enabled: false\n")
    return proj


def placement(top: Path, parent: str, cwd: str, spelling: str) -> tuple[Path, str]:
    proj = top / parent / "proj"
    cw = {"root": proj, "parent": top / parent, "inside": proj / "sub", "else": top / "else",
          "checkout": top / "co" / "work", "other": top / "other"}[cwd]
    if spelling == "subdirAbs":
        tgt = str(proj / "srcx")
    elif spelling == "absolute":
        tgt = str(proj)
    elif spelling == "dot":
        tgt = "."
    elif spelling == "dotslash":
        tgt = "./" if cwd == "root" else "./proj"
    elif spelling == "relative":
        tgt = "proj"
    elif spelling == "trailing":
        tgt = "proj/"
    elif spelling == "mixedAbsRel":
        rel = {"parent": "proj/sub", "else": f"../{parent}/proj/sub", "checkout": f"../../{parent}/proj/sub"}[cwd]
        tgt = [str(proj), rel]
    else:  # dotdot
        tgt = {"root": f"../../{parent}/proj", "inside": "..", "else": f"../{parent}/proj",
               "checkout": f"../../{parent}/proj", "other": f"../{parent}/proj"}[cwd]
    return cw, tgt


def run_all(proj: Path, cw: Path, tgt: str, cmds: list[str], flags: list[str] | None = None) -> dict:
    out = {}
    for cmd in cmds:
        os.chdir(cw)
        r = drive.cli_json([cmd] + (flags or []) + (tgt if isinstance(tgt, list) else [tgt]))
        bag = None
        if r["violations"] is not None:
            bag = []
            for v in r["violations"]:
                fp = v["file_path"]
                if not os.path.isabs(fp) and not os.path.exists(os.path.join(cw, fp)) \
                        and os.path.exists(os.path.join(proj, fp)):
                    rel = os.path.normpath(fp)      # reported project-relative (spelling only)
                else:
                    rel = drive.rel(os.path.join(cw, fp), proj)
                msg = v["message"].replace(str(proj) + "/", "").replace(str(proj), "")
                bag.append(canon([v["rule_id"], rel, v["line"], v["column"],
                                  _strip_spelling(msg, tgt[0] if isinstance(tgt, list) else tgt)]))
        out[cmd] = {"exit": r["exit"], "bag": bag, "stderr": r["stderr"][-200:]}
    return out


def _strip_spelling(msg: str, tgt: str) -> str:
    """Messages may embed the path as spelled (DRY 'Also found in'); drop the spelled prefix."""
    t = tgt.rstrip("/")
    pres = [t + "/", "./"]
    if t.startswith("./"):
        pres.insert(0, t[2:] + "/")      # "./proj" may be echoed as "proj/..."
    for pre in pres:
        msg = msg.replace(" " + pre, " ").replace(":" + pre, ":")
    return msg


def job(j: dict) -> dict:
    drive.preload()
    top = Path(j["top"])
    proj = layout(top, j["parent"])
    cw, tgt = placement(top, j["parent"], j["cwd"], j["spelling"])
    return run_all(proj, cw, tgt, j["cmds"], j.get("flags"))


def run(chk) -> None:
    quick = chk.tier == "quick"
    drive.preload()
    chk.rule = ("placements = (parent-directory name in {10 always-excluded names, 7 test/ignore marker names, "
                "3 plain names incl. the project's own name}) x working directory x path spelling, all valid "
                "combinations enumerated by TLC from Paths.tla, x every linter command; reference = parent x, "
                "cwd project root, absolute; non-trivial = placement differs from the reference and the "
                "reference run has findings; distinct by (placement, command)")
    chk.assumptions = ["paths inside messages are normalised by removing the project prefix as spelled",
                       "the project is marked by .thailint.yaml only; a foreign checkout with .git sits beside it"]
    r = tlc.run("Paths", "mc/Paths.cfg", workers=1, timeout=300)
    chk.add_tlc("Paths placements", r)
    if r.violation:
        raise MachineryError("Paths.tla invariants violated:\n" + r.stdout[-1500:])
    pin = tlc.run("Paths", "mc/Paths_pinned.cfg", workers=1, timeout=300)
    chk.add_tlc("Paths with the pinned commit's whole-path tests (non-vacuity)", pin)
    if not pin.violation:
        raise MachineryError("vacuity: PlacementIndependentB holds with whole-path tests")
    cases = tlc.parse_cases(r.stdout)
    chk.exhaustive = not quick
    cmds = sorted(kit.COMMANDS)
    if quick:
        keep = []
        for i, c in enumerate(cases):
            if c["spelling"] in ("absolute", "dot", "subdirAbs") or (i % 4 == 0) or c["parent"] in ("proj", "build", "tests"):
                keep.append(c)
        cases = keep
    jobs = [{"parent": "x", "cwd": "root", "spelling": "absolute", "cmds": cmds},
            {"parent": "x", "cwd": "root", "spelling": "subdirAbs", "cmds": cmds}]       # one reference per target
    jobs += [dict(c, cmds=cmds) for c in cases]
    # the same placements through the CLI's other execution path (`--parallel`: the project has more than 16 source
    # files, so the process pool is used): where the project lives must not matter there either
    PAR_CMDS = ["dry", "stringly-typed", "magic-numbers", "nesting", "unwrap-abuse"]
    for parent in (["tests", "build", "x"] if quick else ["tests", "build", "x", "test", "fixtures", "venv", "dist", "proj", "examples"]):
        for cwd, spelling in (("root", "absolute"), ("parent", "relative"), ("else", "dotdot")) if not quick or parent != "x" \
                else (("else", "dotdot"),):
            jobs.append({"parent": parent, "cwd": cwd, "spelling": spelling, "cmds": PAR_CMDS, "flags": ["--parallel"]})
    for i, j in enumerate(jobs):
        j["top"] = str(scratch_root() / f"c09-{i}")
    log(f"C09: {len(jobs)} placements x {len(cmds)} commands")
    res = pool.run_jobs(job, jobs, nproc=NCPU, timeout=900)
    for j, r_ in zip(jobs, res):
        if not r_.ok:
            raise MachineryError(f"C09 job failed: {r_.error}")
    refs = {"project": res[0].value, "subdir": res[1].value}
    for ref in refs.values():
        for cmd in cmds:
            if ref[cmd]["bag"] is None:
                raise MachineryError(f"C09 reference run of {cmd} failed: {ref[cmd]}")
    records, meta = [], []
    for j, r_ in zip(jobs[2:], res[2:]):
        ref = refs["subdir" if j["spelling"] == "subdirAbs" else "project"]
        for cmd in j["cmds"]:
            o = r_.value[cmd]
            rb = Counter(ref[cmd]["bag"])
            ob = Counter(o["bag"] or [])
            missing, extra = rb - ob, ob - rb
            records.append({"parent": j["parent"], "cwd": j["cwd"], "spelling": j["spelling"],
                            "exit": o["exit"] if o["exit"] is not None else -9, "ref_exit": ref[cmd]["exit"],
                            "missing": sum(missing.values()), "extra": sum(extra.values())})
            meta.append((j, cmd, missing, extra, o, ref))
    verdicts = trace.validate(chk, "PathsTrace", "mc/PathsTrace.cfg", records)
    excluded = {"build", "dist", "venv", ".venv", "node_modules", "__pycache__", "htmlcov", ".tox",
                "pkg.egg-info"}
    for (j, cmd, missing, extra, o, ref), (la, lb, at) in zip(meta, verdicts):
        case = {"parent": j["parent"], "cwd": j["cwd"], "spelling": j["spelling"], "cmd": cmd}
        if j.get("flags"):
            case["flags"] = j["flags"]
        chk.count(case, nontrivial=bool(ref[cmd]["bag"]))
        if la == "ok":
            continue
        pclass = "excluded" if j["parent"] in excluded else ("plain" if j["parent"] in ("x", "proj", "with space") else "marker:" + j["parent"])
        sample = [json.loads(k) for k in list((missing + extra))[:2]]
        rules = sorted({s[0] for s in sample})
        chk.reject({"clause": la, "cmd": cmd, "parent_class": pclass, "cwd": j["cwd"], "spelling": j["spelling"],
                    "rules": rules, **({"flags": " ".join(j["flags"])} if j.get("flags") else {})},
                   dict(case, sample=sample, stderr=o["stderr"]),
                   f"{la}: thailint {cmd} with parent '{j['parent']}' cwd={j['cwd']} spelling={j['spelling']}: "
                   f"{sum(missing.values())} missing / {sum(extra.values())} extra, e.g. {sample[:1]}")
