"""X09 (beyond the listed properties) — the collection-pipeline rule and its min_continues threshold.

spec/Pipeline.tla enumerates loops (0..4 leading `if ...: continue` guards; the documented non-matches: else
branch, walrus condition) x min_continues 1..4 x two positions; each is rendered, linted with `thailint pipeline`,
and PipelineTrace.tla judges the finding at the `for` line and the number of conditions the message states.
"""
from __future__ import annotations

import re
from pathlib import Path

from .. import drive, pool, tlc, trace
from ..common import NCPU, MachineryError, log, scratch_root

CONDS = ["not item.is_valid()", "item.is_hidden()", "is_ignored(item)", "item.size == 0"]


def render(c: dict, k0: int) -> tuple[str, int]:
    pre = ["class Holder:", "    def run(self, items):"] if c["nested"] else ["def run(items):"]
    ind = "        " if c["nested"] else "    "
    lines = list(pre)
    header = len(lines) + 1
    lines.append(ind + "for item in items:")
    for g in range(c["k"]):
        if c["variant"] == "walrus":
            lines += [ind + "    if not (result := validate(item)):", ind + "        continue"]
        else:
            lines += [ind + f"    if {CONDS[(g + k0) % len(CONDS)]}:", ind + "        continue"]
        if c["variant"] == "withElse":
            lines += [ind + "    else:", ind + "        special_process(item)"]
    lines.append(ind + "    process(item)")
    lines.append(ind + "return items")
    return "\n".join(lines) + "\n", header


def job(j: dict) -> dict:
    import yaml
    drive.preload()
    root = Path(j["root"])
    root.mkdir(parents=True)
    (root / ".git").mkdir()
    (root / "pkg").mkdir()
    out = []
    for k, c in enumerate(j["cases"]):
        src, header = render(c, k)
        name = f"pkg/probe_{k}.py"
        (root / name).write_text(src)
        key = "collection-pipeline" if k % 2 == 0 else "collection_pipeline"
        (root / ".thailint.yaml").write_text(yaml.safe_dump({key: {"min_continues": c["minContinues"]}}))
        r = drive.cli_json(["pipeline", name], cwd=root)
        if r["violations"] is None:
            return {"error": f"no JSON (exit {r['exit']}): {r['stderr'][-300:]}"}
        mine = [v for v in r["violations"] if v["rule_id"].startswith("collection-pipeline") and v["line"] == header]
        stated = 0
        if mine:
            m = re.search(r"has (\d+) filter conditions", mine[0]["message"])
            stated = int(m.group(1)) if m else (1 if "embedded filtering" in mine[0]["message"] else -1)
        other = [[v["rule_id"], v["line"]] for v in r["violations"] if v not in mine]
        out.append({"n": len(mine), "stated": stated, "other": other, "source": src})
    return {"runs": out}


def run(chk) -> None:
    drive.preload()
    chk.rule = ("loops with 0..4 leading if/continue guards (plain; single guard with else; single guard with a walrus "
                "condition) x min_continues 1..4 x module-level function / method, emitted by TLC (56 cases)")
    chk.assumptions = []
    res = tlc.run("Pipeline", "mc/Pipeline.cfg", workers=2, timeout=600)
    if res.violation or res.error:
        raise MachineryError("Pipeline.tla: laws fail or TLC error\n" + res.stdout[-2000:])
    chk.add_tlc("Pipeline", res)
    cases = tlc.parse_cases(res.stdout)
    chk.exhaustive = True
    jobs = [{"cases": cases[i:i + 8], "root": str(scratch_root() / f"x09-{i}")} for i in range(0, len(cases), 8)]
    log(f"X09: {len(cases)} cases")
    results = pool.run_jobs(job, jobs, nproc=NCPU, timeout=600)
    records, meta = [], []
    for j, r in zip(jobs, results):
        if not r.ok or "error" in r.value:
            raise MachineryError(f"X09 job failed: {r.error if not r.ok else r.value['error']}")
        for c, run_ in zip(j["cases"], r.value["runs"]):
            records.append(dict(c, n=run_["n"], stated=run_["stated"], other=len(run_["other"])))
            meta.append((c, run_))
    verdicts = trace.validate(chk, "PipelineTrace", "mc/PipelineTrace.cfg", records)
    for (c, run_), (la, _lb, _at) in zip(meta, verdicts):
        chk.count(c, nontrivial=True)
        if la == "ok":
            continue
        chk.reject(dict(c, clause=la), {"case": c, "observed": run_},
                   f"{la}: {c}: n={run_['n']} stated={run_['stated']} other={run_['other'][:2]}")
