"""C07 — --parallel reports exactly what the sequential run reports.

spec/Parallel.tla is model-checked (design), TLC-generated schedules are replayed into the real
lint_files_parallel through a schedule-controlled pool, real-pool executions are recorded with
the H2 event tap, and all executions are validated by TLC against spec/trace/ParallelTrace.tla.
"""
from __future__ import annotations

import json
import os
from collections import Counter
from pathlib import Path

from .. import drive, kit, pool, projects, tlc
from ..common import NCPU, MachineryError, canon, log, mkscratch, scratch_root

CROSS_RULES = ("dry.", "stringly-typed.")


def cross_for(n: int) -> list[list[int]]:
    if n >= 6:
        return [[1, 2, 5], [3, n]]      # a group of three: findings list two OTHER files
    if n >= 4:
        return [[1, 2], [3, n]]
    if n == 3:
        return [[1, 3]]
    if n == 2:
        return [[1, 2]]
    return []


def cfg_text(n: int, k: int, cross, invariants, view=True, fixed=True) -> str:
    cs = "{" + ", ".join("{" + ", ".join(map(str, g)) + "}" for g in cross) + "}"
    lines = ["SPECIFICATION Spec", "CONSTANTS", f"  NFiles = {n}", f"  K = {k}", f"  Cross = {cs}",
             f"  ParentEvidencePass = {'TRUE' if fixed else 'FALSE'}"]
    if view:
        lines.append("VIEW view")
    lines += [f"INVARIANT {i}" for i in invariants]
    return "\n".join(lines) + "\n"


def gen_schedules(chk, n: int, k: int, simulate: int | None, seed: int) -> list[list]:
    d = mkscratch("c07cfg")
    cfg = d / f"emit_{n}_{k}.cfg"
    cfg.write_text(cfg_text(n, k, cross_for(n), ["Emit", "SameAsSequential"], view=False))
    if simulate:
        r = tlc.run("Parallel", str(cfg), workers=1, simulate=f"num={simulate}", depth=4 * n + 8,
                    seed=seed, timeout=300)
    else:
        r = tlc.run("Parallel", str(cfg), workers=1, timeout=600)
        chk.add_tlc(f"Parallel emit N={n} K={k}", r)
    if r.violation:
        raise MachineryError("Parallel.tla: SameAsSequential violated in the model itself")
    scheds, seen = [], set()
    for t in r.tuples("SCHED"):
        s = t[2]
        key = canon(s)
        if key not in seen:
            seen.add(key)
            scheds.append(s)
    return scheds


# ---- executed in forked children --------------------------------------------------------------
# the base configuration plus a file-placement rule that reports the first two files (a rule that names files by their
# path inside the project)
C07_CONFIG = projects.BASE_CONFIG + "file-placement:\n  global_deny:\n    - pattern: \".*(f01_|f02_|m01/|m02/).*\"\n      reason: \"probe\"\n"


def _vbag(vs, root):
    out = []
    for v in vs:
        d = drive.viol_dict(v)
        # every field counts: whether the path is reported absolute or project-relative is kept next to the normalised path
        d["path_is_absolute"] = os.path.isabs(d["file_path"])
        d["file_path"] = drive.rel(d["file_path"], root)
        d["message"] = d["message"].replace(str(root) + "/", "")
        if d.get("suggestion"):
            d["suggestion"] = d["suggestion"].replace(str(root) + "/", "")
        out.append(d)
    return out


def _read_events(path):
    evs = []
    if os.path.exists(path):
        for line in open(path, encoding="utf-8"):
            try:
                evs.append(json.loads(line))
            except json.JSONDecodeError:
                pass
    return evs


def _twins(n: int, cross: list) -> dict:
    """Two files outside the cross-file groups hold several findings of one rule on ONE line with the SAME message (they
    differ in the column only): a run reports every one of them, in either mode (Parallel.tla: the result is the
    multiset union of the per-file results, not a set keyed by rule/file/line/message)."""
    free = [f for f in range(1, n + 1) if not any(f in g for g in cross)]
    return dict(zip(free[:2], ("pytwins", "tstwins")))


def job_api(job: dict) -> dict:
    """Sequential vs parallel through the orchestrator API (controlled or real pool)."""
    drive.preload()
    import src.orchestrator.core as core
    from src.cli.utils import setup_base_orchestrator

    from ..sched_pool import SchedPool

    root = Path(job["root"])
    root.mkdir(parents=True, exist_ok=True)
    files = projects.build(job["n"], job["cross"], job.get("layout", "flat"), force=_twins(job["n"], job["cross"]))
    drive.write_tree(root, dict(files))
    (root / ".thailint.yaml").write_text(C07_CONFIG)
    os.chdir(root)
    paths = [root / rel for rel, _ in files]
    trace = str(root.parent / (root.name + ".h2"))
    fail = str(root.parent / (root.name + ".h1"))

    orch = setup_base_orchestrator(paths, None, False, None)
    seq = _vbag(orch.lint_files(list(paths)), root)

    os.environ["THAILINT_VERIF_TRACE"] = trace
    os.environ["THAILINT_VERIF_FAILLOG"] = fail
    orch2 = setup_base_orchestrator(paths, None, False, None)
    sp = None
    if job["pool"] == "sched":
        sp = SchedPool(job["sched"], job["k"])
        core.ProcessPoolExecutor = sp.Executor
        core.as_completed = sp.as_completed
        if hasattr(core, "wait"):              # a dispatcher that drains with concurrent.futures.wait()
            core.wait = sp.wait
    try:
        par = _vbag(orch2.lint_files_parallel(list(paths), max_workers=job["k"]), root)
    finally:
        if sp is not None:
            sp.shutdown()
    os.environ.pop("THAILINT_VERIF_TRACE")
    os.environ.pop("THAILINT_VERIF_FAILLOG")
    return {"seq": seq, "par": par, "events": _read_events(trace), "fails": _read_events(fail),
            "paths": [str(p) for p in paths], "parent_pid": os.getpid(),
            "max_workers_seen": sp.max_workers_seen if sp else None}


def job_cli(job: dict) -> dict:
    """`thailint <cmd> [--parallel] <targets>` as real subprocesses."""
    root = Path(job["root"])
    root.mkdir(parents=True, exist_ok=True)
    files = projects.build(job["n"], job["cross"], job.get("layout", "flat"), force=_twins(job["n"], job["cross"]))
    drive.write_tree(root, dict(files))
    extra = []
    if job.get("explicit_config"):
        # the settings arrive through --config <file outside the discovered locations>; the project's own file says
        # something else (the --config file must win in both modes, in the parent and in every worker)
        (root / ".thailint.yaml").write_text(C07_CONFIG + "nesting:\n  max_nesting_depth: 9\n")
        (root.parent / "alt.yaml").write_text(projects.ALT_CONFIG)
        extra = ["--config", str(root.parent / "alt.yaml")]
    else:
        (root / ".thailint.yaml").write_text(C07_CONFIG)
    rels = [rel for rel, _ in files]
    if job["target"] == "dir":
        targets = ["."]
    elif job["target"] == "files":
        targets = rels
    elif job["target"] == "dirs":
        # several directory arguments: one run per argument in either mode (cross-file evidence does not span arguments)
        targets = sorted({r.split("/")[0] for r in rels if "/" in r})
    else:   # "mixed": the files of the first half named one by one (one run), then the directories of the second half
        half = len(rels) // 2
        targets = rels[:half] + sorted({r.split("/")[0] for r in rels[half:] if "/" in r})
    out = {}
    for mode in ("seq", "par"):
        argv = [job["cmd"], "--format", "json"] + extra + (["--parallel"] if mode == "par" else []) + targets
        r = drive.cli_subprocess(argv, cwd=root)
        viol, total = drive.parse_json_violations(r["stdout"])
        if viol is not None:
            for v in viol:
                v["file_path"] = drive.rel(os.path.join(root, v["file_path"]), root)
                v["message"] = v["message"].replace(str(root) + "/", "")
        out[mode] = {"exit": r["exit"], "viol": viol, "stderr": r["stderr"][-500:]}
    return out


# ---- projection to the abstract state of Parallel.tla -------------------------------------------
def is_cross(rule_id: str) -> bool:
    return rule_id.startswith(CROSS_RULES)


def abstract_result(job, seq, par, fileno) -> dict:
    """pf: files whose per-file findings agree; x: cross groups whose findings agree; extra/missing."""
    cs, cp = Counter(canon(v) for v in seq), Counter(canon(v) for v in par)
    missing = [json.loads(k) for k in (cs - cp).elements()]
    extra = [json.loads(k) for k in (cp - cs).elements()]
    bad_pf, bad_x = set(), set()
    for v in missing + extra:
        f = fileno.get(v["file_path"], 0)
        if is_cross(v["rule_id"]):
            for gi, g in enumerate(job["cross"]):
                if f in g:
                    bad_x.add(gi)
            if not any(f in g for g in job["cross"]):
                bad_pf.add(f)
        else:
            bad_pf.add(f)
    return {"pf": [f for f in range(1, job["n"] + 1) if f not in bad_pf],
            "x": [g for gi, g in enumerate(job["cross"]) if gi not in bad_x],
            "extra": len(extra), "missing": missing, "extra_v": extra}


def linearize(events, job, out) -> list[dict]:
    """Causally consistent linearisation of the per-process H2 event streams.

    Per-process order (seq) is kept; a worker's take/finish events are placed before the parent's
    collect of that file.  No state is guessed: every emitted event is one that was logged.
    """
    fileno = {p: i + 1 for i, p in enumerate(out["paths"])}
    parent = out["parent_pid"]
    par_ev = sorted((e for e in events if e["pid"] == parent), key=lambda e: e["seq"])
    wpids = []
    wev: dict[int, list] = {}
    for e in sorted((e for e in events if e["pid"] != parent), key=lambda e: (e["pid"], e["seq"])):
        if e["ev"] in ("worker", "worker_done"):
            wev.setdefault(e["pid"], []).append(e)
    # worker numbering: controlled pool -> dictated numbers; real pool -> order of first collect
    cursor = {pid: 0 for pid in wev}
    owner = {}
    for pid, evs in wev.items():
        for e in evs:
            if e["ev"] == "worker":
                owner[fileno.get(e["path"], 0)] = pid
    wnum: dict[int, int] = {}
    lin: list[dict] = []
    submitted: list[int] = []

    def flush_until(pid, f):
        evs = wev[pid]
        while cursor[pid] < len(evs):
            e = evs[cursor[pid]]
            cursor[pid] += 1
            w = wnum.setdefault(pid, len(wnum) + 1)
            ff = fileno.get(e["path"], 0)
            lin.append({"ev": "take" if e["ev"] == "worker" else "finish", "w": w, "f": ff})
            if e["ev"] == "worker_done" and ff == f:
                return

    seq_mode = False
    for e in par_ev:
        if e["ev"] == "parallel":
            lin.append({"ev": "decide", "mode": e["mode"], "w": e["workers"], "f": e["nfiles"]})
            seq_mode = e["mode"] == "fallback"
        elif e["ev"] == "submit":
            submitted = [fileno.get(p, 0) for p in e["paths"]]
            lin.append({"ev": "submit", "w": 0, "f": len(submitted)})
        elif e["ev"] == "done":
            f = submitted[e["i"]] if e["i"] < len(submitted) else 0
            if f in owner:
                flush_until(owner[f], f)
            lin.append({"ev": "collect", "w": 0, "f": f})
        elif e["ev"] == "check" and not seq_mode and submitted and e["rule"] == "dry.duplicate-code":
            lin.append({"ev": "evidence", "w": 0, "f": fileno.get(e["path"], 0)})
        elif e["ev"] == "lint_file" and seq_mode:
            lin.append({"ev": "seqstep", "w": 0, "f": fileno.get(e["path"], 0)})
        elif e["ev"] == "finalize_end":
            for pid in wev:
                flush_until(pid, -1)
            lin.append({"ev": "finalize", "w": 0, "f": 0})
    return lin


def run(chk) -> None:
    quick = chk.tier == "quick"
    drive.preload()
    chk.rule = ("cases = (file count N, worker count K, schedule) with schedules enumerated/simulated by "
                "TLC from Parallel.tla and replayed through a schedule-controlled pool, plus real-pool "
                "API runs for K=1..16 and CLI --parallel runs per command; non-trivial = the pool path "
                "is taken or N is within 1 of the 2K fallback threshold; distinct by (N,K,schedule)")
    chk.assumptions = [
        "controlled pool shares _lint_file_worker, pickling and the collection loop with the real "
        "path but not ProcessPoolExecutor internals; real-pool schedules are sampled, not enumerated",
        "cross-file findings = rules dry.* and stringly-typed.*",
    ]
    # 1. design-level model checking
    zero = None
    for cfg in ("mc/Parallel.cfg", "mc/Parallel_fallback.cfg"):
        r = tlc.run("Parallel", cfg, workers=min(8, NCPU), coverage=True, timeout=600)
        chk.add_tlc(f"Parallel design {cfg}", r)
        if r.violation:
            raise MachineryError(f"Parallel.tla design invariants violated ({cfg}):\n" + r.stdout[-1500:])
        z = set(tlc.coverage_zero_actions(r.stdout))
        zero = z if zero is None else zero & z
    if zero:
        raise MachineryError(f"vacuity: actions never taken in Parallel design models: {sorted(zero)}")
    pred = tlc.run("Parallel", "mc/Parallel_nopass.cfg", workers=1, timeout=300)
    chk.add_tlc("Parallel without the parent's evidence pass (non-vacuity)", pred)
    if not pred.violation:
        raise MachineryError("vacuity: SameAsSequential is not violated when the evidence pass is removed")
    chk.extra["model_without_evidence_pass_violates_SameAsSequential"] = True

    # 2. schedules
    jobs = []
    exhaustive = [(2, 1), (3, 1)] if quick else [(2, 1), (3, 1), (4, 1)]
    for n, k in exhaustive:
        for s in gen_schedules(chk, n, k, None, chk.seed):
            jobs.append({"n": n, "k": k, "sched": s, "pool": "sched"})
    sims = [(4, 2, 40), (5, 2, 20), (6, 3, 12), (8, 4, 8), (12, 3, 6), (7, 1, 4), (11, 2, 6), (17, 8, 4), (33, 16, 3)] if quick else \
        [(4, 2, 1500), (5, 2, 300), (6, 3, 150), (7, 3, 100), (8, 4, 100), (12, 3, 60), (12, 6, 60), (17, 8, 40), (24, 12, 30),
         (33, 16, 25), (40, 16, 25), (40, 5, 25), (7, 1, 20), (11, 2, 40), (23, 4, 20)]
    for n, k, num in sims:
        for s in gen_schedules(chk, n, k, num, chk.seed + n * 100 + k)[:num]:
            jobs.append({"n": n, "k": k, "sched": s, "pool": "sched"})
    if quick and len(jobs) > 330:
        head = [j for j in jobs if j["n"] <= 3]
        rest = [j for j in jobs if j["n"] > 3]
        chk.rng.shuffle(rest)
        jobs = head + rest[:300]
    # fallback side and real pool, K = 1..16
    ks = [1, 2, 3, 5, 8, 16] if quick else list(range(1, 17))
    for k in ks:
        for n in sorted({max(1, 2 * k - 1), 2 * k, 2 * k + 1} | ({40} if not quick else set()) | ({4 * k + 3} if k <= 3 else set())):   # several files per worker: a dispatcher may not hand everything out at once
            jobs.append({"n": n, "k": k, "sched": [], "pool": "real"})
    for i, j in enumerate(jobs):
        j["cross"] = cross_for(j["n"])
        j["layout"] = "samename" if i % 2 else "flat"
        j["root"] = str(scratch_root() / f"c07-{i}" / "proj")
    log(f"C07: {len(jobs)} API jobs")
    results = pool.run_jobs(job_api, jobs, nproc=max(2, NCPU // 2), timeout=180)

    records = []
    unbindable: list[str] = []
    for job, res in zip(jobs, results):
        case = {"n": job["n"], "k": job["k"], "pool": job["pool"], "sched": job["sched"],
                "layout": job["layout"]}
        if not res.ok:
            if res.hang:
                chk.reject({"path": job["pool"], "clause": "Hang"}, case, "parallel run did not terminate")
                continue
            raise MachineryError(f"C07 job failed: {res.error}")
        out = res.value
        fileno = {drive.rel(p, Path(job["root"])): i + 1 for i, p in enumerate(out["paths"])}
        abst = abstract_result(job, out["seq"], out["par"], fileno)
        pooled = job["n"] >= 2 * job["k"]
        chk.count(case, nontrivial=pooled or abs(job["n"] - 2 * job["k"]) <= 1)
        try:
            lin = linearize(out["events"], job, out)
        except (KeyError, TypeError, IndexError, AttributeError, ValueError) as ex:
            # the tap's events no longer have the shape Parallel.tla's actions are bound to (a task is no longer
            # one file, an event lost a field ...): the trace cannot be judged.  The comparison of the results
            # with the sequential run below does not depend on the trace and goes on.
            unbindable.append(f"{type(ex).__name__}: {ex} (N={job['n']} K={job['k']} {job['pool']})")
            lin = None
        if lin is not None:
            records.append({"n": job["n"], "k": job["k"], "cross": job["cross"], "events": lin,
                            "pf": abst["pf"], "x": abst["x"], "extra": abst["extra"],
                            "fails": len(out["fails"]), "jobi": len(records)})
        path = "pool" if pooled else "fallback"
        for v in abst["missing"]:
            chk.reject({"path": path, "clause": "Missing", "rule": v["rule_id"]},
                       dict(case, kind="api", missing=v), f"--parallel lost {v['rule_id']} at {v['file_path']}:{v['line']}")
        for v in abst["extra_v"]:
            chk.reject({"path": path, "clause": "Extra", "rule": v["rule_id"]},
                       dict(case, kind="api", extra=v), f"--parallel added {v['rule_id']} at {v['file_path']}:{v['line']}")
        for f in out["fails"]:
            chk.reject({"path": path, "clause": "WorkerFailure", "rule": f.get("rule")},
                       dict(case, kind="api", fail=f), f"swallowed failure in parallel run: {f}")

    # 3. trace validation by TLC, grouped by constants
    if records:
        validate(chk, records)

    # 4. CLI level: exit code and output, every command
    cjobs = []
    cmds = sorted(kit.COMMANDS) if not quick else ["dry", "stringly-typed", "nesting", "magic-numbers",
                                                   "unwrap-abuse", "perf", "improper-logging"]
    for cmd in cmds:
        for n, target in ([(20, "dir"), (20, "files"), (20, "dirs"), (20, "mixed")] if quick else
                          [(20, "dir"), (20, "files"), (15, "dir"), (41, "files"), (20, "dirs"), (34, "dirs"), (20, "mixed"), (40, "mixed")]):
            cjobs.append({"cmd": cmd, "n": n, "cross": cross_for(n), "target": target,
                          "layout": "samename" if (len(cjobs) % 2 or target in ("dirs", "mixed")) else "flat",
                          "explicit_config": target in ("dir", "files") and len(cjobs) % 3 == 0,
                          "root": str(scratch_root() / f"c07cli-{len(cjobs)}" / "proj")})
    cres = pool.run_jobs(job_cli, cjobs, nproc=max(2, NCPU // 2), timeout=300)
    for job, res in zip(cjobs, cres):
        case = {"cmd": job["cmd"], "n": job["n"], "target": job["target"], "kind": "cli"}
        if job.get("explicit_config"):
            case["explicit_config"] = True
        if not res.ok:
            raise MachineryError(f"C07 cli job failed: {res.error}")
        o = res.value
        chk.count(case, nontrivial=True)
        ncpu_workers = min(8, os.cpu_count() or 1)
        path = "pool" if job["n"] >= 2 * ncpu_workers else "fallback"
        if o["seq"]["viol"] is None or o["par"]["viol"] is None:
            if o["seq"]["exit"] != o["par"]["exit"]:
                chk.reject({"path": path, "clause": "Exit", "cmd": job["cmd"]}, case,
                           f"exit {o['seq']['exit']} sequential vs {o['par']['exit']} parallel")
            continue
        cs = Counter(canon(v) for v in o["seq"]["viol"])
        cp = Counter(canon(v) for v in o["par"]["viol"])
        for k_, _ in (cs - cp).items():
            v = json.loads(k_)
            chk.reject({"path": path, "clause": "Missing", "rule": v["rule_id"]}, dict(case, missing=v),
                       f"thailint {job['cmd']} --parallel lost {v['rule_id']} at {v['file_path']}:{v['line']}")
        for k_, _ in (cp - cs).items():
            v = json.loads(k_)
            chk.reject({"path": path, "clause": "Extra", "rule": v["rule_id"]}, dict(case, extra=v),
                       f"thailint {job['cmd']} --parallel added {v['rule_id']}")
        if o["seq"]["exit"] != o["par"]["exit"]:
            only_cross = all(is_cross(json.loads(k_)["rule_id"]) for k_ in (cs - cp)) and not (cp - cs)
            chk.reject({"path": path, "clause": "Exit", "cmd": job["cmd"],
                        "because": "cross-file-lost" if only_cross and (cs - cp) else "other"}, case,
                       f"thailint {job['cmd']}: exit {o['seq']['exit']} sequential vs {o['par']['exit']} --parallel")
    if unbindable:
        chk.notes.append(f"{len(unbindable)} run(s) produced events that cannot be bound to Parallel.tla: {unbindable[0]}")
        if not chk.rejections:
            raise MachineryError(f"C07: the H2 events of {len(unbindable)} run(s) cannot be bound to Parallel.tla's "
                                 f"actions and the results agree with the sequential run: {unbindable[0]}")


def validate(chk, records) -> None:
    groups: dict[str, list] = {}
    for r in records:
        groups.setdefault(canon([r["n"], r["k"], r["cross"]]), []).append(r)
    d = mkscratch("c07trace")
    gjobs = []
    for gi, (key, recs) in enumerate(sorted(groups.items())):
        n, k, cross = json.loads(key)
        tf = d / f"g{gi}.json"
        tf.write_text(json.dumps(recs))
        cfg = d / f"g{gi}.cfg"
        cfg.write_text("SPECIFICATION TraceSpec\nCONSTANTS\n" + "\n".join(
            cfg_text(n, k, cross, [], view=False).splitlines()[2:6]) + "\nINVARIANT TraceInv\n")
        gjobs.append({"cfg": str(cfg), "trace": str(tf), "n": len(recs), "key": key})

    def runone(g):
        r = tlc.run("ParallelTrace", g["cfg"], workers=1, env={"TRACE_FILE": g["trace"]},
                    timeout=900)
        return {"verdicts": r.tuples("VERDICT"), "generated": r.generated, "distinct": r.distinct,
                "violation": r.violation, "tail": r.stdout[-1500:]}

    res = pool.run_jobs(runone, gjobs, nproc=NCPU, timeout=1000)
    for g, r in zip(gjobs, res):
        if not r.ok:
            raise MachineryError(f"ParallelTrace failed: {r.error}")
        v = r.value
        if v["violation"]:
            raise MachineryError("ParallelTrace: unexpected TLC violation\n" + v["tail"])
        chk.states += v["distinct"]
        chk.transitions += v["generated"]
        if len(v["verdicts"]) != g["n"]:
            raise MachineryError(f"ParallelTrace: {len(v['verdicts'])} verdicts for {g['n']} traces\n" + v["tail"])
        recs = groups[g["key"]]
        for tid, layer_a, layer_b, at in v["verdicts"]:
            chk.traces += 1
            rec = recs[tid - 1]
            case = {"n": rec["n"], "k": rec["k"], "kind": "trace", "events": rec["events"]}
            if layer_b != "ok":
                chk.notes.append(f"MODEL-DRIFT n={rec['n']} k={rec['k']} clause={layer_b} at event {at}")
                chk.extra["model_drift"] = chk.extra.get("model_drift", 0) + 1
            if layer_a != "ok":
                pooled = rec["n"] >= 2 * rec["k"]
                chk.reject({"path": "pool" if pooled else "fallback", "clause": "Trace:" + layer_a},
                           case, f"TLC rejected observed execution: {layer_a}")
