"""C14 — a run lints exactly the non-excluded, non-ignored files under the given paths.

spec/Collect.tla enumerates (ignore-pattern set, target, recursive flag) over a 210-file universe
and computes the files that must / must not be linted (layer A) and what the coded walk does
(layer B).  Each case is executed with the real CLI; the orchestrator's lint decisions (H2 tap)
and the reported files are judged by TLC (CollectTrace.tla).
"""
from __future__ import annotations

import json
import os
from pathlib import Path

from .. import drive, pool, tlc, trace
from ..common import NCPU, MachineryError, canon, log, scratch_root

CONTENT = {
    "py": "def f(q):\n    return q * 41\n",
    "ts": "export function f(q: number): number {\n  return q * 41;\n}\n",
    "txt": "41 is just text\n",
    "pyc": b"\x00\x01compiled\xff",
    "so": b"\x7fELF\x00\x00",
}


def fpath(f: dict) -> str:
    return "/".join(list(f["dirs"]) + [f["stem"] + "." + f["ext"]])


def frec(path: str) -> dict | None:
    parts = path.split("/")
    name = parts[-1]
    if "." not in name.lstrip("."):
        return None
    stem, ext = name.rsplit(".", 1)
    return {"dirs": parts[:-1], "stem": stem, "ext": ext}


def pattern_text(p: dict) -> str:
    k = p["kind"]
    if k == "dir":
        return p["dirs"][0] + "/"
    if k == "dirpath":
        return "/".join(p["dirs"]) + "/"
    if k == "ext":
        return "*." + p["ext"]
    if k == "ext2":
        return "*." + p["stem"] + "." + p["ext"]
    if k == "exact":
        return "/".join(list(p["dirs"]) + [p["stem"] + "." + p["ext"]])
    if k == "tree":
        return "/".join(p["dirs"]) + "/**"
    return "**/" + p["stem"] + "." + p["ext"]


def carrier_files(carrier: str, pats: list[str]) -> dict:
    if carrier == "thailintignore":
        return {".thailintignore": "# patterns\n" + "\n".join(pats) + "\n"}
    if carrier == "yaml":
        return {".thailint.yaml": "ignore:\n" + "".join(f'  - "{p}"\n' for p in pats) if pats else "ignore: []\n"}
    if carrier == "json":
        return {".thailint.json": json.dumps({"ignore": pats})}
    if carrier == "pyproject":
        return {"pyproject.toml": "[tool.thailint]\nignore = " + json.dumps(pats) + "\n"}
    raise ValueError(carrier)


def job(j: dict) -> dict:
    drive.preload()
    root = Path(j["root"])
    root.mkdir(parents=True, exist_ok=True)
    files = {fpath(f): CONTENT[f["ext"]] for f in j["universe"]}
    drive.write_tree(root, files)
    drive.write_tree(root, carrier_files(j["carrier"], [pattern_text(p) for p in j["pats"]]))
    tracef = str(root.parent / "h2.ndjson")
    os.environ["THAILINT_VERIF_TRACE"] = tracef
    targets = sorted("/".join(t) or "." for t in j["target"])          # a target is a set of path arguments
    if j.get("dotdot"):
        # the same directories spelled through a sibling: sub/../src (what is linted does not depend on the spelling)
        targets = [("sub/../" + t) if t != "." else "sub/.." for t in targets]
    argv = ["magic-numbers"] + ([] if j["recursive"] else ["--no-recursive"]) + targets + j["explicit"]
    r = drive.cli_json(argv, cwd=root)
    linted = set()
    if os.path.exists(tracef):
        for line in open(tracef, encoding="utf-8"):
            e = json.loads(line)
            if e["ev"] == "lint_file" and e["decision"] == "linted":
                linted.add(drive.rel(e["path"], root))
    reported = None
    if r["violations"] is not None:
        reported = sorted({drive.rel(v["file_path"], root) for v in r["violations"]})
    return {"linted": sorted(linted), "reported": reported, "exit": r["exit"], "stderr": r["stderr"][-400:]}


def run(chk) -> None:
    quick = chk.tier == "quick"
    drive.preload()
    chk.rule = ("cases = (ignore-pattern set of size <= 2 over 13 documented pattern forms, target in {root, "
                "src, gen}, recursive flag) enumerated exhaustively by TLC over a 210-file universe with every "
                "always-excluded directory name at depth 1 and 2, compiled artefacts and near-miss names; each "
                "case x carrier (.thailintignore / yaml ignore; json and pyproject sampled) x explicit naming "
                "of must-skip files; non-trivial = at least one pattern or a non-root target or non-recursive")
    chk.assumptions = ["pattern meaning per docs/configuration.md: dir/ = any directory component of that name, "
                       "*.ext any depth, exact relative path, dir/** subtree, **/name at depth >= 1 (depth 0 "
                       "unspecified -> no verdict)", "symlink-free trees"]
    r = tlc.run("Collect", "mc/Collect.cfg", workers=1, timeout=900)
    chk.add_tlc("Collect exhaustive (<=2 patterns x 3 targets x recursive)", r)
    if r.violation:
        raise MachineryError("Collect.tla invariants violated:\n" + r.stdout[-1500:])
    pred = tlc.run("Collect", "mc/Collect_BvsA.cfg", workers=1, timeout=300)
    chk.add_tlc("Collect with the pinned commit's prefix fallback (non-vacuity)", pred)
    if not pred.violation:
        raise MachineryError("vacuity: BEqualsA holds even with DirPatternPrefixFallback")
    chk.extra["model_with_prefix_fallback_violates_BEqualsA"] = True
    cases = tlc.parse_cases(r.stdout)
    chk.exhaustive = True
    universe = None
    jobs = []
    carriers = ["thailintignore", "yaml"]
    for i, c in enumerate(cases):
        if universe is None:
            universe = None
        carrier = carriers[i % 2]
        variants = [carrier] if quick else carriers
        if (not quick) or i % 7 == 0:
            variants = variants + ["json", "pyproject"]
        for car in variants:
            ts_ = [list(t) for t in c["target"]]
            skip = sorted(fpath(f) for f in c["must_skip"]
                          if f["ext"] in ("py", "ts") and any(list(f["dirs"][:len(t)]) == t
                                                             and (c["recursive"] or list(f["dirs"]) == t) for t in ts_))   # in scope, skipped for cause
            explicit = []
            if (i + len(car)) % 3 == 0 and skip:
                explicit = [skip[(i * 7) % len(skip)], skip[(i * 13 + 5) % len(skip)]]
            jobs.append({"pats": c["pats"], "recursive": c["recursive"], "target": c["target"],
                         "carrier": car, "explicit": explicit, "case": i, "dotdot": (i + len(car)) % 4 == 1,
                         "root": str(scratch_root() / f"c14-{len(jobs)}" / "proj")})
    # the universe is the union of must_lint/must_skip/dont-care of the root recursive no-pattern case
    base = next(c for c in cases if not c["pats"] and c["recursive"] and [list(t) for t in c["target"]] == [[]])
    uni = base["must_lint"] + base["must_skip"]
    if len(uni) != 210:
        raise MachineryError(f"Collect: universe has {len(uni)} files, expected 210")
    for j in jobs:
        j["universe"] = uni
    log(f"C14: {len(cases)} cases, {len(jobs)} runs")
    res = pool.run_jobs(job, jobs, nproc=NCPU, timeout=300)
    records, meta = [], []
    for j, r_ in zip(jobs, res):
        if not r_.ok:
            raise MachineryError(f"C14 job failed: {r_.error}")
        o = r_.value
        case = {"pats": [pattern_text(p) for p in j["pats"]], "target": " ".join(sorted("/".join(t) or "." for t in j["target"])),
                "recursive": j["recursive"], "carrier": j["carrier"], "explicit": j["explicit"], "dotdot": j.get("dotdot", False)}
        if o["reported"] is None:
            chk.reject({"clause": "NoOutput", "carrier": j["carrier"]}, case,
                       f"magic-numbers produced no JSON (exit {o['exit']}): {o['stderr'][-200:]}")
            continue
        chk.count(case, nontrivial=bool(j["pats"]) or case["target"] != "." or not j["recursive"])
        lin = [frec(p) for p in o["linted"]]
        records.append({"pats": j["pats"], "target": j["target"], "recursive": j["recursive"],
                        "linted": [x for x in lin if x and x["ext"] in CONTENT],
                        "reported": [frec(p) for p in o["reported"] if frec(p)]})
        meta.append((j, case, o))
    verdicts = trace.validate(chk, "CollectTrace", "mc/CollectTrace.cfg", records, timeout=2100)
    for (j, case, o), (la, lb, at) in zip(meta, verdicts):
        c = cases[j["case"]]
        if lb != "ok":
            chk.extra["model_drift"] = chk.extra.get("model_drift", 0) + 1
            if len(chk.notes) < 5:
                chk.notes.append(f"MODEL-DRIFT C14 {lb}: {case}")
        if la == "ok":
            continue
        ms = {fpath(f) for f in c["must_skip"]}
        ml = {fpath(f) for f in c["must_lint"]}
        seen = set(o["linted"]) | set(o["reported"])
        if la == "Visited":
            bad = sorted(seen & ms)
        elif la == "Missed":
            bad = sorted(ml - set(o["linted"]))
        else:
            bad = sorted({p for p in ml if p.endswith((".py", ".ts"))} - set(o["reported"]))
        for b in bad[:4]:
            f = frec(b)
            reason = classify(f, j)
            chk.reject({"clause": la, "reason": reason, "carrier": j["carrier"]},
                       dict(case, file=b, kind="case", case_index=j["case"]),
                       f"{la}: {b} with patterns {case['pats']} target {case['target']} "
                       f"recursive={case['recursive']} via {j['carrier']}")


def classify(f: dict, j: dict) -> str:
    excl = {"__pycache__", "node_modules", ".git", ".venv", "venv", ".tox", "dist", "build", "htmlcov",
            "pkg.egg-info"}
    if any(d in excl for d in f["dirs"]):
        return "excluded-dir-depth-%d" % (min(i for i, d in enumerate(f["dirs"]) if d in excl) + 1)
    if f["ext"] in ("pyc", "so"):
        return "compiled"
    if fpath(f) in j["explicit"]:
        return "explicit"
    kinds = sorted({p["kind"] for p in j["pats"]})
    return "pattern:" + "+".join(kinds) if kinds else "plain"
