"""X11 (beyond the listed properties) — DRY's duplicate-constant detection (exact, word-set and edit-distance
matching; which declarations count as constants).

spec/Constants.tla enumerates projects of three files, each declaring at most one of nine name/form combinations,
x detect_duplicate_constants on/off x min_constant_occurrences 2..3 x language; each project is linted with
`thailint dry` and ConstantsTrace.tla judges the number of findings at every file's declaration line.
"""
from __future__ import annotations

from pathlib import Path

from .. import drive, pool, tlc, trace
from ..common import NCPU, MachineryError, canon, log, scratch_root

PY = {"apiTimeout": ["API_TIMEOUT = 30"], "lower": ["api_timeout = 30"], "private": ["_API_TIMEOUT = 30"],
      "nested": ["class Settings:", "    API_TIMEOUT = 30"], "timeoutApi": ["TIMEOUT_API = 60"],
      "apiTimeouts": ["API_TIMEOUTS = 45"], "max": ["MAX = 100"], "min": ["MIN = 0"]}
TS = {"apiTimeout": ["export const API_TIMEOUT = 30;"], "lower": ["const apiTimeout = 30;"], "private": ["let API_TIMEOUT = 30;"],
      "nested": ["var API_TIMEOUT = 30;"], "timeoutApi": ["const TIMEOUT_API = 60;"], "apiTimeouts": ["const API_TIMEOUTS = 45;"],
      "max": ["const MAX = 100;"], "min": ["const MIN = 0;"]}


def job(j: dict) -> dict:
    import yaml
    drive.preload()
    root = Path(j["root"])
    root.mkdir(parents=True)
    out = []
    for k, c in enumerate(j["cases"]):
        d = root / f"c{k}"
        (d / "pkg").mkdir(parents=True)
        (d / ".git").mkdir()
        table, ext, cm = (PY, "py", "#") if c["lang"] == "python" else (TS, "ts", "//")
        names, lines_at = [], []
        for f, decl in enumerate(c["decl"], start=1):
            name = f"pkg/mod_{'abc'[f - 1]}.{ext}"
            body = [f"{cm} module {f} of project {k}", ""]
            at = 0
            if decl != "none":
                at = len(body) + len(table[decl])          # the constant is on the last line of its snippet
                body += table[decl]
            body += ["", f"{'def' if ext == 'py' else 'function'} helper_{f}_{k}{'():' if ext == 'py' else '() {'}",
                     ("    return None" if ext == "py" else "  return null;\n}")]
            (d / name).write_text("\n".join(body) + "\n")
            names.append(name)
            lines_at.append(at)
        sec = {"enabled": True, "detect_duplicate_constants": c["detect"], "min_constant_occurrences": c["minOcc"]}
        (d / ".thailint.yaml").write_text(yaml.safe_dump({"dry": sec}))
        r = drive.cli_json(["dry", "pkg"] if k % 2 == 0 else ["dry", *names], cwd=d)
        if r["violations"] is None:
            return {"error": f"no JSON (exit {r['exit']}): {r['stderr'][-300:]}"}
        obs = [0] * len(names)
        other = []
        for v in r["violations"]:
            rel = drive.rel(v["file_path"], d)
            if rel in names and lines_at[names.index(rel)] and v["line"] == lines_at[names.index(rel)]:
                obs[names.index(rel)] += 1
            else:
                other.append([rel, v["line"], v["message"][:70]])
        out.append({"obs": obs, "other": other})
    return {"runs": out}


def run(chk) -> None:
    quick = chk.tier == "quick"
    drive.preload()
    chk.rule = ("projects of three files, each declaring none or one of API_TIMEOUT (module-level constant / not ALL_CAPS / "
                "private or let / class-level or var), TIMEOUT_API, API_TIMEOUTS, MAX, MIN (projects mixing TIMEOUT_API with "
                "API_TIMEOUTS excluded) x detect_duplicate_constants x min_constant_occurrences 2..3 x Python / TypeScript, "
                "emitted by TLC; quick samples 1 200")
    chk.assumptions = ["each file declares at most one constant, on its own line, so a finding is attributed by (file, line)"]
    res = tlc.run("Constants", "mc/Constants.cfg", workers=4, timeout=600)
    if res.violation or res.error:
        raise MachineryError("Constants.tla: laws fail or TLC error\n" + res.stdout[-2000:])
    chk.add_tlc("Constants", res)
    cases = tlc.parse_cases(res.stdout)
    cases.sort(key=canon)
    chk.rng.shuffle(cases)
    if quick:
        cases = cases[:1200]
    chk.exhaustive = not quick
    jobs = [{"cases": cases[i:i + 20], "root": str(scratch_root() / f"x11-{i}")} for i in range(0, len(cases), 20)]
    log(f"X11: {len(cases)} cases")
    results = pool.run_jobs(job, jobs, nproc=NCPU, timeout=600)
    records, meta = [], []
    for j, r in zip(jobs, results):
        if not r.ok or "error" in r.value:
            raise MachineryError(f"X11 job failed: {r.error if not r.ok else r.value['error']}")
        for c, run_ in zip(j["cases"], r.value["runs"]):
            records.append({"decl": c["decl"], "detect": c["detect"], "minOcc": c["minOcc"], "obs": run_["obs"],
                            "other": len(run_["other"])})
            meta.append((c, run_))
    if sum(1 for r in records if any(r["obs"])) * 20 < len(records):
        raise MachineryError("X11: almost nothing was reported (vacuous)")
    verdicts = trace.validate(chk, "ConstantsTrace", "mc/ConstantsTrace.cfg", records)
    for (c, run_), (la, _lb, _at) in zip(meta, verdicts):
        chk.count(c, nontrivial=any(d != "none" for d in c["decl"]))
        if la == "ok":
            continue
        chk.reject({"clause": la, "decl": sorted(c["decl"]), "detect": c["detect"], "minOcc": c["minOcc"], "lang": c["lang"]},
                   {"case": c, "observed": run_}, f"{la}: {c}: obs={run_['obs']} other={run_['other'][:2]}")
