"""C12 — every violation points at a real location of the construct it describes.

spec/Location.tla enumerates layouts (lead lines, a neutral item first, enclosing frames, decorator /
attribute lines, split headers / calls / expressions, LF / CRLF, with and without final newline, with and
without code after the construct) and fixes the construct's lines for each; 25 construct templates
(Python / TypeScript / Rust, one per reporting linter) are rendered under the layouts, linted, and
LocationTrace.tla judges every reported violation: file in run, line in file, column in line, construct
line, quoted name on line.  The three layout-independent clauses are also judged on a corpus: every
documented example (C19 catalogue) under line-terminator perturbations and DRY pairs whose two files hold
the same code in different layouts (cited locations must be real, too).
"""
from __future__ import annotations

import json
import os
import re
from pathlib import Path

from .. import docex, drive, pool, tlc, trace
from ..common import NCPU, MachineryError, canon, log, scratch_root
from ..render import location as R
from . import C19

NUM = re.compile(r"(?<![\w.])(0[xX][0-9a-fA-F_]+|0[oO][0-7_]+|0[bB][01_]+|\d[\d_]*\.?[\d_]*(?:[eE][+-]?\d+)?)")


def squash(s: str) -> str:
    return re.sub(r"[\s'\"`]+", "", s)


def number_on_line(value: str, line: str) -> bool:
    try:
        want = float(value)
    except ValueError:
        return value in line
    for tok in NUM.findall(line):
        t = tok.replace("_", "")
        try:
            got = float(int(t, 0)) if re.match(r"0[xXoObB]", t) else float(t)
        except ValueError:
            continue
        if got == want or -got == want:
            return True
    return False


def quoted_ok(rule: str, msg: str, line: str, files: dict[str, list[str]]) -> tuple[bool, str]:
    """Does what the message quotes from the source for this construct occur on the reported line?
    Also: every location the message cites must exist in the run."""
    sq = squash(line)

    def need(tok: str) -> tuple[bool, str]:
        return (squash(tok) in sq), tok

    m = None
    if rule == "cqs":       # the message qualifies methods as Class.method; the method's own name is on the line
        mm = re.search(r"Function '([^']+)'", msg)
        if mm and mm.group(1).split(".")[-1] not in line:
            return False, mm.group(1)
    elif rule == "nesting.excessive-depth" or rule.startswith("stringly-typed.limited"):
        m = re.search(r"Function '([^']+)'", msg)
    elif rule in ("srp.violation", "stateless-class.violation"):
        m = re.search(r"Class '([^']+)'", msg)
    elif rule == "method-property.should-be-property":
        m = re.search(r"Method '([^']+)'", msg)
    elif rule == "stringly-typed.scattered-comparison":
        m = re.search(r"Variable '([^']+)'", msg)
    elif rule == "performance.string-concat-loop":
        m = re.search(r"'(\w+) \+='", msg)
    elif rule == "performance.regex-in-loop":
        m = re.search(r"'(re\.\w+)\(\)'", msg)
    elif rule.startswith("lbyl."):
        # the quoted `if ...` text is a normalised rendering (`if Path.exists(path)` for `if path.exists():`);
        # the names it takes from the source are its lower-case identifiers
        mm = re.search(r"LBYL pattern: '(.+?)' followed by", msg)
        if mm:
            names = [w for w in re.findall(r"[A-Za-z_]\w*", mm.group(1)) if w == w.lower() and w != "if"]
            missing = [w for w in names if w not in line]
            return (not missing), (missing[0] if missing else mm.group(1))
    elif rule == "collection-pipeline.embedded-filter":
        m = re.search(r"For loop over '(.+?)' has", msg)
    elif rule == "lazy-ignores.unjustified":
        m = re.search(r"found: (.+?) \(ASK", msg)
    elif rule == "lazy-ignores.orphaned":      # the declared id (printed in normalised upper case)
        mm = re.search(r"header: ([^:]+):", msg)
        if mm:
            return (mm.group(1).strip().lower() in line.lower()), mm.group(1).strip()
    elif rule == "improper-logging.print-statement":
        m = re.search(r"^((?:console\.\w+)|print)\(\)", msg)
    elif rule == "improper-logging.conditional-verbose":
        m = re.search(r"around (\w+\.\w+)\(\)", msg)
    elif rule == "file-header.validation":
        m = re.search(r'Temporal language detected: [\w -]+ "([^"]+)"', msg)
        if m:
            return (m.group(1).lower() in line.lower()), m.group(1)
    elif rule == "dry.duplicate-code":
        mm = re.search(r"Similar constants found: '([^']+)' ≈ '([^']+)'", msg)
        if mm and mm.group(1) not in line and mm.group(2) not in line:
            return False, mm.group(1)
        m = re.search(r"Duplicate constant '([^']+)'", msg)
        for path, a, b in re.findall(r"([\w./-]+\.(?:py|ts|js|tsx|rs)):(\d+)(?:-(\d+))?", msg.split("Also found in:")[-1]):
            cand = [f for f in files if f == path or f.endswith("/" + path) or os.path.basename(f) == path]
            if not cand:
                return False, f"CITED: file {path} not in run"
            n = len(files[cand[0]])
            if not (1 <= int(a) <= n) or (b and not (int(a) <= int(b) <= n)):
                if not any(1 <= int(a) <= len(files[c]) and (not b or int(b) <= len(files[c])) for c in cand):
                    return False, f"CITED: lines {path}:{a}-{b} outside the file"
            if msg.startswith("Duplicate code") and b:
                # the reported line is the first line of a block that duplicates the cited block:
                # both first lines are the same statement (modulo whitespace and trailing comments)
                code = lambda t: squash(re.split(r"\s(?:#|//)", t, maxsplit=1)[0])  # noqa: E731
                firsts = {code(files[c][int(a) - 1]) for c in cand if 1 <= int(a) <= len(files[c])}
                if code(line) not in firsts or not code(line):
                    return False, f"CITED: first line of the block differs from the cited block's first line ({path}:{a})"
    if rule == "magic-numbers.numeric-literal":
        mm = re.search(r"Magic number (\S+) should", msg)
        if mm:
            return number_on_line(mm.group(1), line), mm.group(1)
    if rule.startswith(("unwrap-abuse.", "clone-abuse.", "blocking-async.")):
        ctx = msg.split(": ", 1)[1] if ": " in msg else ""
        return (squash(ctx) == sq or squash(ctx) in sq), ctx
    if rule == "cqs":
        for n, txt in re.findall(r"Line (\d+): (.+?)(?:;|\. OUTPUTs|$)", msg):
            fl = next(iter(files.values()))
            if not (1 <= int(n) <= len(fl)):
                return False, f"CITED: line {n} outside the file"
    if m and rule == "nesting.excessive-depth" and m.group(1) in SYNTHETIC_NAMES:
        return True, ""          # a placeholder for a function without a name is not a quotation from the source
    if m:
        return need(m.group(1))
    return True, ""


SYNTHETIC_NAMES = {"arrow_function", "function_expression", "anonymous", "<anonymous>", "<lambda>", "closure"}


def facts(v: dict, files: dict[str, list[str]], root: Path) -> dict:
    """Measured facts of one violation against the linted files ({relative name: lines without terminators})."""
    name = drive.rel(v["file_path"], root)
    in_run = name in files
    lines = files.get(name, [])
    line = v["line"] if isinstance(v["line"], int) else -999
    col = v["column"] if isinstance(v["column"], int) else -999
    text = lines[line - 1] if 1 <= line <= len(lines) else ""
    ok, tok = quoted_ok(v["rule_id"], v["message"], text, files) if in_run and 1 <= line <= len(lines) else (True, "")
    cited = not (not ok and tok.startswith("CITED:"))
    return {"inRun": in_run, "line": line, "nlines": max(len(lines), 0), "col": col, "lineLen": len(text.encode("utf-8")),
            "quotedOnLine": ok or not cited, "citedOk": cited, "rule": v["rule_id"], "tok": tok, "file": name}


def split_lines(text: str) -> list[str]:
    """Lines as an editor counts them: terminators \\n or \\r\\n; a final terminator does not open a new line."""
    ls = text.replace("\r\n", "\n").split("\n")
    if ls and ls[-1] == "":
        ls = ls[:-1]
    return ls


def run_cmd(root: Path, cmd: str, paths: list[str]) -> list[dict] | str:
    if cmd == "cqs":
        from src import Linter
        linter = Linter(config_file=str(root / ".thailint.yaml"), project_root=str(root))
        out = []
        for p in paths:
            out += [drive.viol_dict(v) for v in linter.lint(str(root / p), rules=["cqs"])]
        return out
    r = drive.cli_json([cmd, *paths], cwd=root)
    if r["violations"] is None:
        return f"no JSON (exit {r['exit']}): {r['stdout'][-200:]} {r['stderr'][-300:]}"
    return r["violations"]


def job(j: dict) -> dict:
    drive.preload()
    root = Path(j["root"])
    root.mkdir(parents=True)
    (root / ".git").mkdir()
    lang, cmd, _b, _f, _d, _s, cfg = R.TEMPLATES[j["tid"]]
    r = R.render(j["tid"], j["l"], j["name"])
    fname = f"srcx/probe_{j['name']}.{R.EXT[lang]}"
    (root / "srcx").mkdir()
    (root / fname).write_bytes(r["text"].encode("utf-8"))
    (root / ".thailint.yaml").write_text(cfg)
    vs = run_cmd(root, cmd, [fname])
    if isinstance(vs, str):
        return {"error": vs}
    from ..kit import owns
    vs = [v for v in vs if cmd == "cqs" or owns(cmd, v["rule_id"])]
    files = {fname: split_lines(r["text"])}
    return {"viols": [facts(v, files, root) for v in vs], "top": r["top"], "lo": r["lo"], "hi": r["hi"], "pre": 4,
            "nlines": r["nlines"], "text": r["text"]}


def job_corpus(j: dict) -> dict:
    """Free-form files (documented examples, DRY pairs): only the layout-independent clauses."""
    drive.preload()
    root = Path(j["root"])
    root.mkdir(parents=True)
    (root / ".git").mkdir()
    files = {}
    for name, text in j["files"]:
        p = root / name
        p.parent.mkdir(parents=True, exist_ok=True)
        p.write_bytes(text.encode("utf-8"))
        files[name] = split_lines(text)
    (root / ".thailint.yaml").write_text(j["cfg_text"])
    vs = run_cmd(root, j["cmd"], [n for n, _ in j["files"]])
    if isinstance(vs, str):
        return {"error": vs}
    vs = [v for v in vs if not v["rule_id"].endswith("syntax-error")]
    return {"viols": [facts(v, files, root) for v in vs]}


FREE_T = {"pre": 0, "lo": 1, "hi": 1, "free": True}
FREE_L = {"lead": 0, "pos": "only", "depth": 0, "decor": 0}


UNICODE_NOTE = "r\u00e9sum\u00e9 \u2615 \u0e44\u0e17\u0e22\u0e25\u0e34\u0e19\u0e15\u0e4c \u2014 \u65e5\u672c\u8a9e\u306e\u30b3\u30e1\u30f3\u30c8 \U0001F40D"


def perturb(text: str, mode: str, ext: str = "py") -> str:
    if mode == "unicode":
        # a leading comment of multi-byte characters: character offsets and byte offsets part ways below it
        return ("# " if ext == "py" else "// ") + UNICODE_NOTE + "\n" + text
    if mode == "crlf":
        return text.replace("\n", "\r\n")
    if mode == "nofinal":
        return text.rstrip("\n")
    if mode == "lead":
        return "\n\n" + text
    return text


def dry_pairs() -> list[dict]:
    """Two files with the same code in different layouts (banner, blank and comment lines interleaved)."""
    out = []
    blocks = {
        "py": (["def validate_%s(data):", "    if not data:", "        return False", "    if not data.get('email'):",
                "        return False", "    if not data.get('password'):", "        return False", "    return True"], "#"),
        "ts": (["export function format%s(error: Error): string {", "  if (!error) {", "    return 'Unknown error';", "  }",
                "  if (error.message) {", "    return `Error: ${error.message}`;", "  }", "  return 'Unknown error';", "}"], "//"),
    }
    for ext, (block, cm) in blocks.items():
        plain = [l % "a" if "%s" in l else l for l in block]
        same = list(plain)
        for variant in range(10):
            tagv = variant
            other: list[str] = []
            first = list(plain)
            doc = ({"py": ['"""Validation helpers.', "", "Checks the shape of user records.", '"""', ""],
                    "ts": ["/**", " * Formats an error for display.", " * @param error the error", " * @returns text", " */"]}[ext])
            if variant >= 6:
                # documentation blocks (docstring / JSDoc) above the code: skipped by the tokenizer, lines still count
                layout = variant - 6
                variant = (0, 2, 4, 1)[layout] or 8
                other += doc + (doc[1:-1] if ext == "ts" and layout % 2 else [])
                if layout >= 2:
                    first = doc[:2] + doc[-2:] + first if ext == "ts" else doc + first
            if variant & 1:
                other += [f"{cm} licence banner line {k}" for k in range(3 + variant)] + [""]
            for i, l in enumerate(same):
                if variant & 2 and i in (2, 5):
                    other.append("")
                if variant & 4 and i in (1, 4):
                    other.append(f"{cm} interleaved remark {i}")
                other.append(l)
            if variant == 0:
                other = [""] * 5 + same
            for order in (0, 1):
                files = [(f"src/a_first.{ext}", "\n".join(first) + "\n"), (f"src/b_second.{ext}", "\n".join(other) + "\n")]
                out.append({"files": files if order == 0 else list(reversed(files)), "cmd": "dry",
                            "cfg_text": "dry:\n  enabled: true\n", "tag": f"dry-{ext}-v{tagv}-o{order}"})
    return out


def run(chk) -> None:
    quick = chk.tier == "quick"
    drive.preload()
    chk.rule = ("layouts = lead lines 0..2 x neutral item first or not x 0..2 enclosing frames x 0..2 decorator/attribute "
                "lines x split or one-line header/call/expression x LF/CRLF x final newline or not x code after or not "
                "(864 layouts emitted by TLC) x 25 construct templates (13 Python, 6 TypeScript, 6 Rust: nesting, srp, "
                "stateless-class, method-property, magic-numbers, print, conditional-verbose, string-concat, "
                "regex-in-loop, lbyl, pipeline, cqs, lazy-ignores, unwrap, clone, blocking); corpus = every catalogued "
                "documented example as is, with CRLF, without final newline, with two leading blank lines and below a leading comment of multi-byte characters, and DRY "
                "pairs holding the same code in six different layouts in both file orders")
    chk.assumptions += [
        "column within the line is measured in UTF-8 bytes of the line without its terminator (ast and tree-sitter count bytes)",
        "for a call spread over several lines every line from the statement's first line to the method name is accepted",
        "the quoted name checked is the name of the reported construct (method, not its class); locations cited by a "
        "message (DRY 'Also found in', CQS 'Line n') must exist",
        "syntax-error notices are excluded, as the property states",
    ]
    res = tlc.run("Location", "mc/Location.cfg", workers=min(NCPU, 8), timeout=900)
    if res.violation or res.error:
        raise MachineryError("Location.tla: requirement laws fail or TLC error\n" + res.stdout[-3000:])
    chk.add_tlc("Location/Location.cfg", res)
    layouts = tlc.parse_cases(res.stdout)
    if len(layouts) != 864:
        raise MachineryError(f"Location.tla emitted {len(layouts)} layouts, expected 864")
    chk.exhaustive = not quick
    root = scratch_root() / "c12"
    jobs = []
    n = 0
    per_tpl = 70 if quick else 10 ** 9
    for tid, (lang, cmd, _b, _fk, decor_ok, has_split, _cfg) in sorted(R.TEMPLATES.items()):
        ls = [l for l in layouts if (decor_ok or l["decor"] == 0) and (has_split or not l["split"])]
        ls.sort(key=canon)
        chk.rng.shuffle(ls)
        for l in ls[:per_tpl]:
            n += 1
            jobs.append({"root": str(root / f"p{n}"), "tid": tid, "l": l, "name": f"probe{n % 97}x"})
    log(f"C12: {len(jobs)} template runs")
    results = pool.run_jobs(job, jobs, nproc=NCPU, timeout=180)
    records, rmeta = [], []
    silent: dict[str, int] = {}
    for j, r in zip(jobs, results):
        if not r.ok or "error" in r.value:
            raise MachineryError(f"C12 run failed for {j['tid']} {j['l']}: {r.error if not r.ok else r.value['error']}")
        v = r.value
        if not v["viols"]:
            silent[j["tid"]] = silent.get(j["tid"], 0) + 1
        l = j["l"]
        records.append({"l": {"lead": l["lead"], "pos": l["pos"], "depth": l["depth"], "decor": l["decor"]},
                        "t": {"pre": v["pre"], "lo": v["lo"], "hi": v["hi"], "free": False}, "top": v["top"],
                        "viols": [{k: x[k] for k in ("inRun", "line", "nlines", "col", "lineLen", "quotedOnLine", "citedOk")}
                                  for x in v["viols"]]})
        rmeta.append(({"kind": "template", "tid": j["tid"], "l": l}, v["viols"], v["text"]))
    per_count = {tid: sum(1 for j in jobs if j["tid"] == tid) for tid in R.TEMPLATES}
    for tid, k in silent.items():
        if k * 2 > per_count[tid]:
            raise MachineryError(f"C12 template {tid} produced no finding in {k} of {per_count[tid]} layouts (vacuous)")
    chk.extra["templates_without_finding"] = silent
    # corpus: documented examples under terminator perturbations
    cjobs, cmeta = [], []
    fences = docex.all_fences()
    cat = docex.load_catalog()
    modes = ["plain", "crlf", "nofinal", "lead", "unicode"]
    for ex in cat:
        f = fences.get((ex["doc"], ex["sha"]))
        if f is None or ex["kind"] in ("method", "fnbody"):
            continue
        text = docex.example_text(f, ex)
        ext = docex.EXT[f["lang"]]
        use = modes if not quick else [modes[(ex["ordinal"] + k) % 5] for k in range(3)]
        for mode in use:
            if ex["kind"] == "split":
                files = [(nm, perturb(t, mode, os.path.splitext(nm)[1].lstrip(".") or "py")) for nm, t in docex.split_parts(text)]
            else:
                files = [(f"src/m_example.{ext}", perturb(text, mode, ext))]
                if ex["doc"] in docex.PAIR_DOCS:
                    files.append((f"src/b_twin.{ext}", perturb(text, "plain")))
            n += 1
            cjobs.append({"root": str(root / f"c{n}"), "files": files, "cmd": docex.DOC_CMD[ex["doc"]],
                          "cfg_text": docex.CFGS[ex["variants"][0]["cfg"]]})
            cmeta.append({"kind": "doc", "doc": ex["doc"], "sha": ex["sha"], "mode": mode})
    for dj in dry_pairs():
        n += 1
        cjobs.append(dict(dj, root=str(root / f"c{n}")))
        cmeta.append({"kind": "dry-layout", "tag": dj["tag"]})
    log(f"C12: {len(cjobs)} corpus runs")
    cres = pool.run_jobs(job_corpus, cjobs, nproc=NCPU, timeout=180)
    dry_silent: list[str] = []
    for meta, j, r in zip(cmeta, cjobs, cres):
        if not r.ok or "error" in r.value:
            raise MachineryError(f"C12 corpus run failed for {meta}: {r.error if not r.ok else r.value['error']}")
        if meta["kind"] == "dry-layout" and not r.value["viols"]:
            dry_silent.append(meta["tag"])
        records.append({"l": FREE_L, "t": FREE_T, "top": 0,
                        "viols": [{k: x[k] for k in ("inRun", "line", "nlines", "col", "lineLen", "quotedOnLine", "citedOk")}
                                  for x in r.value["viols"]]})
        rmeta.append((meta, r.value["viols"], dict(j["files"])))
    if len(dry_silent) * 2 > len(dry_pairs()):
        raise MachineryError(f"C12: {len(dry_silent)} DRY layout pairs produced no finding (vacuous): {dry_silent[:4]}")
    chk.extra["dry_pairs_without_finding"] = dry_silent
    verdicts = trace.validate(chk, "LocationTrace", "mc/LocationTrace.cfg", records)
    for rec, (meta, viols, text), (la, _lb, at) in zip(records, rmeta, verdicts):
        chk.count(meta, nontrivial=bool(viols), n=max(1, len(viols)))
        if la == "LAYOUT":
            raise MachineryError(f"C12 renderer layout drift: {meta} top={rec['top']}")
        if la == "ok":
            continue
        bad = viols[at - 1]
        key = {"clause": la, "rule": bad["rule"], "kind": meta["kind"], "tid": meta.get("tid", ""),
               "doc": meta.get("doc", ""), "sha": meta.get("sha", "")}
        if meta["kind"] == "template":
            key["split"] = meta["l"]["split"]
            key["decor"] = meta["l"]["decor"] > 0
        what = (f"{meta}: {la}: {bad['rule']} reported at {bad['file']}:{bad['line']}:{bad['col']} "
                f"(file has {bad['nlines']} lines, that line has {bad['lineLen']} bytes, quoted {bad['tok']!r}"
                + (f", construct lines {rec['top'] + rec['t']['lo'] - 1}..{rec['top'] + rec['t']['hi'] - 1}"
                   if meta["kind"] == "template" else "") + ")")
        chk.reject(key, {"meta": meta, "files": text if isinstance(text, dict) else {"probe": text}, "violation": bad}, what)
    chk.extra["template_runs"] = len(jobs)
    chk.extra["corpus_runs"] = len(cjobs)
