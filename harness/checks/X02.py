"""X02 (beyond the listed properties) — the stringly-typed linter groups patterns across files as documented.

spec/Stringly.tla enumerates projects of three files (every layout of 0..2 validations of three value sets of
2, 3 and 5 values; every layout of calls of two functions with up to three values) and states which occurrences
must be reported for a configuration (min_occurrences counts files, min/max_values_for_enum bound the number of
unique values, allowed_string_sets); the laws of that requirement are checked by TLC on every project.  Every
project is rendered as Python files, linted under a grid of configurations, and StringlyTrace.tla judges the
counts per (file, set) and (file, function).
"""
from __future__ import annotations

import re
from pathlib import Path

from .. import drive, pool, tlc, trace
from ..common import NCPU, MachineryError, canon, log, scratch_root

SETS = {"s2": ["alpha", "beta"], "s3": ["red", "green", "blue"], "s5": ["north", "south", "east", "west", "centre"]}
FUNCS = {"tone": ("apply_tone", {1: "loud", 2: "soft", 3: "mute"}), "shape": ("choose_shape", {1: "round", 2: "flat", 3: "sharp"})}
CFGS = [{"minOcc": o, "minVals": a, "maxVals": b, "allowed": al}
        for o in (1, 2, 3) for a in (2, 3) for b in (3, 4, 5) for al in ([], ["s3"])]


def render(valid: dict, calls: dict, f: int, salt: int, ts: bool = False) -> tuple[str, dict]:
    if ts:      # call tracking only (projects without validations): applyTone("loud");
        lines = [f"// module {f} of project {salt}", ""]
        where = {}
        for g, (fname, vmap) in FUNCS.items():
            camel = "".join(w.capitalize() if i else w for i, w in enumerate(fname.split("_")))
            for vid in calls[g]:
                where[len(lines) + 1] = ("func", g)
                lines.append(f'{camel}("{vmap[vid]}");')
        lines.append("")
        return "\n".join(lines), where
    lines: list[str] = [f"# module {f} of project {salt}", ""]
    where: dict[int, tuple[str, str]] = {}
    k = 0
    for s, vals in SETS.items():
        for i in range(valid[s]):
            k += 1
            lines.append(f"def check_{s}_{f}_{i}(value_{k}):")
            where[len(lines) + 1] = ("set", s)
            lines.append(f"    if value_{k} in ({', '.join(repr(v) for v in vals)}):".replace("'", '"'))
            lines.append(f"        return value_{k}")
            lines.append("    return None")
            lines.append("")
    for g, (fname, vmap) in FUNCS.items():
        for vid in calls[g]:
            where[len(lines) + 1] = ("func", g)
            lines.append(f'{fname}("{vmap[vid]}")')
    lines.append("")
    return "\n".join(lines), where


def job(j: dict) -> dict:
    import yaml
    drive.preload()
    root = Path(j["root"])
    root.mkdir(parents=True)
    (root / ".git").mkdir()
    (root / "pkg").mkdir()
    wheres = {}
    names = []
    # projects made of calls only are rendered as TypeScript every other time (function-call tracking is documented
    # for both languages; `x in (...)` validations are Python)
    ts = j["salt"] % 2 == 1 and all(n == 0 for fv in j["valid"] for n in fv.values())
    for f in (1, 2, 3):
        src, where = render(j["valid"][f - 1], j["calls"][f - 1], f, j["salt"], ts)
        name = f"pkg/mod_{'abc'[f - 1]}." + ("ts" if ts else "py")
        (root / name).write_text(src)
        wheres[name] = (f, where)
        names.append(name)
    runs = []
    for ci, cfg in enumerate(j["cfgs"]):
        sec = {"min_occurrences": cfg["minOcc"], "min_values_for_enum": cfg["minVals"],
               "max_values_for_enum": cfg["maxVals"], "allowed_string_sets": [SETS[s] for s in cfg["allowed"]]}
        key = "stringly-typed" if (ci + j["salt"]) % 2 == 0 else "stringly_typed"
        (root / ".thailint.yaml").write_text(yaml.safe_dump({key: sec}))
        argv = ["stringly-typed", "pkg"] if ci % 2 == 0 else ["stringly-typed", *(names if ci % 4 == 1 else reversed(names))]
        r = drive.cli_json(list(argv), cwd=root)
        if r["violations"] is None:
            return {"error": f"no JSON (exit {r['exit']}): {r['stderr'][-300:]}"}
        sets: dict = {}
        funcs: dict = {}
        stray = []
        for v in r["violations"]:
            name = drive.rel(v["file_path"], root)
            if name not in wheres:
                stray.append([name, v["line"], v["rule_id"]])
                continue
            f, where = wheres[name]
            hit = where.get(v["line"])
            if hit is None:
                stray.append([name, v["line"], v["rule_id"], v["message"][:80]])
            elif hit[0] == "set":
                sets[(f, hit[1])] = sets.get((f, hit[1]), 0) + 1
            else:
                funcs[(f, hit[1])] = funcs.get((f, hit[1]), 0) + 1
        runs.append({"cfg": cfg, "setObs": [{"f": f, "s": s, "n": n} for (f, s), n in sorted(sets.items())],
                     "funcObs": [{"f": f, "g": g, "n": n} for (f, g), n in sorted(funcs.items())], "stray": stray})
    return {"runs": runs, "ts": ts}


def run(chk) -> None:
    quick = chk.tier == "quick"
    drive.preload()
    chk.rule = ("projects of three Python files (call-only projects every other time as TypeScript): every layout of 0..2 (quick: 0..1) validations `if x in (...)` of three "
                "value sets (2, 3, 5 values) per file, every layout of calls of two functions with up to three values, "
                "and validation layouts combined with one call layout (35 819 projects, quick 1 600), emitted by TLC; "
                "each linted under 36 configurations (min_occurrences 1..3 x min_values 2..3 x max_values 3..5 x "
                "allowed_string_sets none / the 3-value set), both section spellings, directory and file-list runs")
    chk.assumptions = ["min_occurrences counts files (docs: 'Min files where pattern must appear'); a function's values are "
                       "the union over all its call sites; require_cross_file stays at its default"]
    res = tlc.run("Stringly", "mc/Stringly_quick.cfg" if quick else "mc/Stringly.cfg", workers=NCPU, timeout=3000)
    if res.violation or res.error:
        raise MachineryError("Stringly.tla: laws fail or TLC error\n" + res.stdout[-2000:])
    chk.add_tlc("Stringly", res)
    cases = tlc.parse_cases(res.stdout)
    cases.sort(key=canon)
    chk.rng.shuffle(cases)
    if quick:
        cases = cases[:500]
    else:
        cases = cases[:6000]
    jobs = []
    for i, c in enumerate(cases):
        cfgs = CFGS if not quick else [CFGS[(i * 5 + k * 7) % len(CFGS)] for k in range(8)]
        jobs.append({"valid": c["valid"], "calls": c["calls"], "cfgs": cfgs, "salt": i, "root": str(scratch_root() / f"x02-{i}")})
    log(f"X02: {len(jobs)} projects x {len(jobs[0]['cfgs'])} configurations")
    results = pool.run_jobs(job, jobs, nproc=NCPU, timeout=600)
    records, meta = [], []
    for j, r in zip(jobs, results):
        if not r.ok or "error" in r.value:
            raise MachineryError(f"X02 job failed: {r.error if not r.ok else r.value['error']}")
        for run_ in r.value["runs"]:
            records.append({"valid": j["valid"], "calls": [{g: sorted(v) for g, v in cf.items()} for cf in j["calls"]],
                            "cfg": run_["cfg"], "setObs": run_["setObs"], "funcObs": run_["funcObs"],
                            "stray": len(run_["stray"])})
            meta.append((j, run_))
    chk.extra["typescript_projects"] = sum(1 for r in results if r.ok and r.value.get("ts"))
    with_findings = sum(1 for r in records if r["setObs"] or r["funcObs"])
    chk.extra["records_with_findings"] = with_findings
    if with_findings * 5 < len(records):
        raise MachineryError(f"X02: only {with_findings} of {len(records)} runs reported anything (vacuous)")
    verdicts = trace.validate(chk, "StringlyTrace", "mc/StringlyTrace.cfg", records, timeout=3000)
    for (j, run_), (la, _lb, _at) in zip(meta, verdicts):
        case = {"valid": j["valid"], "calls": j["calls"], "cfg": run_["cfg"]}
        chk.count(case, nontrivial=True)
        if la == "ok":
            continue
        cfg = run_["cfg"]
        nfiles_set = {s: sum(1 for f in j["valid"] if f[s] > 0) for s in SETS}
        key = {"clause": la, "minOcc": cfg["minOcc"], "minVals": cfg["minVals"], "maxVals": cfg["maxVals"],
               "allowed": bool(cfg["allowed"])}
        chk.reject(key, case | {"observed": run_}, f"{la}: files per set {nfiles_set}, calls {j['calls']}, cfg {cfg}: "
                   f"sets {run_['setObs']} funcs {run_['funcObs']} stray {run_['stray'][:2]}")
