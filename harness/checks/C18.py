"""C18 — file-placement verdicts follow the allow/deny rules exactly.

spec/FilePlacement.tla enumerates rule sets (nested directory rules with optional/empty allow and
deny lists, global_deny, global_patterns) over a 15-path tree with abstract patterns, defines the
required verdict (layer A) and the coded matching (layer B flags); every rule set is written as a
real configuration and the tree linted; FilePlacementTrace.tla loads each rule set into the spec's
variables and judges the reported paths.  Invalid patterns must be configuration errors.
"""
from __future__ import annotations

import json
import os
import re
from pathlib import Path

from .. import drive, pool, tlc, trace
from ..common import NCPU, MachineryError, canon, log, scratch_root

REGEX = {"py": r".*\.py$", "test": r"test_", "md": r"\.md$", "src": r"^src/"}
DIRS = ["", "src", "src/app", "src_old", "tests"]
NAMES = ["a.py", "test_a.py", "notes.md"]


def tree() -> dict:
    out = {}
    for d in DIRS:
        for n in NAMES:
            p = (d + "/" if d else "") + n
            out[p] = "def plain(q):\n    return q\n" if n.endswith(".py") else "# notes\n"
    return out


def selftest_table() -> None:
    """The abstract Match table of the spec must agree with Python's re on the path alphabet."""
    for d in DIRS:
        for n in NAMES:
            path = (d + "/" if d else "") + n
            truth = {"py": n in ("a.py", "test_a.py"), "test": n == "test_a.py", "md": n == "notes.md",
                     "src": d in ("src", "src/app")}
            for p, rx in REGEX.items():
                if bool(re.search(rx, path, re.IGNORECASE)) != truth[p]:
                    raise MachineryError(f"C18: pattern table disagrees with re on {p} / {path}")


def lst(o, as_dict: str | None, salt: int):
    """Render an optional pattern list; deny entries alternate between plain strings and dicts."""
    if not o["has"]:
        return None
    out = []
    for i, p in enumerate(sorted(o["ps"])):
        if as_dict and (i + salt) % 2 == 0:
            out.append({"pattern": REGEX[p], as_dict: f"rule {p}"})
        else:
            out.append(REGEX[p])
    return out


def config_of(c: dict, salt: int, invalid: str | None = None) -> dict:
    fp: dict = {}
    dirs = {}
    for d, r in c["rules"].items():
        if not r["present"]:
            continue
        rule = {}
        a, dn = lst(r["allow"], None, salt), lst(r["deny"], "reason", salt)
        if a is not None:
            rule["allow"] = a
        if dn is not None:
            rule["deny"] = dn
        dirs[d] = rule
    if dirs:
        fp["directories"] = dirs
    g = lst(c["gdeny"], "reason", salt)
    if g is not None:
        fp["global_deny"] = g
    gp = {}
    ga, gd = lst(c["gallow"], None, salt), lst(c["gpdeny"], "message", salt)
    if ga is not None:
        gp["allow"] = ga
    if gd is not None:
        gp["deny"] = gd
    if gp:
        fp["global_patterns"] = gp
    if invalid:
        bad = "([unclosed"
        if invalid == "dir_deny_only":
            fp.setdefault("directories", {})["src_old"] = {"deny": [bad]}
        elif invalid == "dir_allow":
            fp.setdefault("directories", {})["src_old"] = {"allow": [bad]}
        elif invalid == "later_dir":
            fp.setdefault("directories", {}).setdefault("zzz", {})["deny"] = [{"pattern": bad, "reason": "x"}]
        elif invalid == "global_deny":
            fp.setdefault("global_deny", []).append({"pattern": bad, "reason": "x"})
        else:
            fp.setdefault("global_patterns", {}).setdefault("deny", []).append({"pattern": bad, "message": "x"})
    return {"file-placement" if salt % 2 == 0 else "file_placement": fp}


def job(j: dict) -> dict:
    import yaml
    drive.preload()
    root = Path(j["root"])
    root.mkdir(parents=True)
    (root / ".git").mkdir()
    drive.write_tree(root, tree())
    out = []
    for k, c in enumerate(j["cases"]):
        cfg = config_of(c["case"], c["salt"], c.get("invalid"))
        (root / ".thailint.yaml").write_text(yaml.safe_dump(cfg, sort_keys=False))
        import src.linter_config.ignore as ig
        ig._CACHED_PARSER = None
        r = drive.cli_json(["file-placement", "."], cwd=root)
        rep = None
        if r["violations"] is not None:
            known = set(tree())
            rep = sorted({drive.rel(os.path.join(root, v["file_path"]), root) for v in r["violations"]} & known)
        out.append({"exit": r["exit"], "reported": rep, "stderr": (r["stderr"] or "")[-200:], "logs": r["logs"][-2:]})
    return {"runs": out}


def run(chk) -> None:
    quick = chk.tier == "quick"
    drive.preload()
    selftest_table()
    chk.rule = ("rule sets = directory rules for the root '/' (3 options), src, src/app (and tests in the thorough tier), each absent or with "
                "allow in {absent, [], [py], [md], [py, md]} and deny in {absent, [test_], [md]}, x global_deny x "
                "global_patterns allow/deny, enumerated exhaustively by TLC; every rule set judged on all 15 paths of "
                "the tree (incl. the near-miss directory src_old); plus invalid-regex configurations; non-trivial = "
                "at least one rule present; distinct by rule set")
    chk.assumptions = ["patterns are abstract predicates with one fixed regex each; the table is cross-checked "
                       "against Python's re at start-up", "a file counts as reported if at least one file-placement "
                       "finding names it"]
    r = tlc.run("FilePlacement", "mc/FilePlacement.cfg" if quick else "mc/FilePlacement_full.cfg", workers=1, timeout=3000)
    chk.add_tlc("FilePlacement rule sets (B = A, DenyBeatsAllow, NoRulesNoReports)", r)
    if r.violation:
        raise MachineryError("FilePlacement.tla invariants violated:\n" + r.stdout[-1500:])
    pin = tlc.run("FilePlacement", "mc/FilePlacement_pinned.cfg", workers=1, timeout=600)
    chk.add_tlc("FilePlacement with the pinned commit's matching (non-vacuity)", pin)
    if not pin.violation:
        raise MachineryError("vacuity: BEqualsA holds with prefix matching and global rules on covered files")
    cases = tlc.parse_cases(r.stdout)
    chk.exhaustive = True
    if not quick:
        chk.rng.shuffle(cases)
        cases = cases[:30000]
    items = [{"case": c, "salt": i} for i, c in enumerate(cases)]
    inv = ["dir_deny_only", "dir_allow", "later_dir", "global_deny", "global_patterns_deny"]
    for i, c in enumerate(cases[:: max(1, len(cases) // 60)]):
        items.append({"case": c, "salt": i, "invalid": inv[i % len(inv)]})
    per = 60
    jobs = [{"cases": items[i:i + per], "root": str(scratch_root() / f"c18-{i // per}")} for i in range(0, len(items), per)]
    log(f"C18: {len(items)} rule sets in {len(jobs)} jobs")
    res = pool.run_jobs(job, jobs, nproc=NCPU, timeout=1800)
    records, meta = [], []
    for j, r_ in zip(jobs, res):
        if not r_.ok:
            raise MachineryError(f"C18 job failed: {r_.error}")
        for it, o in zip(j["cases"], r_.value["runs"]):
            c = it["case"]
            rep = []
            for p in (o["reported"] or []):
                d, _, n = p.rpartition("/")
                rep.append({"dir": d, "name": n})
            records.append({"rules": c["rules"], "gdeny": c["gdeny"], "gallow": c["gallow"], "gpdeny": c["gpdeny"],
                            "reported": rep, "exit": o["exit"] if o["exit"] is not None else -9,
                            "invalid": bool(it.get("invalid"))})
            meta.append((it, o))
    verdicts = trace.validate(chk, "FilePlacementTrace", "mc/FilePlacementTrace.cfg", records, timeout=3000)
    for (it, o), (la, lb, at) in zip(meta, verdicts):
        c = it["case"]
        present = [d for d, r2 in c["rules"].items() if r2["present"]]
        chk.count({"rules": c["rules"], "gdeny": c["gdeny"], "gallow": c["gallow"], "gpdeny": c["gpdeny"],
                   "invalid": it.get("invalid")}, nontrivial=bool(present) or c["gdeny"]["has"] or c["gallow"]["has"] or c["gpdeny"]["has"])
        if la == "ok":
            continue
        if it.get("invalid"):
            chk.reject({"clause": la, "where": it["invalid"]}, {"case": c, "invalid": it["invalid"], "obs": o},
                       f"{la}: invalid regex in {it['invalid']} accepted (exit {o['exit']})")
            continue
        exp = {(f["dir"] + "/" if f["dir"] else "") + f["name"] for f in c["reported"]}
        obs = set(o["reported"] or [])
        for p in sorted(obs ^ exp)[:4]:
            d = p.rpartition("/")[0]
            covered = any(d == rd or (rd == "src" and d == "src/app") for rd in present)
            chk.reject({"clause": "Spurious" if p in obs else "Missed", "dir": d, "covered": covered,
                        "empty_allow": any(c["rules"][rd]["allow"]["has"] and not c["rules"][rd]["allow"]["ps"] for rd in present),
                        "globals": bool(c["gdeny"]["has"] or c["gallow"]["has"] or c["gpdeny"]["has"])},
                       {"case": c, "path": p, "obs": o},
                       f"{'Spurious' if p in obs else 'Missed'}: {p} under rules {json.dumps(c['rules'])[:200]} "
                       f"gdeny={c['gdeny']} gallow={c['gallow']} gpdeny={c['gpdeny']}")
