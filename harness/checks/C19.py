"""C19 — every linter honours its documented examples, wherever they are embedded.

spec/DocExamples.tla enumerates the embeddings (enclosing frames, filler before/after, an unrelated inner
statement, 1..3 copies, identifier renaming, a sibling file that binds the example's identifiers) that are
valid for each kind of documented fragment and fixes where every copy starts; the curated catalogue
(harness/catalog) says what each example of docs/*-linter.md documents.  Every (example, embedding) is
rendered, linted by the owning linter in a fresh process, and DocExamplesTrace.tla judges every file:
documented occurrences shifted to each copy, nothing else inside a copy, nothing on filler lines.
"""
from __future__ import annotations

import hashlib
import json
import os
from pathlib import Path

from .. import docex, drive, pool, tlc, trace
from ..common import NCPU, MachineryError, canon, log, scratch_root

PLAIN = {"kind": "stmts", "ctx": [], "before": 0, "guard": False, "inner": False, "copies": 1, "rename": False, "after": False,
         "sibling": "none", "loopOk": True}


# ---- running one project ------------------------------------------------------------------------------
def lint_project(root: Path, cmd: str, files: list[str], cfg_text: str) -> dict:
    """Lint `files` (relative, in this order) of project `root` with one invocation; findings per file."""
    drive.write_tree(root, {".thailint.yaml": cfg_text})
    (root / ".git").mkdir(exist_ok=True)
    if cmd == "cqs":
        from src import Linter
        linter = Linter(config_file=str(root / ".thailint.yaml"), project_root=str(root))
        viols = []
        for f in files:
            for v in linter.lint(str(root / f), rules=["cqs"]):
                viols.append(drive.viol_dict(v))
        logs: list = []
    else:
        r = drive.cli_json([cmd, *files], cwd=root)
        if r["violations"] is None:
            return {"error": f"no JSON (exit {r['exit']}): {r['stdout'][-200:]} {r['stderr'][-300:]}"}
        viols, logs = r["violations"], r["logs"]
    per: dict[str, list] = {f: [] for f in files}
    for v in viols:
        name = drive.rel(v["file_path"], root)
        if name not in per:
            return {"error": f"finding for a file that was not linted: {v['file_path']}"}
        per[name].append({"rule": v["rule_id"], "line": v["line"], "message": v["message"]})
    for f in per:
        per[f].sort(key=lambda x: (x["line"], x["rule"]))
    return {"per": per, "logs": logs}


def owned(doc: str, finds: list) -> list:
    """Only the findings of the documented linter (the perf command also owns both performance rules)."""
    cmd = docex.DOC_CMD[doc]
    if cmd == "cqs":
        return [f for f in finds if f["rule"] == "cqs" or f["rule"].startswith("cqs.")]
    from ..kit import owns
    return [f for f in finds if owns(cmd, f["rule"])]


def job(j: dict) -> dict:
    """One (example, variant, embedding): render, lint, return the record(s) for the trace specification."""
    drive.preload()
    root = Path(j["root"])
    root.mkdir(parents=True)
    lang, doc, e = j["lang"], j["doc"], j["e"]
    ext = docex.EXT[j["fence_lang"]]
    if j["kind"] == "split":
        files = {}
        for name, text in docex.split_parts(j["text"]):
            files[name] = text
        drive.write_tree(root, files)
        res = lint_project(root, j["cmd"], list(files), j["cfg_text"])
        if "error" in res:
            return res
        recs = []
        for name, text in files.items():
            recs.append({"file": name, "len": text.count("\n"), "starts": [1], "closing": 0, "e": dict(e),
                         "reported": owned(doc, res["per"][name]), "text": text})
        return {"records": recs}
    body = j["text"].split("\n")
    if body and body[-1] == "":
        body = body[:-1]
    while body and body[-1].strip() == "":
        body.pop()
    copies = []
    for c in range(e["copies"]):
        t = "\n".join(body)
        if e["rename"]:
            t = docex.rename(lang, t, doc, f"_q{c + 1}" if lang != "typescript" else f"Q{c + 1}")
        copies.append(t.split("\n"))
    r = docex.render(lang, copies, e, j["salt"])
    main = f"src/m_example.{ext}"
    if e["sibling"] == "shadowHere":
        r["text"] = r["text"] + "\n".join(docex.shadow_here(lang, "\n".join(body), doc, j["salt"])) + "\n"
    files = {main: r["text"]}
    order = [main]
    if e["sibling"] == "shadow":
        sib = f"src/a_shadow.{ext}"
        files[sib] = docex.shadow(lang, "\n".join(body), doc, j["salt"])
        order = [sib, main]
    if j.get("pair"):
        twin = f"src/b_twin.{ext}"
        files[twin] = "\n".join(body) + "\n"
        order = order + [twin] if j["salt"] % 2 else [twin] + order
    drive.write_tree(root, files)
    res = lint_project(root, j["cmd"], order, j["cfg_text"])
    if "error" in res:
        return res
    recs = [{"file": main, "len": len(body), "starts": r["starts"], "closing": r["closing"], "e": dict(e),
             "reported": owned(doc, res["per"][main]), "text": r["text"]}]
    if j.get("pair"):
        recs.append({"file": twin, "len": len(body), "starts": [1], "closing": 0, "e": dict(PLAIN),
                     "reported": owned(doc, res["per"][twin]), "text": files[twin]})
    if e["sibling"] == "shadow":
        recs[0]["sibling_reported"] = owned(doc, res["per"][order[0]])
    return {"records": recs}


def job_gallery(j: dict) -> dict:
    """All standalone examples of one doc (one language) in one directory, one run, given file order."""
    drive.preload()
    root = Path(j["root"])
    root.mkdir(parents=True)
    files = {name: text for name, text in j["files"]}
    drive.write_tree(root, files)
    res = lint_project(root, j["cmd"], [n for n, _ in j["files"]], j["cfg_text"])
    if "error" in res:
        return res
    return {"per": {n: owned(j["doc"], res["per"][n]) for n in files}}


# ---- records and verdicts -------------------------------------------------------------------------------
def to_record(rec: dict, occ: list, lang: str) -> dict:
    e = rec["e"]
    n = rec["len"]
    return {"e": {"before": e["before"], "ctx": list(e["ctx"]), "inner": e["inner"], "copies": e["copies"]},
            "geo": docex.GEO[lang], "len": n, "closing": rec["closing"], "starts": rec["starts"],
            "occ": [{"rule": o["rule"], "lo": o["lo"], "hi": min(o["hi"], n), "some": o["some"]} for o in occ],
            "reported": [{"rule": r["rule"], "line": r["line"]} for r in rec["reported"]]}


def mirror(tr: dict) -> tuple[str, dict]:
    """Python mirror of DocExamplesTrace.LayerA (diagnosis only; cross-checked against TLC's verdict)."""
    e, g, n = tr["e"], tr["geo"], tr["len"]
    hdr = sum(g["hdr"][f] for f in e["ctx"])
    start = lambda c: e["before"] * g["filler"] + hdr + (1 if e["inner"] else 0) + (c - 1) * (n + 1) + 1  # noqa: E731
    if tr["starts"] != [start(c) for c in range(1, e["copies"] + 1)]:
        return "LAYOUT", {}
    after = start(e["copies"]) + n + tr["closing"]
    for r in tr["reported"]:
        if r["line"] <= e["before"] * g["filler"] or r["line"] >= after:
            return "FillerReported", {"rule": r["rule"], "rel": r["line"]}
    for c in range(1, e["copies"] + 1):
        mine = [{"rule": r["rule"], "line": r["line"] - start(c) + 1} for r in tr["reported"]
                if start(c) <= r["line"] < start(c) + n]
        some = {o["rule"] for o in tr["occ"] if o["some"]}
        for s in sorted(some):
            if not any(m["rule"] == s for m in mine):
                return "Missing", {"rule": s, "rel": "?", "copy": c}
        finds = [m for m in mine if m["rule"] not in some]
        missing = None
        for o in [o for o in tr["occ"] if not o["some"]]:
            idx = [i for i, f in enumerate(finds) if f["rule"] == o["rule"] and o["lo"] <= f["line"] <= o["hi"]]
            if not idx:
                missing = missing or o
            else:
                finds.pop(idx[0])
        if missing is not None:
            return "Missing", {"rule": missing["rule"], "rel": missing["lo"], "copy": c}
        if finds:
            return ("AcceptableReported" if not tr["occ"] else "Extra"), \
                   {"rule": finds[0]["rule"], "rel": finds[0]["line"], "copy": c}
    return "ok", {}


def emb_tag(e: dict) -> str:
    return (f"ctx={'>'.join(e['ctx']) or 'module'} before={e['before']}{'+guard' if e.get('guard') else ''} inner={int(e['inner'])} copies={e['copies']} "
            f"rename={int(e['rename'])} after={int(e['after'])} sibling={e['sibling']}")


def plain_like(e: dict) -> bool:
    return not e["ctx"] and e["before"] == 0 and not e["inner"] and e["copies"] == 1 and not e["rename"] \
        and not e["after"] and e["sibling"] == "none"


# ---- the catalogue at run time ----------------------------------------------------------------------------
def usable_examples(chk) -> list[dict]:
    cat = docex.load_catalog()
    fences = docex.all_fences()
    out = []
    stale = 0
    for ex in cat:
        f = fences.get((ex["doc"], ex["sha"]))
        if f is None:
            stale += 1
            continue
        ex = dict(ex, text=docex.example_text(f, ex), fence_lang=f["lang"], lang=docex.LANG[f["lang"]])
        out.append(ex)
    if stale:
        chk.notes.append(f"{stale} catalogued example(s) no longer appear in docs/*-linter.md (catalogue stale)")
    known = {(ex["doc"], ex["sha"]) for ex in cat} | set(json.loads(docex.EXAMPLES.read_text())["skipped"])
    new = [k for k in fences if f"{k[0]} {k[1]}" not in known and k not in known]
    if new:
        chk.notes.append(f"{len(new)} source fence(s) of the docs are not in the catalogue: {new[:5]}")
    chk.extra["catalogue"] = {"examples": len(out), "stale": stale, "uncatalogued": len(new)}
    return out


def embeddings_for(ex: dict, cases: list[dict]) -> list[dict]:
    loop_ok = ex["doc"] not in docex.NO_LOOP_DOCS and not ex.get("noloop")
    out = []
    for c in cases:
        if c["kind"] != ex["kind"] or c["loopOk"] != loop_ok:
            continue
        if ex.get("norename") and c["rename"]:
            continue
        if ex.get("nomulti") and c["copies"] > 1:
            continue
        if ex["lang"] == "rust" and (c["rename"] or c["sibling"] != "none"):
            continue
        if c.get("guard") and ex["lang"] != "python":
            continue
        if ex["lang"] == "rust" and ex["kind"] != "fnbody" and any(f not in ("func", "class") for f in c["ctx"]):
            continue
        if ex["doc"] not in docex.PATTERN_DOCS and c["ctx"] and ex["kind"] != "fnbody":
            continue
        out.append(c)
    return out


def run(chk) -> None:
    quick = chk.tier == "quick"
    drive.preload()
    chk.rule = ("documented examples = every source fence of docs/*-linter.md that presents a violation, an acceptable "
                "pattern or a refactoring (curated catalogue, text re-read from the docs at run time) x embeddings "
                "emitted by TLC from DocExamples.tla (0..2 enclosing frames out of function/class/if/try/with/for/"
                "while, 0..2 filler blocks before, filler after, unrelated inner statement, 1..3 copies, renaming, "
                "shadowing sibling file) that are valid for the fragment kind; plus one gallery run per doc and "
                "language with every example in its own file, in both orders")
    chk.assumptions += [
        "what an example documents was decided by reading the docs once (catalogue); examples whose text changes are "
        "reported as stale, not judged",
        "findings on the header lines of the enclosing frames concern the frame, not the example, and are outside the property",
        "context independence is demanded only for the pattern linters the property names; size/nesting linters and the "
        "Rust linters get module-level embeddings only",
    ]
    cfg = "mc/DocExamples_quick.cfg" if quick else "mc/DocExamples.cfg"
    res = tlc.run("DocExamples", cfg, workers=NCPU, timeout=3000)
    if res.violation or res.error:
        raise MachineryError("DocExamples.tla: requirement laws fail or TLC error\n" + res.stdout[-3000:])
    chk.add_tlc("DocExamples/" + cfg, res)
    cases = tlc.parse_cases(res.stdout)
    if len(cases) < 1000:
        raise MachineryError(f"DocExamples.tla emitted only {len(cases)} embeddings")
    chk.exhaustive = False
    examples = usable_examples(chk)
    per_ex = 10 if quick else 120
    root = scratch_root() / "c19"
    jobs, meta = [], []
    n = 0
    for ex in examples:
        embs = embeddings_for(ex, cases)
        embs.sort(key=canon)
        plain = [c for c in embs if plain_like(c)]
        rest = [c for c in embs if not plain_like(c)]
        chk.rng.shuffle(rest)
        chosen = plain + rest[:per_ex]
        for vi, var in enumerate(ex["variants"]):
            for c in (chosen if vi == 0 else plain + rest[:max(2, per_ex // 4)]):
                n += 1
                jobs.append({"root": str(root / f"p{n}"), "doc": ex["doc"], "cmd": docex.DOC_CMD[ex["doc"]],
                             "lang": ex["lang"], "fence_lang": ex["fence_lang"], "kind": ex["kind"], "text": ex["text"],
                             "e": c, "salt": n % 7, "cfg_text": docex.CFGS[var["cfg"]],
                             "pair": ex["doc"] in docex.PAIR_DOCS})
                meta.append((ex, var, c))
    log(f"C19: {len(examples)} examples, {len(jobs)} embedded runs")
    results = pool.run_jobs(job, jobs, nproc=NCPU, timeout=180)
    records, rmeta = [], []
    for (ex, var, c), j, r in zip(meta, jobs, results):
        if not r.ok or "error" in r.value:
            raise MachineryError(f"C19 run failed for {ex['doc']} {ex['sha']} [{emb_tag(c)}]: "
                                 f"{r.error if not r.ok else r.value['error']}")
        for rec in r.value["records"]:
            occ = [o for o in var["expect"] if o.get("file", "") in ("", rec["file"])]
            if j["kind"] == "split":
                occ = [o for o in var["expect"] if o.get("file") == rec["file"]]
            records.append(to_record(rec, occ, ex["lang"]))
            rmeta.append((ex, var, rec))
    # gallery runs
    gjobs, gmeta = [], []
    for doc in sorted({ex["doc"] for ex in examples}):
        if doc in docex.PAIR_DOCS or doc == "dry":
            continue
        for fl in sorted({ex["fence_lang"] for ex in examples if ex["doc"] == doc}):
            group = [ex for ex in examples if ex["doc"] == doc and ex["fence_lang"] == fl
                     and ex["kind"] not in ("split", "method", "fnbody")
                     and ex["variants"][0]["cfg"] in ("default",)]
            if len(group) < 2:
                continue
            files = [(f"src/g{i:02d}_{ex['sha']}.{docex.EXT[fl]}", ex["text"]) for i, ex in enumerate(group)]
            for order in (files, list(reversed(files))):
                n += 1
                gjobs.append({"root": str(root / f"g{n}"), "doc": doc, "cmd": docex.DOC_CMD[doc], "files": order,
                              "cfg_text": docex.CFGS["default"]})
                gmeta.append(group)
    gres = pool.run_jobs(job_gallery, gjobs, nproc=NCPU, timeout=300)
    for group, j, r in zip(gmeta, gjobs, gres):
        if not r.ok or "error" in r.value:
            raise MachineryError(f"C19 gallery run failed for {j['doc']}: {r.error if not r.ok else r.value['error']}")
        names = {name.split("_")[-1].split(".")[0]: name for name, _ in j["files"]}
        for ex in group:
            name = names[ex["sha"]]
            text = dict(j["files"])[name]
            rec = {"file": name, "len": len(text.rstrip("\n").split("\n")), "starts": [1], "closing": 0,
                   "e": dict(PLAIN, sibling="gallery"), "reported": r.value["per"][name], "text": text}
            rec["len"] = text.count("\n") if text.endswith("\n") else text.count("\n") + 1
            records.append(to_record(rec, ex["variants"][0]["expect"], ex["lang"]))
            rmeta.append((ex, ex["variants"][0], rec))
    verdicts = trace.validate(chk, "DocExamplesTrace", "mc/DocExamplesTrace.cfg", records)
    for tr, (ex, var, rec), (la, _lb, _at) in zip(records, rmeta, verdicts):
        mv, info = mirror(tr)
        if mv != la:
            raise MachineryError(f"C19 mirror {mv} != TLC {la} for {ex['doc']} {ex['sha']} {emb_tag(rec['e'])}")
        if la == "LAYOUT":
            raise MachineryError(f"C19 renderer layout drift for {ex['doc']} {ex['sha']} {emb_tag(rec['e'])}: "
                                 f"starts {tr['starts']}")
        case = {"doc": ex["doc"], "sha": ex["sha"], "cfg": var["cfg"], "e": emb_tag(rec["e"])}
        chk.count(case, nontrivial=bool(tr["occ"]) or not plain_like(rec["e"]))
        if la == "ok":
            continue
        key = {"doc": ex["doc"], "sha": ex["sha"], "cfg": var["cfg"], "clause": la, "rule": info.get("rule", ""),
               "rel": info.get("rel", ""), "standalone": plain_like(rec["e"]) and rec["e"]["sibling"] == "none"}
        what = (f"{ex['doc']}-linter.md example {ex['sha']} ({' > '.join(ex['heads'][-2:])}) [{var['cfg']}] "
                f"{emb_tag(rec['e'])}: {la} {info} reported={[(r['rule'], r['line']) for r in rec['reported']][:8]} "
                f"starts={tr['starts']}")
        chk.reject(key, {"doc": ex["doc"], "sha": ex["sha"], "cfg": var["cfg"], "e": rec["e"], "file": rec["file"],
                         "text": rec["text"]}, what)
    chk.extra["embedded_runs"] = len(jobs)
    chk.extra["gallery_runs"] = len(gjobs)
