"""X06 (beyond the listed properties) — where print() / console.* calls are reported.

spec/PrintSites.tla enumerates Python sites relative to an `if __name__ == "__main__":` block x allow_in_scripts,
and TypeScript console methods x console_methods settings x file-name kinds (78 cases); each is rendered, linted
with `thailint print-statements` under the case's configuration (given globally and as a per-language override,
both section spellings) and PrintSitesTrace.tla judges the finding at the call's line.
"""
from __future__ import annotations

from pathlib import Path

from .. import drive, pool, tlc, trace
from ..common import NCPU, MachineryError, log, scratch_root

PY = {
    "module": (["import sys", "", "print('probe')", "", "def run():", "    return sys.argv"], 3),
    "function": (["import sys", "", "def run():", "    print('probe')", "    return sys.argv"], 4),
    "mainBlock": (["import sys", "", "def run():", "    return sys.argv", "", 'if __name__ == "__main__":', "    print('probe')",
                   "    run()"], 7),
    "mainNested": (["import sys", "", "def run():", "    return sys.argv", "", 'if __name__ == "__main__":',
                    "    if len(sys.argv) < 2:", "        for arg in sys.argv:", "            print('probe')", "    run()"], 9),
    "afterMain": (["import sys", "", "def run():", "    return sys.argv", "", 'if __name__ == "__main__":', "    run()", "",
                   "print('probe')"], 9),
}
MCFG = {"default": None, "logOnly": ["log"], "logTrace": ["log", "trace"]}
FNAME = {"plain": "probe.ts", "dotTest": "probe.test.ts", "dotSpec": "probe.spec.ts"}


def job(j: dict) -> dict:
    import yaml
    drive.preload()
    root = Path(j["root"])
    root.mkdir(parents=True)
    (root / ".git").mkdir()
    out = []
    for k, c in enumerate(j["cases"]):
        d = root / f"c{k}"
        (d / "pkg").mkdir(parents=True)
        (d / ".git").mkdir()
        for variant in ("global", "override"):
            sec: dict = {}
            if c["lang"] == "python":
                lines, at = PY[c["site"]]
                name = "pkg/probe.py"
                src = "\n".join(lines) + "\n"
                if c["allow"] != "default":
                    val = c["allow"] == "true"
                    sec = {"allow_in_scripts": val} if variant == "global" else {"allow_in_scripts": not val,
                                                                                 "python": {"allow_in_scripts": val}}
            else:
                name = "pkg/" + FNAME[c["fkind"]]
                src = "function run(value: number): number {\n  console." + c["method"] + '("probe", value);\n  return value;\n}\n'
                at = 2
                if MCFG[c["mcfg"]] is not None:
                    sec = {"console_methods": MCFG[c["mcfg"]]} if variant == "global" else {
                        "console_methods": ["warn"], "typescript": {"console_methods": MCFG[c["mcfg"]]}}
            if variant == "override" and not sec:
                continue
            (d / name).write_text(src)
            key = "print-statements" if k % 2 == 0 else "print_statements"
            (d / ".thailint.yaml").write_text(yaml.safe_dump({key: sec}) if sec else "{}\n")
            r = drive.cli_json(["print-statements", name], cwd=d)
            if r["violations"] is None:
                return {"error": f"no JSON (exit {r['exit']}): {r['stderr'][-300:]}"}
            n = sum(1 for v in r["violations"] if v["rule_id"] == "improper-logging.print-statement" and v["line"] == at)
            other = [[v["rule_id"], v["line"]] for v in r["violations"]
                     if not (v["rule_id"] == "improper-logging.print-statement" and v["line"] == at)]
            out.append({"case": c, "variant": variant, "n": n, "other": other})
    return {"runs": out}


def run(chk) -> None:
    drive.preload()
    chk.rule = ("Python print() sites (module, function, main block, nested inside the main block, after the main block) x "
                "allow_in_scripts default/true/false; TypeScript console.{log,warn,error,debug,info,trace,table} x "
                "console_methods default / [log] / [log, trace] x file name plain / .test. / .spec. (78 cases from TLC), "
                "each with the setting given globally and as a per-language override with a contradicting global value")
    chk.assumptions = ["test-file names: the two documented dotted forms only"]
    res = tlc.run("PrintSites", "mc/PrintSites.cfg", workers=2, timeout=600)
    if res.violation or res.error:
        raise MachineryError("PrintSites.tla: laws fail or TLC error\n" + res.stdout[-2000:])
    chk.add_tlc("PrintSites", res)
    cases = tlc.parse_cases(res.stdout)
    chk.exhaustive = True
    jobs = [{"cases": cases[i:i + 6], "root": str(scratch_root() / f"x06-{i}")} for i in range(0, len(cases), 6)]
    log(f"X06: {len(cases)} cases")
    results = pool.run_jobs(job, jobs, nproc=NCPU, timeout=600)
    records, meta = [], []
    for j, r in zip(jobs, results):
        if not r.ok or "error" in r.value:
            raise MachineryError(f"X06 job failed: {r.error if not r.ok else r.value['error']}")
        for run_ in r.value["runs"]:
            records.append(dict(run_["case"], n=run_["n"], other=len(run_["other"])))
            meta.append(run_)
    verdicts = trace.validate(chk, "PrintSitesTrace", "mc/PrintSitesTrace.cfg", records)
    for run_, (la, _lb, _at) in zip(meta, verdicts):
        c = run_["case"]
        chk.count(dict(c, variant=run_["variant"]), nontrivial=True)
        if la == "ok":
            continue
        key = {"clause": la, "lang": c["lang"], "variant": run_["variant"]}
        key.update({"site": c["site"], "allow": c["allow"]} if c["lang"] == "python" else
                   {"method": c["method"], "mcfg": c["mcfg"], "fkind": c["fkind"]})
        chk.reject(key, run_, f"{la}: {c} ({run_['variant']}): n={run_['n']} other={run_['other'][:3]}")
