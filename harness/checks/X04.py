"""X04 (beyond the listed properties) — LBYL patterns, their documented non-matches and their detect_* switches.

spec/Lbyl.tla enumerates probes (8 patterns x documented variants x the pattern's switch default/on/off x the other
switches default/on/off = 153 cases); each probe is rendered at module level and inside a function, linted with the
configuration the case describes, and LbylTrace.tla judges the findings at the `if` line.
"""
from __future__ import annotations

from pathlib import Path

from .. import drive, pool, tlc, trace
from ..common import NCPU, MachineryError, log, scratch_root

RULE = {"dictKey": "lbyl.dict-key-check", "hasattr": "lbyl.hasattr-check", "isinstance": "lbyl.isinstance-check",
        "fileExists": "lbyl.file-exists-check", "lenCheck": "lbyl.len-check", "noneCheck": "lbyl.none-check",
        "stringValidator": "lbyl.string-validator", "division": "lbyl.division-check"}
OPT = {"dictKey": "detect_dict_key", "hasattr": "detect_hasattr", "isinstance": "detect_isinstance",
       "fileExists": "detect_file_exists", "lenCheck": "detect_len_check", "noneCheck": "detect_none_check",
       "stringValidator": "detect_string_validation", "division": "detect_division_check"}
# pattern -> variant -> (if line, body lines)
PROBES = {
    "dictKey": {"canonical": ("if key in config:", ["value = config[key]"]),
                "otherSubject": ("if key in config:", ["value = other_config[key]"])},
    "hasattr": {"canonical": ("if hasattr(obj, 'process'):", ["obj.process()"]),
                "otherSubject": ("if hasattr(obj, 'process'):", ["other_obj.process()"])},
    "isinstance": {"canonical": ("if isinstance(obj, MyClass):", ["obj.my_method()"]),
                   "otherSubject": ("if isinstance(obj, MyClass):", ["other_obj.my_method()"])},
    "fileExists": {"canonical": ("if os.path.exists(filepath):", ["with open(filepath) as handle:", "    data = handle.read()"]),
                   "otherSubject": ("if os.path.exists(filepath):", ["with open(other_path) as handle:", "    data = handle.read()"]),
                   "inverted": ("if not os.path.exists(filepath):", ["create_file(filepath)"])},
    "lenCheck": {"canonical": ("if len(items) > index:", ["first = items[index]"]),
                 "otherSubject": ("if len(items) > index:", ["first = other_items[index]"])},
    "noneCheck": {"canonical": ("if obj is not None:", ["result = obj.process()"]),
                  "otherSubject": ("if obj is not None:", ["result = other_obj.process()"])},
    "stringValidator": {"canonical": ("if text.isdigit():", ["number = int(text)"]),
                        "otherSubject": ("if text.isdigit():", ["number = int(other_text)"])},
    "division": {"canonical": ("if divisor != 0:", ["result = numerator / divisor"]),
                 "otherSubject": ("if divisor != 0:", ["result = numerator / other_divisor"])},
}


def job(j: dict) -> dict:
    import yaml
    drive.preload()
    root = Path(j["root"])
    root.mkdir(parents=True)
    (root / ".git").mkdir()
    out = []
    for k, c in enumerate(j["cases"]):
        head, body = PROBES[c["pattern"]][c["variant"]]
        sec = {}
        if c["switch"] != "default":
            sec[OPT[c["pattern"]]] = c["switch"] == "on"
        if c["others"] != "default":
            for p, o in OPT.items():
                if p != c["pattern"]:
                    sec[o] = c["others"] == "on"
        (root / ".thailint.yaml").write_text(yaml.safe_dump({("lbyl" if k % 2 else "lbyl"): sec}) if sec else "{}\n")
        for form in ("module", "function"):
            pad = "" if form == "module" else "    "
            lines = ["import os", ""] + (["def probe(config, key, obj, items, index, text):"] if form == "function" else [])
            if_line = len(lines) + 1
            lines.append(pad + head)
            lines += [pad + "    " + b for b in body]
            lines += [pad + "marker = 0", ""]
            name = f"pkg/probe_{k}_{form}.py"
            (root / "pkg").mkdir(exist_ok=True)
            (root / name).write_text("\n".join(lines))
            r = drive.cli_json(["lbyl", name], cwd=root)
            if r["violations"] is None:
                return {"error": f"no JSON (exit {r['exit']}): {r['stderr'][-300:]}"}
            n = sum(1 for v in r["violations"] if v["rule_id"] == RULE[c["pattern"]] and v["line"] == if_line)
            other = [[v["rule_id"], v["line"]] for v in r["violations"]
                     if not (v["rule_id"] == RULE[c["pattern"]] and v["line"] == if_line)]
            out.append({"case": c, "form": form, "n": n, "other": other})
    return {"runs": out}


def run(chk) -> None:
    drive.preload()
    chk.rule = ("8 LBYL patterns x documented variants (canonical; different subject between check and use; inverted "
                "file-exists check) x the pattern's detect_* switch (default/on/off) x all other switches "
                "(default/on/off), emitted by TLC (153 cases), each at module level and inside a function")
    chk.assumptions = ["len-check probes use a variable index (constant indices: recorded C19 finding)",
                       "a different subject in the body is the documented non-match; other body shapes are not generated"]
    res = tlc.run("Lbyl", "mc/Lbyl.cfg", workers=2, timeout=600)
    if res.violation or res.error:
        raise MachineryError("Lbyl.tla: laws fail or TLC error\n" + res.stdout[-2000:])
    chk.add_tlc("Lbyl", res)
    cases = tlc.parse_cases(res.stdout)
    chk.exhaustive = True
    jobs = [{"cases": cases[i:i + 10], "root": str(scratch_root() / f"x04-{i}")} for i in range(0, len(cases), 10)]
    log(f"X04: {len(cases)} cases")
    results = pool.run_jobs(job, jobs, nproc=NCPU, timeout=600)
    records, meta = [], []
    for j, r in zip(jobs, results):
        if not r.ok or "error" in r.value:
            raise MachineryError(f"X04 job failed: {r.error if not r.ok else r.value['error']}")
        for run_ in r.value["runs"]:
            c = run_["case"]
            records.append({"pattern": c["pattern"], "variant": c["variant"], "switch": c["switch"], "n": run_["n"],
                            "other": len(run_["other"])})
            meta.append(run_)
    verdicts = trace.validate(chk, "LbylTrace", "mc/LbylTrace.cfg", records)
    for run_, (la, _lb, _at) in zip(meta, verdicts):
        c = run_["case"]
        chk.count(dict(c, form=run_["form"]), nontrivial=True)
        if la == "ok":
            continue
        chk.reject({"clause": la, "pattern": c["pattern"], "variant": c["variant"], "switch": c["switch"],
                    "others": c["others"]}, run_, f"{la}: {c} ({run_['form']}): n={run_['n']} other={run_['other'][:3]}")
