"""C06 — exit code and text/JSON/SARIF outputs always agree with the violations found.

spec/Run.tla models one CLI run (parse -> paths -> config -> lint -> render -> exit) with every
class of usage error; TLC enumerates (fault, input class) cases; every case is executed for every
linter command in all three formats as real processes; RunTrace.tla judges each triple.
"""
from __future__ import annotations

import json
import os
from pathlib import Path

from .. import drive, kit, pool, tlc, trace
from ..common import NCPU, MachineryError, canon, log, scratch_root

CONFIG = """dry:
  enabled: true
  min_duplicate_lines: 3
file-placement:
  global_deny:
    - pattern: ".*magic.*"
      reason: "no magic files"
    - pattern: ".*mägic.*"
      reason: "no mägic files"
"""

TRIGGER = {
    "nesting": ["nest.py"], "magic-numbers": ["magic.py"], "srp": ["srp.py"],
    "dry": ["dup_a.py", "dup_b.py"], "stringly-typed": ["stringly_a.py", "stringly_b.py"],
    "improper-logging": ["prints.py"], "print-statements": ["prints.py"],
    "method-property": ["methodprop.py"], "stateless-class": ["stateless.py"],
    "lazy-ignores": ["lazy.py"], "lbyl": ["lbyl.py"], "file-placement": ["magic.py"],
    "pipeline": ["pipeline.py"], "file-header": ["magic.py"], "string-concat-loop": ["perf.py"],
    "regex-in-loop": ["perf.py"], "perf": ["perf.py"], "unwrap-abuse": ["risky.rs"],
    "clone-abuse": ["risky.rs"], "blocking-async": ["risky.rs"],
}

HOSTILE_PY = '''import os  # noqa
class Größe:
    def __init__(self, näme):
        self._näme = näme

    def get_näme(self):
        return self._näme

    def beschreibung(self):
        return self._näme + "'\\"\\\\"


class Hëlper:
    def hash_tökens(self, tokens):
        return [hash(t) for t in tokens]

    def join_tökens(self, tokens):
        return "".join(tokens)


def verarbeite(einträge, d, schlüssel, status: str):
    print("naïve \\"quoted\\" \\\\ back 'single'")
    ergebnis = ""
    for eintrag in einträge:
        if not eintrag.gültig:
            continue
        ergebnis += str(eintrag)
        for a in eintrag:
            if a:
                for b in a:
                    if b:
                        ergebnis += "x"
    if schlüssel in d:
        return d[schlüssel]
    if status not in ("öffnen", "geschlossen", "wartend"):
        raise ValueError(status)
    return len(ergebnis) * 37
'''
HOSTILE_TS = '''function tïef(items: number[][]): number {
  for (const a of items) {
    if (a) {
      for (const b of a) {
        if (b) {
          while (b > 100) {
            return 37;
          }
        }
      }
    }
  }
  console.log("naïve \\"q\\" \\\\");
  return 0;
}
'''
HOSTILE_RS = '''use std::fs;

fn läd(path: &str) -> String {
    let data = fs::read_to_string(path).unwrap();
    let copy = data.clone().clone();
    copy
}

async fn hölen(path: &str) -> String {
    let text = std::fs::read_to_string(path).expect("läs \\"q\\"");
    text
}
'''


def hostile_files() -> dict:
    """{bytes path: content}; paths as bytes so that one name can carry invalid UTF-8."""
    py = HOSTILE_PY
    return {
        "hostile/naïve dir/mägic \"q\".py".encode(): py,
        b"hostile/back\\slash.py": py,
        b"hostile/new\nline.py": py,
        b"hostile/bad\xffbyte.py": py,
        "hostile/wëird 'x'.ts".encode(): HOSTILE_TS,
        "hostile/wëird.rs".encode(): HOSTILE_RS,
    }


def build(root: Path) -> None:
    drive.write_tree(root, kit.FILES)
    # several identical findings on one line (same rule, same message, different columns)
    (root / "twins.py").write_text('def scale(x, f):\n    print("a"); print("a")\n    return f(x, 37, 37) + f(x, 37, 37)\n')
    (root / ".thailint.yaml").write_text(CONFIG, encoding="utf-8")
    (root / "empty_dir").mkdir()
    (root / "empty_dir" / "data.txt").write_text("nothing to lint\n")
    for bpath, content in hostile_files().items():
        p = os.path.join(os.fsencode(str(root)), bpath)
        os.makedirs(os.path.dirname(p), exist_ok=True)
        with open(p, "w", encoding="utf-8") as f:
            f.write(content)
    (root / "bad.yaml").write_text("nesting: [unclosed\n  max: {\n")
    (root / "bad.json").write_text('{"nesting": {"max_nesting_depth": 3,}')
    (root / "list.yaml").write_text("- nesting\n- srp\n")
    (root / "scalar.yaml").write_text("nesting max 1\n")
    (root / "array.json").write_text('[{"nesting": {"max_nesting_depth": 3}}]\n')


# a command's own option given a value outside its domain (type or choice)
BAD_VALUE = {"nesting": ["--max-depth", "deep"], "srp": ["--max-methods", "many"], "dry": ["--min-lines", "few"],
             "perf": ["--rule", "no-such-rule"], "pipeline": ["--min-continues", "2.5"]}


ZERO_VALUE = {"nesting": ["--max-depth", "0"], "srp": ["--max-methods", "0"], "dry": ["--min-lines", "0"],
              "pipeline": ["--min-continues", "0"]}


def argv_for(cmd: str, fault: str, inp: str, fmt: str) -> tuple[list[str], str]:
    """(argv after the command name, cwd-relative project dir)."""
    tgt = {"zero": ["empty_dir"], "file": TRIGGER[cmd], "dir": ["."], "hostile": ["hostile"]}[inp]
    pre = ["--format", fmt]
    if fault == "badOption":
        return pre + ["--no-such-option"] + tgt, "proj"
    if fault == "badOptionValue":
        return pre + BAD_VALUE[cmd] + tgt, "proj"
    if fault == "zeroOptionValue":
        return pre + ZERO_VALUE[cmd] + tgt, "proj"
    if fault == "badFormat":
        return ["--format", "xml"] + tgt, "proj"
    if fault == "missingPath":
        return pre + ["does_not_exist.py"], "proj"
    if fault == "missingPathAfterExisting":
        return pre + tgt + ["does_not_exist.py"], "proj"
    if fault == "missingConfig":
        return pre + ["--config", "no_such_config.yaml"] + tgt, "proj"
    if fault == "malformedYaml":
        return pre + ["--config", "bad.yaml"] + tgt, "proj"
    if fault == "malformedJson":
        return pre + ["--config", "bad.json"] + tgt, "proj"
    if fault in ("listYaml", "scalarYaml", "arrayJson"):
        return pre + ["--config", {"listYaml": "list.yaml", "scalarYaml": "scalar.yaml", "arrayJson": "array.json"}[fault]] + tgt, "proj"
    if fault == "malformedProjectYaml":
        return pre + tgt, "projbad"
    return pre + tgt, "proj"


def parse_json(raw: bytes):
    try:
        doc = json.loads(raw.decode("utf-8", "strict"))
        vs = [(v["rule_id"], v["file_path"], v["line"], v["column"], v["message"]) for v in doc["violations"]]
        return vs, doc["total"], True
    except Exception:  # noqa: BLE001
        return [], -1, False


def parse_sarif(raw: bytes):
    res = {"ok": False, "declared": False, "onebased": False, "viol": []}
    try:
        doc = json.loads(raw.decode("utf-8", "strict"))
        run = doc["runs"][0]
        res["ok"] = doc["version"] == "2.1.0" and len(doc["runs"]) == 1 and isinstance(run["results"], list)
        declared = {r["id"] for r in run["tool"]["driver"]["rules"]}
        res["declared"] = all(r["ruleId"] in declared for r in run["results"])
        ob = True
        for r in run["results"]:
            loc = r["locations"][0]["physicalLocation"]
            reg = loc["region"]
            ob = ob and reg["startLine"] >= 1 and reg["startColumn"] >= 1
            res["viol"].append((r["ruleId"], loc["artifactLocation"]["uri"], reg["startLine"],
                                reg["startColumn"] - 1, r["message"]["text"]))
        res["onebased"] = ob
    except Exception:  # noqa: BLE001
        res["ok"] = False
    return res


def parse_text(raw: bytes, jviol: list):
    """Match the documented text shape for every JSON violation; leftover text => not ok."""
    try:
        text = raw.decode("utf-8", "strict")
    except UnicodeDecodeError:
        return [], False
    if not jviol:
        return [], text.strip() == "✓ No violations found"
    head = f"Found {len(jviol)} violation(s):\n\n"
    found = []
    ok = text.startswith(head)
    body = text[len(head):] if ok else text
    for i, (rule, fp, line, col, msg) in enumerate(jviol):
        cands = []
        loc = f"{fp}:{line}" if line else fp
        if col:
            cands.append(f"  {loc}:{col}\n    [ERROR] {rule}: {msg}\n\n")
        else:
            cands.append(f"  {loc}\n    [ERROR] {rule}: {msg}\n\n")
            cands.append(f"  {loc}:0\n    [ERROR] {rule}: {msg}\n\n")
        for c in cands:
            k = body.find(c)
            if k >= 0:
                body = body[:k] + body[k + len(c):]
                found.append(i)
                break
    return found, ok and body.strip() == ""


def job(j: dict) -> dict:
    base = Path(j["root"])
    if not (base / "proj").exists():
        build(base / "proj")
        build(base / "projbad")
        (base / "projbad" / ".thailint.yaml").write_text("nesting: [unclosed\n  max: {\n")
    out = {}
    for fmt in ("json", "text", "sarif"):
        argv, proj = argv_for(j["cmd"], j["fault"], j["input"], fmt)
        r = drive.cli_subprocess((["--verbose"] if j.get("verbose") else []) + [j["cmd"]] + argv, cwd=base / proj, timeout=120)
        out[fmt] = {"exit": r["exit"], "raw": r["raw_stdout"], "stderr": r["stderr"][-300:], "hang": r["hang"]}
    jv, total, jok = parse_json(out["json"]["raw"])
    sar = parse_sarif(out["sarif"]["raw"])
    tfound, tok = parse_text(out["text"]["raw"], jv)
    ids: dict = {}

    def idof(t):
        k = canon(list(t))
        return ids.setdefault(k, len(ids) + 1)

    rec = {"fault": j["fault"],
           "exit_text": out["text"]["exit"] if out["text"]["exit"] is not None else -9,
           "exit_json": out["json"]["exit"] if out["json"]["exit"] is not None else -9,
           "exit_sarif": out["sarif"]["exit"] if out["sarif"]["exit"] is not None else -9,
           "json": [idof(t) for t in jv], "total": total, "json_ok": jok,
           "text": [idof(jv[i]) for i in tfound], "text_ok": tok,
           "sarif": [idof(t) for t in sar["viol"]], "sarif_ok": sar["ok"],
           "sarif_declared": sar["declared"], "sarif_onebased": sar["onebased"]}
    detail = {"stderr": {f: out[f]["stderr"] for f in out}, "json_n": len(jv),
              "sarif_only": [t for t in sar["viol"] if t not in jv][:3],
              "json_only": [t for t in jv if t not in sar["viol"]][:3],
              "text_tail": out["text"]["raw"][-300:].decode("utf-8", "replace")}
    return {"rec": rec, "detail": detail}


def run(chk) -> None:
    quick = chk.tier == "quick"
    chk.rule = ("cases = (usage-error class, input class) enumerated by TLC from Run.tla x every linter command, "
                "each executed in text, json and sarif as real processes (hostile input = non-ASCII identifiers "
                "and file names with quotes, backslash, newline, invalid UTF-8 byte); non-trivial = a fault case "
                "or an input with at least one violation; distinct by (command, fault, input)")
    chk.assumptions = ["SARIF is checked structurally for the constraints the property names (version, declared "
                       "rule ids, 1-based region), not against the official JSON schema (not available offline)",
                       "text rendering is matched block-wise against the JSON violations in the documented "
                       "two-line shape (column omitted when 0)"]
    r = tlc.run("Run", "mc/Run.cfg", workers=1, timeout=300)
    chk.add_tlc("Run exhaustive (14 faults x 4 inputs x 3 formats x verbose)", r)
    if r.violation:
        raise MachineryError("Run.tla invariants violated:\n" + r.stdout[-1500:])
    cases = tlc.parse_cases(r.stdout)
    pairs = sorted({(c["fault"], c["input"]) for c in cases if c["fault"] == "none" or c["input"] == "file"})
    chk.exhaustive = True
    cmds = sorted(kit.COMMANDS)
    jobs = []
    for cmd in cmds:
        for fault, inp in pairs:
            if fault == "badOptionValue" and cmd not in BAD_VALUE:
                continue
            if fault == "zeroOptionValue" and cmd not in ZERO_VALUE:
                continue
            if quick and fault not in ("none", "badOptionValue", "zeroOptionValue") and (hash((cmd, fault)) % 2) and cmd not in ("nesting", "dry"):
                continue
            jobs.append({"cmd": cmd, "fault": fault, "input": inp})
            # the same invocation with the global --verbose flag: for every error class (rotating over the commands in
            # the quick tier) and for one clean run per command
            if (fault != "none" and (not quick or (len(jobs) % 3 == 0))) or (fault == "none" and inp == "file"):
                jobs.append({"cmd": cmd, "fault": fault, "input": inp, "verbose": True})
    nshare = NCPU
    for i, j in enumerate(jobs):
        j["root"] = str(scratch_root() / f"c06-{i % nshare}")
    # build each shared tree once, sequentially per share, by grouping jobs per share
    groups: dict[str, list] = {}
    for j in jobs:
        groups.setdefault(j["root"], []).append(j)

    def run_group(js):
        return [job(j) for j in js]

    log(f"C06: {len(jobs)} invocations x 3 formats")
    gres = pool.run_jobs(run_group, list(groups.values()), nproc=NCPU, timeout=1800)
    records, meta = [], []
    for js, r_ in zip(groups.values(), gres):
        if not r_.ok:
            raise MachineryError(f"C06 job group failed: {r_.error}")
        for j, o in zip(js, r_.value):
            records.append(o["rec"])
            meta.append((j, o))
    verdicts = trace.validate(chk, "RunTrace", "mc/RunTrace.cfg", records)
    for (j, o), (la, lb, at) in zip(meta, verdicts):
        case = {"cmd": j["cmd"], "fault": j["fault"], "input": j["input"]}
        if j.get("verbose"):
            case["verbose"] = True
        chk.count(case, nontrivial=j["fault"] != "none" or o["detail"]["json_n"] > 0)
        if la != "ok":
            rec = o["rec"]
            chk.reject(dict({"cmd": j["cmd"], "clause": la, "fault": j["fault"], "input": j["input"]},
                            **({"verbose": True} if j.get("verbose") else {})),
                       dict(case, exits=[rec["exit_text"], rec["exit_json"], rec["exit_sarif"]],
                            detail=o["detail"]),
                       f"{la}: thailint {j['cmd']} fault={j['fault']} input={j['input']} exits(text,json,sarif)="
                       f"{rec['exit_text']},{rec['exit_json']},{rec['exit_sarif']} n={o['detail']['json_n']}")
