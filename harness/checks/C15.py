"""C15 — each command reports only its own rules; rules fire only on their languages.

spec/Languages.tla holds the extension/shebang -> language table, command -> linter ownership and
linter -> language support; TLC enumerates (extension spelling, shebang, content language, command);
each case is executed under four settings of the OTHER linters' sections; LanguagesTrace.tla judges.
"""
from __future__ import annotations

import json
import os
from collections import Counter
from pathlib import Path

from .. import drive, kit, pool, projects, tlc, trace
from ..common import NCPU, MachineryError, canon, log, scratch_root

PY = "\n\n".join(kit.FILES[k] for k in ("nest.py", "magic.py", "prints.py", "methodprop.py", "stateless.py",
                                        "lbyl.py", "pipeline.py", "perf.py", "srp.py", "cqs.py",
                                        "stringly_a.py")) + "\nimport os  # noqa\n"
TS = kit.FILES["nest.ts"] + '''
class Manager {
  a() { return 1; } b() { return 2; } c() { return 3; } d() { return 4; } e() { return 5; }
  f() { return 6; } g() { return 7; } h() { return 8; } i() { return 9; }
}
function build(items: string[]): string {
  let result = "";
  for (const item of items) {
    result += item;
  }
  return result;
}
'''
RS = kit.FILES["risky.rs"]
NEUTRAL = "This is a plain text note.\nNothing to see here: 42 apples, if any.\n" * 3
CONTENT = {"python": PY, "typescript": TS, "rust": RS, "neutral": NEUTRAL}

SECTION_OF = {"improper-logging": "print-statements", "print-statements": "print-statements",
              "pipeline": "collection-pipeline", "perf": "performance", "string-concat-loop": "performance",
              "regex-in-loop": "performance"}
ALL_SECTIONS = ["nesting", "srp", "magic-numbers", "dry", "stringly-typed", "print-statements", "method-property",
                "stateless-class", "collection-pipeline", "lazy-ignores", "lbyl", "file-header", "performance",
                "unwrap-abuse", "clone-abuse", "blocking-async"]
EXTREME = {"nesting": {"max_nesting_depth": 1}, "srp": {"max_methods": 1, "max_loc": 2},
           "magic-numbers": {"allowed_numbers": [], "max_small_integer": 1},
           "dry": {"enabled": True, "min_duplicate_lines": 2}, "collection-pipeline": {"min_continues": 1},
           "unwrap-abuse": {"allow_expect": False, "allow_in_tests": False},
           "clone-abuse": {"allow_in_tests": False}, "blocking-async": {"allow_in_tests": False}}


def config_for(cmd: str, variant: str) -> dict:
    own = SECTION_OF.get(cmd, cmd)
    cfg: dict = {"dry": {"enabled": True, "min_duplicate_lines": 3}}
    if variant == "base":
        return cfg
    for s in ALL_SECTIONS:
        if s == own:
            continue
        if variant == "others_disabled":
            cfg[s] = {"enabled": False}
        elif variant == "others_ignore":
            cfg[s] = {"ignore": ["alpha", "beta", "aaa_tool", "**/*"]}
        else:
            cfg[s] = dict(EXTREME.get(s, {"enabled": True}))
    if own == "dry":
        cfg["dry"] = {"enabled": True, "min_duplicate_lines": 3}
    return cfg


# twin_neighbour: base settings, and a file with the SAME TEXT under another language's extension is linted first in the
# same run (a file is analysed according to ITS extension, whatever else is in the run)
# other_cwd: base settings, the command is started in another directory and names the project by its absolute path
VARIANTS = ("base", "others_disabled", "others_extreme", "others_ignore", "twin_neighbour", "other_cwd")
TWIN_EXT = {"ts": "rs", "tsx": "rs", "js": "rs", "jsx": "rs", "rs": "ts"}


def fname(stem: str, ext: str) -> str:
    return stem if ext == "none" else f"{stem}.{ext}"


def job(j: dict) -> dict:
    """One CLI invocation = one fresh process (fork): (probe file, settings variant, command)."""
    import yaml
    drive.preload()
    sb = {"no": "", "python": "#!/usr/bin/env python3\n", "pythonAbs": "#!/usr/bin/python3 -u\n", "bash": "#!/bin/bash\n",
          "shNote": "#!/bin/sh\n# wrapper that used to start python tooling\n"}[j["shebang"]]
    variant, cmd = j["variant"], j["cmd"]
    root = Path(j["root"])
    root.mkdir(parents=True)
    (root / ".git").mkdir()
    names = [fname("alpha", j["ext"]), fname("beta", j["ext"])]
    for n in names:
        (root / n).write_text(sb + CONTENT[j["content"]])
    # companions: an extensionless python-shebang script (analysed as python) listed first and an
    # extensionless file with python text but no shebang (unknown type) listed last
    (root / "aaa_tool").write_text("#!/usr/bin/env python3\n" + PY)
    (root / "zzz_notes").write_text(PY)
    if variant == "twin_neighbour":
        (root / ("aaa_twin." + TWIN_EXT[j["ext"].lower().split(".")[-1]])).write_text(sb + CONTENT[j["content"]])
    (root / ".thailint.yaml").write_text(yaml.safe_dump(config_for(cmd, "base" if variant in ("twin_neighbour", "other_cwd") else variant)))
    # (the twin is named first so that it is analysed before the probe files whatever the directory order is)
    twin = [n for n in os.listdir(root) if n.startswith("aaa_twin.")]
    if variant == "other_cwd":
        (root.parent / "elsewhere").mkdir(exist_ok=True)
        r = drive.cli_json([cmd, str(root)], cwd=root.parent / "elsewhere")
    else:
        r = drive.cli_json([cmd] + twin + ["."], cwd=root)
    bag = None
    if r["violations"] is not None:
        bag = sorted(canon([v["rule_id"], v["file_path"].split(".")[0].split("/")[-1], v["line"], v["column"],
                            v["message"].replace(names[0], "ALPHA").replace(names[1], "BETA")
                            .replace(str(root) + "/", "")])
                     for v in r["violations"] if not os.path.basename(v["file_path"]).startswith("aaa_twin."))

    def kind(v):
        b = os.path.basename(v["file_path"])
        return "tool" if b == "aaa_tool" else "notes" if b == "zzz_notes" else "twin" if b.startswith("aaa_twin.") else "probe"
    return {"exit": r["exit"], "bag": bag, "stderr": (r["stderr"] or "")[-200:],
            "rules": sorted({v["rule_id"] for v in (r["violations"] or [])}),
            "found": sorted({(kind(v), v["rule_id"].split(".")[0]) for v in (r["violations"] or [])})}


def run(chk) -> None:
    quick = chk.tier == "quick"
    drive.preload()
    chk.rule = ("cases = (extension spelling incl. upper/mixed case and unsupported types, shebang, language of the "
                "content, command) enumerated exhaustively by TLC from Languages.tla; each run under three "
                "settings of the other linters' sections; non-trivial = content language differs from the file's "
                "language, or an upper-case/unknown extension, or findings present; distinct by case")
    chk.assumptions = ["linter -> language support table (Languages.tla Supports) is taken from the linter docs: "
                       "python-only: method-property, stateless-class, lbyl, collection-pipeline, lazy-ignores; "
                       "rust-only: unwrap/clone/blocking; no rule supports java/go",
                       "file-placement is the only linter that may report on unrecognised file types"]
    r = tlc.run("Languages", "mc/Languages.cfg", workers=1, timeout=300)
    chk.add_tlc("Languages exhaustive", r)
    if r.violation:
        raise MachineryError("Languages.tla invariants violated:\n" + r.stdout[-1500:])
    cases = tlc.parse_cases(r.stdout)
    chk.exhaustive = True
    groups: dict = {}
    for c in cases:
        groups.setdefault((c["ext"], c["shebang"], c["content"]), []).append(c)
    jobs = []
    for (ext, sb, content), cs in sorted(groups.items()):
        cmds = sorted(c["cmd"] for c in cs)
        if quick:
            keep = [k for i, k in enumerate(cmds) if (i + len(ext) + len(content)) % 2 == 0 or ext in ("PY", "TS", "RS", "none", "txt")]
            cmds = keep
        jobs.append({"ext": ext, "shebang": sb, "content": content, "cmds": cmds})
    runs = []
    for j in jobs:
        for variant in VARIANTS:
            if variant == "twin_neighbour" and j["ext"].lower().split(".")[-1] not in TWIN_EXT:
                continue        # only the tree-sitter languages have a counterpart to be confused with
            if variant == "other_cwd" and quick and not (j["shebang"] != "no" or j["ext"] in ("none", "py", "ts", "rs", "txt")):
                continue
            for cmd in j["cmds"]:
                if variant == "twin_neighbour" and cmd in ("dry", "stringly-typed"):
                    continue    # cross-file rules legitimately see the twin's text as further evidence
                runs.append(dict(j, variant=variant, cmd=cmd, root=str(scratch_root() / f"c15-{len(runs)}")))
    log(f"C15: {len(jobs)} probe files, {len(runs)} invocations (one fresh process each)")
    res = pool.run_jobs(job, runs, nproc=NCPU, timeout=300)
    by = {}
    for j in jobs:
        by[(j["ext"], j["shebang"], j["content"])] = (j, {})
    for rj, r_ in zip(runs, res):
        if not r_.ok:
            raise MachineryError(f"C15 job failed: {r_.error}")
        by[(rj["ext"], rj["shebang"], rj["content"])][1][f"{rj['variant']}:{rj['cmd']}"] = r_.value
    lower = {"PY": "py", "Py": "py", "TS": "ts", "JS": "js", "RS": "rs"}
    records, meta = [], []
    for (ext, sb, content), (j, val) in sorted(by.items()):
        for cmd in j["cmds"]:
            o = val[f"base:{cmd}"]
            same_canon = True
            if ext in lower and (lower[ext], sb, content) in by and f"base:{cmd}" in by[(lower[ext], sb, content)][1]:
                same_canon = by[(lower[ext], sb, content)][1][f"base:{cmd}"]["bag"] == o["bag"]
            same_other = all(val[f"{v}:{cmd}"]["bag"] == o["bag"] and (v == "twin_neighbour" or val[f"{v}:{cmd}"]["exit"] == o["exit"])
                             for v in VARIANTS[1:-1] if f"{v}:{cmd}" in val)
            oc = val.get(f"other_cwd:{cmd}")
            same_cwd = oc is None or (oc["bag"] == o["bag"] and oc["exit"] == o["exit"])
            found = sorted({tuple(f) for v in VARIANTS if f"{v}:{cmd}" in val
                            for f in val[f"{v}:{cmd}"]["found"]})
            linters = sorted({l for k_, l in found if k_ == "probe"})
            records.append({"ext": ext, "shebang": sb, "cmd": cmd, "linters": linters,
                            "tool_linters": sorted({l for k_, l in found if k_ == "tool"}),
                            "notes_linters": sorted({l for k_, l in found if k_ == "notes"}),
                            "exit": o["exit"] if o["exit"] is not None else -9,
                            "same_as_canonical": same_canon, "same_with_other_settings": same_other,
                            "same_from_other_cwd": same_cwd})
            meta.append(({"ext": ext, "shebang": sb, "content": content, "cmd": cmd}, o, val))
    verdicts = trace.validate(chk, "LanguagesTrace", "mc/LanguagesTrace.cfg", records)
    for (case, o, val), rec, (la, lb, at) in zip(meta, records, verdicts):
        chk.count(case, nontrivial=bool(rec["linters"]) or case["ext"] not in ("py", "ts", "js", "rs"))
        if la == "ok":
            continue
        diffs = [v for v in VARIANTS[1:]
                 if f"{v}:{case['cmd']}" in val and val[f"{v}:{case['cmd']}"]["bag"] != o["bag"]] \
            if la in ("OtherSectionsMatter", "LanguageDependsOnCwd") else []
        chk.reject({"clause": la, "cmd": case["cmd"], "ext": case["ext"], "shebang": case["shebang"],
                    "content": case["content"], "linters": rec["linters"], "variants": diffs},
                   dict(case, rules=o["rules"], exit=o["exit"], stderr=o["stderr"]),
                   f"{la}: thailint {case['cmd']} on *.{case['ext']} (shebang {case['shebang']}) with "
                   f"{case['content']} content reports {rec['linters']} exit={o['exit']} {diffs}")
