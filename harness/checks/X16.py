"""X16 (beyond the listed properties) — which directory is the project root: --project-root, then the directory of the
--config file, then auto-detection (docs/cli-reference.md).

spec/Root.tla enumerates (--project-root absent / absolute / relative / missing / a file) x (--config absent / before /
after the command name) x working directory x spelling of the target; the root is observed through the .thailintignore
that takes effect (each candidate directory hides exactly its own probe file); RootTrace.tla judges every run.
"""
from __future__ import annotations

import os
from pathlib import Path

from .. import drive, pool, tlc, trace
from ..common import NCPU, MachineryError, scratch_root

PROBE = "def price_{x}(qty):\n    return qty * 4711\n"


def job(j: dict) -> dict:
    c = j["case"]
    top = Path(j["root"])
    for x, d in (("E", top / "rootE"), ("C", top / "rootC"), ("A", top / "projA")):
        d.mkdir(parents=True)
        (d / ".thailintignore").write_text(f"*skip_{x}.py\n")
    (top / "rootC" / ".thailint.yaml").write_text("magic-numbers:\n  enabled: true\n")
    (top / "projA" / ".git").mkdir()
    (top / "plain.txt").write_text("not a directory\n")
    code = top / "projA" / "code"
    code.mkdir()
    for x in ("E", "C", "A"):
        (code / f"skip_{x}.py").write_text(PROBE.format(x=x.lower()))
    (code / "keep.py").write_text(PROBE.format(x="keep"))
    cw = top / "projA" if c["cwd"] == "inside" else top
    tgt = str(code) if c["target"] == "abs" else os.path.relpath(code, cw)
    pre = []
    if c["explicit"] != "none":
        e = {"abs": str(top / "rootE"), "rel": os.path.relpath(top / "rootE", cw), "missing": str(top / "no_such_dir"),
             "file": str(top / "plain.txt")}[c["explicit"]]
        pre += ["--project-root", e]
    cfgopt = ["--config", str(top / "rootC" / ".thailint.yaml")]
    argv = pre + (cfgopt if c["config"] == "group" else []) + ["magic-numbers"] + (cfgopt if c["config"] == "command" else []) \
        + ["--format", "json", tgt]
    r = drive.cli_subprocess(argv, cwd=cw, timeout=120)
    viol, _ = drive.parse_json_violations(r["stdout"])
    reported = sorted({os.path.basename(v["file_path"]) for v in (viol or [])})
    hidden = [x for x in ("A", "C", "E") if f"skip_{x}.py" not in reported] if viol is not None else []
    return {"exit": r["exit"], "hidden": hidden, "reported": reported, "stderr": (r["stderr"] or "")[-200:], "argv": argv}


def run(chk) -> None:
    chk.rule = ("--project-root (absent, absolute, relative, non-existent, a file) x --config (absent, before the command, after "
                "the command) x working directory (inside the auto-detected project, its parent) x target spelling: 60 cases, "
                "all run as real processes")
    chk.assumptions = ["the root is observed through the .thailintignore that takes effect; the content of the --config file is "
                       "not judged here (C05)"]
    res = tlc.run("Root", "mc/Root.cfg", workers=1, timeout=300)
    if res.violation or res.error:
        raise MachineryError("Root.tla: laws fail or TLC error\n" + res.stdout[-2000:])
    chk.add_tlc("Root", res)
    cases = tlc.parse_cases(res.stdout)
    chk.exhaustive = True
    jobs = [{"case": c, "root": str(scratch_root() / f"x16-{i}")} for i, c in enumerate(cases)]
    results = pool.run_jobs(job, jobs, nproc=NCPU, timeout=600)
    records = []
    for j, r in zip(jobs, results):
        if not r.ok:
            raise MachineryError(f"X16 job failed: {r.error}")
        records.append({"explicit": j["case"]["explicit"], "config": j["case"]["config"],
                        "exit": r.value["exit"] if r.value["exit"] is not None else -9, "hidden": r.value["hidden"]})
    if not any(rec["hidden"] for rec in records):
        raise MachineryError("X16: no ignore file ever took effect (vacuous)")
    verdicts = trace.validate(chk, "RootTrace", "mc/RootTrace.cfg", records)
    for rec, j, r, (la, _lb, _at) in zip(records, jobs, results, verdicts):
        chk.count(j["case"], nontrivial=True)
        if la != "ok":
            c = j["case"]
            chk.reject({"clause": la, "explicit": c["explicit"], "config": c["config"], "expected_root": c["root"],
                        "hidden": "".join(rec["hidden"])},
                       {"case": c, "observed": r.value},
                       f"{la}: {' '.join(r.value['argv'][:-3])} (cwd {c['cwd']}, target {c['target']}): exit {rec['exit']}, "
                       f"probes hidden {rec['hidden']}, expected root {c['root']}; reported {r.value['reported']}")
