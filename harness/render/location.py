"""C12 probe files: one reportable construct per file, laid out by a Location.tla layout.

A template returns, for (name, split), the construct's lines and the 1-based range lo..hi (relative to its
first header line) on which its finding may be reported.  render() adds lead lines, an optional neutral item
before, enclosing frames, decorators, optional code after, and applies the line terminator / final newline.
"""
from __future__ import annotations

IND = {"python": "    ", "typescript": "  ", "rust": "    "}
EXT = {"python": "py", "typescript": "ts", "rust": "rs"}


def _py_deep(ind: str) -> list[str]:
    return [f"{ind}for a in xs:", f"{ind}    if a:", f"{ind}        while v:", f"{ind}            with ctx() as h:",
            f"{ind}                if h:", f"{ind}                    v = v - 1", f"{ind}return v"]


def _ts_deep(ind: str) -> list[str]:
    return [f"{ind}for (const a of xs) {{", f"{ind}  if (a) {{", f"{ind}    while (v) {{", f"{ind}      if (a > v) {{",
            f"{ind}        for (const b of xs) {{", f"{ind}          v = v - b;", f"{ind}        }}", f"{ind}      }}",
            f"{ind}    }}", f"{ind}  }}", f"{ind}}}", f"{ind}return v;"]


def _rs_deep(ind: str) -> list[str]:
    return [f"{ind}for a in 0..v {{", f"{ind}    if a > 0 {{", f"{ind}        while v > a {{", f"{ind}            if a > v {{",
            f"{ind}                loop {{", f"{ind}                    v = v - 1;", f"{ind}                    break;",
            f"{ind}                }}", f"{ind}            }}", f"{ind}        }}", f"{ind}    }}", f"{ind}}}", f"{ind}v"]


# every template: (lines, lo, hi) ; `name` is unique per file
def py_nesting(name, split):
    head = [f"def {name}(", "    xs,", "    v,", "    ctx,", "):"] if split else [f"def {name}(xs, v, ctx):"]
    return head + _py_deep("    "), 1, 1


def py_srp(name, split):
    head = [f"class {name}(", "    object,", "):"] if split else [f"class {name}:"]
    body = []
    for i in range(9):
        body += [f"    def op_{i}(self, v):", f"        return v + self.base_{i}", ""]
    return head + ["    def __init__(self):", "        self.base_0 = 0", ""] + body[:-1], 1, 1


def py_stateless(name, split):
    head = [f"class {name}(", "):"] if split else [f"class {name}:"]
    return head + ["    def first(self, v):", "        return v", "", "    def second(self, v):", "        return v"], 1, 1


def py_method_property(name, split):
    head = [f"    def get_{name}(", "        self,", "    ):"] if split else [f"    def get_{name}(self):"]
    pre = [f"class Holder{name.title()}:", "    def __init__(self, v):", f"        self._{name} = v", ""]
    return pre + head + [f"        return self._{name}"], 5, 5


def py_magic(name, split):
    if split:
        return [f"{name} = (", "    base_value", "    + 4711", ")"], 3, 3
    return [f"{name} = base_value + 4711"], 1, 1


def py_print(name, split):
    if split:
        return ["print(", f'    "{name}",', "    flush=True,", ")"], 1, 1
    return [f'print("{name}")'], 1, 1


def py_verbose(name, split):
    if split:
        return ["if verbose:", "    logger.debug(", f'        "{name}",', "    )"], 1, 2
    return ["if verbose:", f'    logger.debug("{name}")'], 1, 2


def py_concat(name, split):
    tail = [f"        {name} += (", "            str(item)", "        )"] if split else [f"        {name} += str(item)"]
    return [f"def build_{name}(items):", f'    {name} = ""', "    for item in items:"] + tail + [f"    return {name}"], 4, 4


def py_regex(name, split):
    call = ["        if re.match(", f"            {name}_pattern,", "            item,", "        ):"] if split \
        else [f"        if re.match({name}_pattern, item):"]
    return [f"def find_{name}(items, {name}_pattern):", "    for item in items:"] + call + ["            yield item"], 3, 3


def py_lbyl(name, split):
    return [f"if {name}_key in {name}_config:", f"    {name}_value = {name}_config[{name}_key]"], 1, 1


def py_pipeline(name, split):
    return [f"for {name}_item in {name}_items:", f"    if not {name}_item.is_valid():", "        continue",
            f"    process({name}_item)"], 1, 1


def py_cqs(name, split):
    head = [f"def {name}(", "    key,", "):"] if split else [f"def {name}(key):"]
    return head + ["    data = fetch_data(key)", "    result = validate(data)", "    save_to_db(result)",
                   "    notify_user(key)"], 1, 1


def py_lazy(name, split):
    return [f"{name} = complex_function()  # noqa: PLR0912"], 1, 1


def ts_nesting(name, split):
    head = [f"function {name}(", "  xs: number[],", "  v: number,", "): number {"] if split \
        else [f"function {name}(xs: number[], v: number): number {{"]
    return head + _ts_deep("  ") + ["}"], 1, 1


def ts_nesting_callback(name, split):
    """A deeply nested callback handed to a call whose result is bound to `name`: the finding is on the callback's line,
    which does not hold `name` - the message must not call the callback by that name."""
    head = [f"const {name} = createServer(", "  (xs: number[], v: number) => {"] if not split \
        else [f"const {name} =", "  createServer(", "  (xs: number[], v: number) => {"]
    return head + _ts_deep("    ") + ["  });"], len(head), len(head)


def ts_srp(name, split):
    head = [f"class {name}", "  extends BaseThing", "{"] if split else [f"class {name} {{"]
    body = []
    for i in range(9):
        body += [f"  op{i}(v: number): number {{", f"    return v + {i % 2};", "  }"]
    return head + body + ["}"], 1, 1


def ts_magic(name, split):
    if split:
        return [f"const {name} =", "  baseValue +", "  4711;"], 3, 3
    return [f"const {name} = baseValue + 4711;"], 1, 1


def _pick(name, n):
    return sum(ord(c) for c in name) % n


def ts_magic_spelled(name, split):
    """Literals not written the way str(value) prints them: hexadecimal, digit separators, exponent."""
    lit = ("0x1267", "4_711", "47.11e2", "0b1001001100111")[_pick(name, 4)]
    if split:
        return [f"const {name} =", "  baseValue + 4 - 4 +", f"  {lit};"], 3, 3
    return [f"const {name} = baseValue + {lit};"], 1, 1


def ts_print(name, split):
    if split:
        return ["console.log(", f'  "{name}",', ");"], 1, 1
    return [f'console.log("{name}");'], 1, 1


def ts_concat(name, split):
    tail = [f"    {name} +=", "      item;"] if split else [f"    {name} += item;"]
    return [f"function build{name}(items: string[]): string {{", f'  let {name} = "";', "  for (const item of items) {"] \
        + tail + ["  }", f"  return {name};", "}"], 4, 4


def rs_nesting(name, split):
    head = [f"pub fn {name}(", "    mut v: i32,", ") -> i32 {"] if split else [f"pub fn {name}(mut v: i32) -> i32 {{"]
    return head + _rs_deep("    ") + ["}"], 1, 1


def rs_srp(name, split):
    head = [f"pub struct {name}", "{", "    base: i32,", "}"] if split else [f"pub struct {name} {{", "    base: i32,", "}"]
    body = [f"impl {name} {{"]
    for i in range(9):
        body += [f"    pub fn op_{i}(&self, v: i32) -> i32 {{", "        v + self.base", "    }"]
    return head + [""] + body + ["}"], 1, 1


def rs_magic(name, split):
    if split:
        return [f"fn {name}(base_value: i32) -> i32 {{", "    base_value", "        + 4711", "}"], 3, 3
    return [f"fn {name}(base_value: i32) -> i32 {{", "    base_value + 4711", "}"], 2, 2


def rs_magic_spelled(name, split):
    lit = ("0x1267", "4_711", "4_711i32", "0o11147")[_pick(name, 4)]
    if split:
        return [f"fn {name}(base_value: i32) -> i32 {{", "    base_value", f"        + {lit}", "}"], 3, 3
    return [f"fn {name}(base_value: i32) -> i32 {{", f"    base_value + {lit}", "}"], 2, 2


def rs_unwrap(name, split):
    if split:   # short receiver line, deeply aligned continuation lines
        return [f"fn {name}(p: &str) -> i32 {{", "    let v =", "        p", "                        .trim()",
                "                        .parse::<i32>()", "                        .unwrap();", "    v", "}"], 2, 6
    return [f"fn {name}(p: &str) -> i32 {{", "    let v = p.trim().parse::<i32>().unwrap();", "    v", "}"], 2, 2


def rs_clone(name, split):
    call = ["        let owned =", "            item", "                            .clone();"] if split \
        else ["        let owned = item.clone();"]
    return [f"fn {name}(items: &Vec<String>) {{", "    for item in items {"] + call + ["        handle(owned);", "    }", "}"], \
        3, 5 if split else 3


def rs_blocking(name, split):
    call = ["    let data =", "        std::fs::read_to_string(", "            path,", "        );"] if split \
        else ["    let data = std::fs::read_to_string(path);"]
    return [f"async fn {name}(path: &str) {{"] + call + ["    consume(data);", "}"], 2, 3 if split else 2


NEUTRAL = {
    "python": ["def neutral_item(value):", "    kept = value", "    return kept", ""],
    "typescript": ["function neutralItem(value: number): number {", "  return value;", "}", ""],
    "rust": ["fn neutral_item(value: i32) -> i32 {", "    value", "}", ""],
}
TAIL = {
    "python": ["", "def trailing_item(value):", "    return value"],
    "typescript": ["", "function trailingItem(value: number): number {", "  return value;", "}"],
    "rust": ["", "fn trailing_item(value: i32) -> i32 {", "    value", "}"],
}

# id -> (language, command, builder, frame kind, decorators allowed, split exists, config text)
TEMPLATES = {
    "py_nesting": ("python", "nesting", py_nesting, "class", True, True, "{}\n"),
    "py_srp": ("python", "srp", py_srp, "func", True, True, "{}\n"),
    "py_stateless": ("python", "stateless-class", py_stateless, "func", False, True, "{}\n"),
    "py_method_property": ("python", "method-property", py_method_property, "func", False, True, "{}\n"),
    "py_magic": ("python", "magic-numbers", py_magic, "if", False, True, "{}\n"),
    "py_print": ("python", "print-statements", py_print, "if", False, True, "{}\n"),
    "py_verbose": ("python", "improper-logging", py_verbose, "func", False, True, "{}\n"),
    "py_concat": ("python", "perf", py_concat, "class", True, True, "{}\n"),
    "py_regex": ("python", "perf", py_regex, "class", True, True, "{}\n"),
    "py_lbyl": ("python", "lbyl", py_lbyl, "func", False, False, "{}\n"),
    "py_pipeline": ("python", "pipeline", py_pipeline, "func", False, False, "{}\n"),
    "py_cqs": ("python", "cqs", py_cqs, "class", True, True, "{}\n"),
    "py_lazy": ("python", "lazy-ignores", py_lazy, "func", False, False, "{}\n"),
    "ts_nesting": ("typescript", "nesting", ts_nesting, "if", False, True, "{}\n"),
    "ts_nesting_callback": ("typescript", "nesting", ts_nesting_callback, "if", False, True, "{}\n"),
    "ts_srp": ("typescript", "srp", ts_srp, "if", False, True, "{}\n"),
    "ts_magic": ("typescript", "magic-numbers", ts_magic, "func", False, True, "{}\n"),
    "ts_magic_spelled": ("typescript", "magic-numbers", ts_magic_spelled, "func", False, True, "{}\n"),
    "ts_print": ("typescript", "print-statements", ts_print, "func", False, True, "{}\n"),
    "ts_concat": ("typescript", "perf", ts_concat, "if", False, True, "{}\n"),
    "rs_nesting": ("rust", "nesting", rs_nesting, "mod", True, True, "{}\n"),
    "rs_srp": ("rust", "srp", rs_srp, "mod", True, True, "{}\n"),
    "rs_magic": ("rust", "magic-numbers", rs_magic, "mod", True, True, "{}\n"),
    "rs_magic_spelled": ("rust", "magic-numbers", rs_magic_spelled, "mod", True, True, "{}\n"),
    "rs_unwrap": ("rust", "unwrap-abuse", rs_unwrap, "mod", True, True, "{}\n"),
    "rs_clone": ("rust", "clone-abuse", rs_clone, "mod", True, True, "{}\n"),
    "rs_blocking": ("rust", "blocking-async", rs_blocking, "mod", True, True, "{}\n"),
}


def frame(lang: str, kind: str, i: int, depth: int) -> tuple[str, list[str]]:
    p = IND[lang] * depth
    if lang == "python":
        head = {"class": f"class Outer{i}:", "func": f"def outer_{i}():", "if": f"if outer_flag_{i}:"}[kind]
        return p + head, []
    if lang == "typescript":
        head = {"func": f"function outer{i}() {{", "if": f"if (outerFlag{i}) {{"}[kind]
        return p + head, [p + "}"]
    head = {"mod": f"mod outer_{i} {{", "func": f"fn outer_{i}() {{"}[kind]
    return p + head, [p + "}"]


def decorators(lang: str, tid: str, n: int, pad: str) -> list[str]:
    if lang == "python":
        return [pad + f"@decorated_{k}" for k in range(n)]
    if lang == "rust":
        pool = ["#[allow(dead_code)]", "#[derive(Debug)]"] if tid == "rs_srp" else ["#[allow(dead_code)]", "#[inline]"]
        return [pad + pool[k] for k in range(n)]
    return []


def render(tid: str, l: dict, name: str) -> dict:
    lang, _cmd, build, fkind, _decor_ok, _has_split, _cfg = TEMPLATES[tid]
    body, lo, hi = build(name, l["split"])
    out: list[str] = []
    lead = ["", "# leading comment" if lang == "python" else "// leading comment"]
    for k in range(l["lead"]):
        out.append(lead[k % 2])
    pre = len(NEUTRAL[lang]) if l["pos"] == "last" else 0
    if pre:
        out += NEUTRAL[lang]
    closers: list[list[str]] = []
    for d in range(l["depth"]):
        h, c = frame(lang, fkind, d, d)
        out.append(h)
        closers.append(c)
    pad = IND[lang] * l["depth"]
    out += decorators(lang, tid, l["decor"], pad)
    top = len(out) + 1
    out += [pad + s if s else s for s in body]
    for c in reversed(closers):
        out += c
    if l["tail"]:
        out += TAIL[lang]
    eol = "\r\n" if l["eol"] == "crlf" else "\n"
    text = eol.join(out) + (eol if l["finalNl"] else "")
    return {"text": text, "top": top, "lo": lo, "hi": hi, "pre": pre, "lang": lang, "nlines": len(out)}
