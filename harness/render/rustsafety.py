"""Render RustSafety.tla sites: one function per site, the risky call on a line of its own."""
from __future__ import annotations

ITEM = {
    "unwrap": (["let v = opt.unwrap();"], 0, ["let _ = v;"]),
    "expect": (["let v = opt.expect(\"value present\");"], 0, ["let _ = v;"]),
    "unwrapChain2": (["let v = opt.map(|x| x + 1).unwrap().checked_add(1).unwrap();"], 0, ["let _ = v;"]),
    "unwrapChainLines": (["let v = opt", "    .map(|x| x + 1)", "    .unwrap()", "    .checked_add(1)", "    .unwrap();"], 0, ["let _ = v;"]),
    "expectThenUnwrap": (["let v = opt.expect(\"value present\").checked_add(1).unwrap();"], 0, ["let _ = v;"]),
    # the source `d` is used again afterwards, so the clone is not "unnecessary"
    "clonePlain": (["let c = d.clone();"], 0, ["let _ = c.len() + d.len();"]),
    # the source is rebound by a later `let` whose initializer reads the old binding: still a use after the clone
    "cloneLetShadowed": (["let c = d.clone();"], 0, ["let d = d.trim().len();", "let _ = c.len() + d;"]),
    "cloneChain": (["let c = d.clone().clone();"], 0, ["let _ = c.len() + d.len();"]),
    # the source `d` is never used after the clone
    "cloneLetUnused": (["let c = d.clone();"], 0, ["let _ = c.len();"]),
    # the clone stands in the condition of a loop of its own
    "cloneWhileCond": (["while d.clone().len() > 100 {", "    break;", "}"], 0, ["let _ = d.len();"]),
    # ... and its name only occurs in a comment, a string and as a field of another value afterwards
    "cloneLetMentioned": (["let c = d.clone();"], 0, ["// d is not needed below", "let other = Holder { d: c.len() };",
                                                     "let _ = (\"d was copied\", other.d);"]),
    "blockFs": (["let t = std::fs::read_to_string(p);"], 0, ["let _ = t;"]),
    "blockFsUse": (["let t = fs::read_to_string(p);"], 0, ["let _ = t;"]),
    "blockSleep": (["std::thread::sleep(std::time::Duration::from_secs(2));"], 0, []),
    "blockNet": (["let s = std::net::TcpStream::connect(p);"], 0, ["let _ = s;"]),
}


def site_lines(k: int, site: dict) -> tuple[list[str], int]:
    """Returns (lines, index of the line with the call)."""
    out: list[str] = []
    depth = 0

    def emit(s):
        out.append("    " * depth + s)

    mods = {"none": [], "plain": ["plain"], "cfgtest": ["cfgtest"], "cfgtestOuter": ["cfgtest", "plain"]}[site["mod"]]
    for i, m in enumerate(mods):
        if m == "cfgtest":
            emit("#[cfg(test)]")
        emit(f"mod m{k}_{i} {{")
        depth += 1
    if site["fn"] == "test":
        emit("#[test]")
    elif site["fn"] == "testAttrs":
        emit("#[allow(unused)]")
        emit("#[test]")
        emit("#[ignore]")
    sig = f"fn site_{k}(opt: Option<i32>, d: String, p: &str)"
    emit(("async " if site["fn"] == "async" else "") + sig + " {")
    depth += 1
    closers = []
    for inner in site["inner"]:
        if inner == "for":
            emit("for _i in 0..3 {")
            closers.append("}")
        elif inner == "while":
            emit("while p.len() > 100 {")
            closers.append("}")
        elif inner == "loop":
            emit("loop {")
            closers.append("LOOP")
        elif inner == "closure":
            emit("let run = || {")
            closers.append("CLOSURE")
        elif inner == "asyncfn":
            emit(f"async fn inner_{k}(opt: Option<i32>, d: String, p: &str) {{")
            closers.append("}")
        elif inner == "spawn_blocking":
            emit("tokio::task::spawn_blocking(move || {")
            closers.append("});")
        else:
            emit("tokio::task::block_in_place(|| {")
            closers.append("});")
        depth += 1
    body, idx, after = ITEM[site["item"]]
    call_index = len(out) + idx
    for b in body:
        emit(b)
    for a in after:
        emit(a)
    for c in reversed(closers):
        if c == "LOOP":
            emit("break;")
            depth -= 1
            emit("}")
        elif c == "CLOSURE":
            depth -= 1
            emit("};")
            emit("run();")
        else:
            depth -= 1
            emit(c)
    depth -= 1
    emit("}")
    for _ in mods:
        depth -= 1
        emit("}")
    return out, call_index


def render(sites: list[dict], salt: int) -> tuple[str, list[int]]:
    lines = ["use std::fs;", ""]
    where = []
    for k, s in enumerate(sites):
        body, idx = site_lines(salt * 1000 + k, s)
        where.append(len(lines) + idx + 1)
        lines += body + [""]
    return "\n".join(lines) + "\n", where
