"""Render Nesting.tla token sequences into Python, TypeScript and Rust functions.

Every renderer returns (lines, header_line_offset): the source lines of one function and the
0-based offset of its `def` / `function` / `fn` header within those lines (for C12).
"""
from __future__ import annotations

class Unsupported(Exception):
    """The language cannot express this token sequence (e.g. two catch clauses in TypeScript)."""


FORMS = {"python": ["def", "async", "method", "decorated", "withHelper"],
         "typescript": ["function", "arrow", "method", "fnexpr"],
         "rust": ["fn", "impl", "pubfn"]}


def python(name: str, toks: list, form: str) -> tuple[list[str], int]:
    out: list[str] = []
    base = 0
    hdr = 0
    if form == "method":
        out.append(f"class Holder{name.title().replace('_', '')}:")
        base = 1
        hdr = 1
        out.append("    " * base + "def handle(self, x, xs, v, ctx):")   # same method name in every class
    elif form == "async":
        out.append(f"async def {name}(x, xs, v, ctx):")
    elif form == "decorated":
        out.append("@staticmethod_like")
        hdr = 1
        out.append(f"def {name}(x, xs, v, ctx):")
    else:
        out.append(f"def {name}(x, xs, v, ctx):")
    depth = base + 1
    stack: list[dict] = []

    def emit(s):
        out.append("    " * depth + s)

    emit("x = x + 1")
    # form "withHelper": nested function definitions are not control structures (Nesting.tla, NeutralStatements).  A
    # helper that itself holds a helper is defined right after the DEEPEST statement: the enclosing function keeps its
    # depth, both helpers are flat functions
    deepest, h, best = -1, 0, 0
    for n, (kind, _arg) in enumerate(toks):
        if kind == "open":
            h += 1
            if h > best:
                best, deepest = h, n
        elif kind == "close":
            h -= 1
    for n_tok, (kind, arg) in enumerate(toks):
        if kind == "open":
            head = {"if": "if x > 0:", "for": "for item in xs:", "while": "while x < v:",
                    "with": "with ctx() as handle:", "try": "try:", "match": "match v:"}[arg]
            emit(head)
            stack.append({"kind": arg, "branched": False})
            depth += 1
            if arg == "match":
                emit("case 1:")
                depth += 1
            emit("x = x + 2")
            if form == "withHelper" and n_tok == deepest:
                emit("def _step(y):")
                emit("    def _inner(z):")
                emit("        return z + 1")
                emit("    return _inner(y)")
                emit("x = _step(x)")
        elif kind == "branch":
            top = stack[-1]
            top["branched"] = True
            if top["kind"] == "match":
                depth -= 1
                emit("case _:" if arg == "case" and False else f"case {len(out)}:")
                depth += 1
            else:
                depth -= 1
                emit({"elif": "elif x > 5:", "else": "else:", "except": "except ValueError:", "finally": "finally:"}[arg])
                depth += 1
            emit("x = x + 3")
        else:
            top = stack.pop()
            if top["kind"] == "try" and not top["branched"]:
                depth -= 1
                emit("except KeyError:")
                depth += 1
                emit("x = x + 4")
            depth -= 2 if top["kind"] == "match" else 1
    emit("return x")
    return out, hdr


def _braces(name: str, toks: list, header: list[str], footer: list[str], base: int, rust: bool) -> list[str]:
    out = list(header)
    depth = base + 1
    stack: list[dict] = []
    ind = "  " if not rust else "    "

    def emit(s):
        out.append(ind * depth + s)

    emit("x = x + 1;")
    for kind, arg in toks:
        if kind == "open":
            if rust:
                head = {"if": "if x > 0 {", "for": "for item in 0..v {", "while": "while x < v {", "loop": "loop {",
                        "match": "match v {", "closure": "let mut step = |y: i32| {"}[arg]
            else:
                head = {"if": "if (x > 0) {", "for": "for (const item of xs) {", "while": "while (x < v) {",
                        "try": "try {", "match": "switch (v) {"}[arg]
            emit(head)
            stack.append({"kind": arg, "branched": False, "arms": 1})
            depth += 1
            if arg == "match":
                emit("1 => {" if rust else "case 1:")
                depth += 1
            emit("x = x + 2;" if arg != "closure" else "let _z = y + 2;")
        elif kind == "branch":
            top = stack[-1]
            if arg == "except" and top.get("caught") and not rust:
                raise Unsupported("TypeScript has a single catch clause")
            if arg == "except":
                top["caught"] = True
            top["branched"] = True
            if top["kind"] == "match":
                top["arms"] += 1
                if rust:
                    depth -= 1
                    emit("}")
                else:
                    emit("break;")
                    depth -= 1
                emit(f"{top['arms'] + 10} => {{" if rust else f"case {top['arms'] + 10}:")
                depth += 1
            else:
                depth -= 1
                emit({"elif": "} else if x > 5 {" if rust else "} else if (x > 5) {", "else": "} else {",
                      "except": "} catch (err) {", "finally": "} finally {"}[arg])
                depth += 1
            emit("x = x + 3;")
        else:
            top = stack.pop()
            if top["kind"] == "match":
                if rust:
                    depth -= 1
                    emit("}")
                    emit("_ => {}")
                else:
                    emit("break;")
                    depth -= 1
                depth -= 1
                emit("}")
            elif top["kind"] == "try" and not top["branched"]:
                depth -= 1
                emit("} catch (err) {")
                depth += 1
                emit("x = x + 4;")
                depth -= 1
                emit("}")
            elif top["kind"] == "loop":
                emit("break;")
                depth -= 1
                emit("}")
            elif top["kind"] == "closure":
                depth -= 1
                emit("};")
                emit("step(x);")
            else:
                depth -= 1
                emit("}")
    emit("return x;")
    out += footer
    return out


def typescript(name: str, toks: list, form: str) -> tuple[list[str], int]:
    sig = "(x: number, xs: number[], v: number): number"
    if form == "arrow":
        return _braces(name, toks, [f"const {name} = {sig} => {{"], ["};"], 0, False), 0
    if form == "fnexpr":
        return _braces(name, toks, [f"const {name} = function {sig} {{"], ["};"], 0, False), 0
    if form == "method":
        return _braces(name, toks, [f"class Holder{name.replace('_', '')} {{", f"  handle{sig} {{"], ["  }", "}"], 1, False), 1
    return _braces(name, toks, [f"function {name}{sig} {{"], ["}"], 0, False), 0


def rust(name: str, toks: list, form: str) -> tuple[list[str], int]:
    sig = f"{name}(mut x: i32, v: i32) -> i32"
    if form == "impl":
        sig = "handle(mut x: i32, v: i32) -> i32"
        return _braces(name, toks, [f"struct Holder{name.replace('_', '')};", f"impl Holder{name.replace('_', '')} {{",
                                    f"    fn {sig} {{"], ["    }", "}"], 1, True), 2
    if form == "pubfn":
        return _braces(name, toks, ["#[inline]", f"pub fn {sig} {{"], ["}"], 0, True), 1
    return _braces(name, toks, [f"fn {sig} {{"], ["}"], 0, True), 0


RENDER = {"python": python, "typescript": typescript, "rust": rust}
EXT = {"python": "py", "typescript": "ts", "rust": "rs"}
