"""Render the MagicNumbers.tla item universe: one literal item per source line, per language."""
from __future__ import annotations

SPELL = {1: "7", 2: "37", 3: "4200", 4: "3.14", 5: "0x2A", 6: "1_000_000", 7: "1e6", 8: "100_i32", 9: "250", 10: "0x1f4", 11: "0xFF", 12: "2_000", 13: "4e2"}
NUM = {1: 7, 2: 37, 3: 4200, 4: 3.14, 5: 42, 6: 1000000, 7: 1000000.0, 8: 100, 9: 250, 10: 500, 11: 255, 12: 2000, 13: 400.0}
EXT = {"python": "py", "typescript": "ts", "rust": "rs"}


def _py(slot, k, s):
    """Returns (lines, index of the line that carries the literal)."""
    f = f"    "
    return {
        "assign": ([f"def a_{k}(x):", f"    local_a = {s}", "    return local_a"], 1),
        "callArg": ([f"def c_{k}(f):", f"    f({s})"], 1),
        "kwArg": ([f"def k_{k}(f):", f"    f(key={s})"], 1),
        "returnExpr": ([f"def r_{k}():", f"    return {s}"], 1),
        "defaultParam": ([f"def d_{k}(p={s}):", "    return p"], 0),
        "arrayElem": ([f"def l_{k}(x):", f"    items = [x, {s}]", "    return items"], 1),
        "mapValue": ([f"def m_{k}():", f"    table = {{\"k\": {s}}}", "    return table"], 1),
        "tupleElem": ([f"def t_{k}(x):", f"    pair = (x, {s})", "    return pair"], 1),
        "binop": ([f"def b_{k}(x):", f"    y = x * {s}", "    return y"], 1),
        "compare": ([f"def q_{k}(x):", f"    if x > {s}:", "        return x", "    return None"], 1),
        "index": ([f"def i_{k}(xs):", f"    z = xs[{s}]", "    return z"], 1),
        "twoOnLine": ([f"def w_{k}(f):", f"    f({s}, {s})"], 1),
        "classAttr": ([f"class C{k}:", f"    attr = {s}"], 1),
        "rangeArg": ([f"def g_{k}(f):", f"    for i in range({s}):", "        f(i)"], 1),
        "enumerateArg": ([f"def e_{k}(f, xs):", f"    for i, e in enumerate(xs, {s}):", "        f(i, e)"], 1),
        "strRepeat": ([f"def s_{k}():", f"    line = \"-\" * {s}", "    return line"], 1),
        "strKeyMul": ([f"def sk_{k}(cfg):", f"    y = cfg[\"timeout\"] * {s}", "    return y"], 1),
        "upperConst": ([f"MAX_{k} = {s}"], 0),
        "annUpperConst": ([f"LIMIT_{k}: float = {s}"], 0),
        "nestedFunc": ([f"def n_{k}(x):", "    def inner():", f"        return x + {s}", "    return inner"], 2),
        "fstringInterp": ([f"def fs_{k}(x):", f"    return f\"v {{x * {s}}}\""], 1),
        "lambdaBody": ([f"def lm_{k}():", f"    return lambda x: x + {s}"], 1),
        "ternary": ([f"def tn_{k}(x):", f"    return x if x else {s}"], 1),
        "comprehension": ([f"def cp_{k}(xs):", f"    return [x * {s} for x in xs]"], 1),
        "sliceBound": ([f"def sl_{k}(xs):", f"    return xs[:{s}]"], 1),
        "unaryMinus": ([f"def um_{k}(x):", f"    return x + -{s}"], 1),
        "classUpperConst": ([f"class Limits{k}:", f"    LIMIT_{k} = {s}"], 1),
        "localUpperConst": ([f"def lc_{k}():", f"    LOCAL_{k} = {s}", f"    return LOCAL_{k}"], 1),
        "upperCallArg": ([f"TOTAL_{k} = max({s}, len(__name__))"], 0),
        "upperFuncBody": ([f"HANDLER_{k} = lambda x: x + {s}"], 0),
    }[slot]


def _ts(slot, k, s):
    return {
        "assign": ([f"function a{k}(): number {{", f"  let localA = {s};", "  return localA;", "}"], 1),
        "lowerConst": ([f"const lower{k} = {s};"], 0),
        "upperConst": ([f"const MAX_{k} = {s};"], 0),
        "callArg": ([f"function c{k}(f: (n: number) => void): void {{", f"  f({s});", "}"], 1),
        "returnExpr": ([f"function r{k}(): number {{", f"  return {s};", "}"], 1),
        "defaultParam": ([f"function d{k}(p: number = {s}): number {{", "  return p;", "}"], 0),
        "arrayElem": ([f"function l{k}(x: number): number[] {{", f"  const items = [x, {s}];", "  return items;", "}"], 1),
        "mapValue": ([f"function m{k}(): object {{", f"  const table = {{ k: {s} }};", "  return table;", "}"], 1),
        "binop": ([f"function b{k}(x: number): number {{", f"  const y = x * {s};", "  return y;", "}"], 1),
        "compare": ([f"function q{k}(x: number): boolean {{", f"  if (x > {s}) {{", "    return true;", "  }", "  return false;", "}"], 1),
        "index": ([f"function i{k}(xs: number[]): number {{", f"  const z = xs[{s}];", "  return z;", "}"], 1),
        "twoOnLine": ([f"function w{k}(f: (a: number, b: number) => void): void {{", f"  f({s}, {s});", "}"], 1),
        "classAttr": ([f"class C{k} {{", f"  attr = {s};", "}"], 1),
        "enumMember": ([f"enum E{k} {{", f"  A = {s},", "}"], 1),
        "templateInterp": ([f"function ti{k}(x: number): string {{", f"  return `v ${{x * {s}}}`;", "}"], 1),
        "arrowBody": ([f"const ab{k} = (x: number): number => x + {s};"], 0),
        "ternary": ([f"function tn{k}(x: number): number {{", f"  return x ? x : {s};", "}"], 1),
        "upperCallArg": ([f"const TOTAL_{k} = Math.max({s}, process.argv.length);"], 0),
        "upperFuncBody": ([f"const HANDLER_{k} = (x: number): number => {{", f"  return x + {s};", "};"], 1),
    }[slot]


def _rs(slot, k, s):
    ty = "f64" if "." in s or "e" in s else "i64"
    return {
        "assign": ([f"fn a_{k}(mut a: {ty}) -> {ty} {{", f"    a = {s};", "    a", "}"], 1),
        "letBinding": ([f"fn l_{k}() -> {ty} {{", f"    let b = {s};", "    b", "}"], 1),
        "constItem": ([f"const MAX_{k}: {ty} = {s};"], 0),
        "staticItem": ([f"static LIM_{k}: {ty} = {s};"], 0),
        "callArg": ([f"fn c_{k}(f: fn({ty})) {{", f"    f({s});", "}"], 1),
        "returnExpr": ([f"fn r_{k}() -> {ty} {{", f"    return {s};", "}"], 1),
        "arrayElem": ([f"fn v_{k}(x: {ty}) -> usize {{", f"    let items = [x, {s}];", "    items.len()", "}"], 1),
        "mapValue": ([f"fn m_{k}() -> Point{k} {{", f"    let p = Point{k} {{ k: {s} }};", "    p", "}"], 1),
        "binop": ([f"fn b_{k}(x: {ty}) -> {ty} {{", f"    let y = x * {s};", "    y", "}"], 1),
        "compare": ([f"fn q_{k}(x: {ty}) -> bool {{", f"    if x > {s} {{", "        return true;", "    }", "    false", "}"], 1),
        "index": ([f"fn i_{k}(xs: &[i64]) -> i64 {{", f"    let z = xs[{s}];", "    z", "}"], 1),
        "twoOnLine": ([f"fn w_{k}(f: fn({ty}, {ty})) {{", f"    f({s}, {s});", "}"], 1),
        "enumDiscriminant": ([f"enum E{k} {{", f"    A = {s},", "}"], 1),
        "testFn": (["#[test]", f"fn t_{k}() {{", f"    let v = {s};", "    assert!(v == v);", "}"], 2),
    }[slot]


NONLIT = {
    "python": ["def nonlit(x):", "    flag = True", "    other = False", "    s = \"abc123 37 4200\"", "    value37 = x", "    return flag, other, s, value37"],
    "typescript": ["function nonlit(x: number): unknown[] {", "  const flag = true;", "  const other = false;", "  const s = \"abc123 37 4200\";", "  const value37 = x;", "  return [flag, other, s, value37];", "}"],
    "rust": ["fn nonlit(x: i64) -> i64 {", "    let flag = true;", "    let other = false;", "    let s = \"abc123 37 4200\";", "    let value37 = x;", "    if flag && !other && !s.is_empty() { value37 } else { x }", "}"],
}


LONE = {"python": "def scale(value):\n    return value * {s}\n",
        "typescript": "export function scale(value: number): number {{\n  return value * {s};\n}}\n",
        "rust": "fn scale(value: f64) -> f64 {{\n    value * ({s} as f64)\n}}\n"}


def render(lang: str, items: list[tuple[str, int]]) -> tuple[str, dict[int, tuple[str, int]], set[int]]:
    """Returns (source, {line: (slot, v)}, lines of the non-literal probes)."""
    fn = {"python": _py, "typescript": _ts, "rust": _rs}[lang]
    lines: list[str] = []
    where: dict[int, tuple[str, int]] = {}
    for n, (slot, v) in enumerate(sorted(items)):
        body, idx = fn(slot, f"{n}", SPELL[v])
        where[len(lines) + idx + 1] = (slot, v)
        lines += body + [""]
    start = len(lines)
    lines += NONLIT[lang]
    nonlit = set(range(start + 1, len(lines) + 1))
    return "\n".join(lines) + "\n", where, nonlit
