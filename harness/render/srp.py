"""Render Srp.tla class shapes into Python / TypeScript classes and Rust struct+impl blocks.

render(lang, shape, name) -> (lines, header_offset, layout) where layout holds the code-line counts the
rendering contributes per member kind (so that Srp.tla's Loc(c) describes exactly this text).
"""
from __future__ import annotations

APPLICABLE = {"python": {"pub", "stat", "clsm", "priv", "dunder", "prop", "setter", "ctor"},
              "typescript": {"pub", "stat", "priv"},
              "rust": {"pub", "priv"}}


def project(lang: str, shape: dict) -> dict:
    s = dict(shape)
    for k in ("pub", "stat", "clsm", "priv", "dunder", "prop", "setter", "ctor"):
        if k not in APPLICABLE[lang]:
            s[k] = 0
    if s["setter"] and not s["prop"]:
        s["setter"] = 0
    return s


def _sprinkle(body: list[str], blank: int, comment: int, ind: str, cm: str) -> list[str]:
    out = list(body)
    pos = 1
    for i in range(blank):
        out.insert(min(pos, len(out)), "")
        pos += 2
    for i in range(comment):
        out.insert(min(pos, len(out)), f"{ind}{cm} note {i} on this class")
        pos += 2
    return out


def python(shape: dict, name: str):
    s = project("python", shape)
    # every third fill line is code that BEGINS with another language's comment marker (a starred assignment)
    body: list[str] = [(f'    *rest_{i}, last_{i} = "v{i}", "w{i}"' if i % 3 == 1 else f'    attr_{i} = "v{i}"') for i in range(s["fill"])]
    if s["ctor"]:
        body += ["    def __init__(self):", "        self.v = 0"]
    for i in range(s["pub"]):
        body += [f"    def pub_{i}(self):", "        return self.v"]
    for i in range(s["stat"]):
        body += ["    @staticmethod", f"    def stat_{i}():", '        return "s"']
    for i in range(s["clsm"]):
        body += ["    @classmethod", f"    def clsm_{i}(cls):", "        return cls"]
    for i in range(s["priv"]):
        body += [f"    def _priv_{i}(self):", "        return self.v"]
    for i in range(s["dunder"]):
        body += ["    def __str__(self):", '        return "x"']
    for i in range(s["prop"]):
        body += ["    @property", "    def prop_a(self):", "        return self.v"]
    for i in range(s["setter"]):
        body += ["    @prop_a.setter", "    def prop_a(self, value):", "        self.v = value"]
    footer = 0
    if not body:
        body = ["    pass"]
        footer = 1
    body = _sprinkle(body, s["blank"], s["comment"], "    ", "#")
    layout = {"headerLines": 1, "footerLines": footer, "lpub": 2, "lstat": 3, "lclsm": 3, "lpriv": 2, "ldunder": 2,
              "lprop": 3, "lsetter": 3, "lctor": 2}
    return [f"class {name}:"] + body, 0, layout, s


def typescript(shape: dict, name: str):
    s = project("typescript", shape)
    # every third field is an ECMAScript private field: the line begins with `#`
    body = [(f'  #secret{i} = "v{i}";' if i % 3 == 1 else f'  field{i} = "v{i}";') for i in range(s["fill"])]
    for i in range(s["pub"]):
        body += [f"  pub{i}(): number {{ return 1; }}"]
    for i in range(s["stat"]):
        body += [f"  static stat{i}(): number {{ return 1; }}"]
    for i in range(s["priv"]):
        body += [f"  _priv{i}(): number {{ return 1; }}"]
    body = _sprinkle(body, s["blank"], s["comment"], "  ", "//")
    layout = {"headerLines": 1, "footerLines": 1, "lpub": 1, "lstat": 1, "lclsm": 0, "lpriv": 1, "ldunder": 0,
              "lprop": 0, "lsetter": 0, "lctor": 0}
    return [f"class {name} {{"] + body + ["}"], 0, layout, s


def rust(shape: dict, name: str, split: bool = False):
    s = project("rust", shape)
    # every third field carries an attribute on its own line's start: the line begins with `#`
    fields = [(f"    #[allow(dead_code)] f{i}: i64," if i % 3 == 1 else f"    f{i}: i64,") for i in range(s["fill"])]
    methods = [f"    pub fn pub_{i}(&self) -> i64 {{ 1 }}" for i in range(s["pub"])]
    privs = [f"    fn _priv_{i}(&self) -> i64 {{ 1 }}" for i in range(s["priv"])]
    struct_part = [f"struct {name} {{"] + fields + ["}", ""]
    lines = list(struct_part)
    footer = 1   # closing brace of the struct
    if split and len(methods) >= 2:
        first = _sprinkle(methods[:1] + privs, s["blank"], s["comment"], "    ", "//")
        lines += [f"impl {name} {{"] + first + ["}", "", f"impl {name} {{"] + methods[1:] + ["}"]
        footer += 4
    else:
        body = _sprinkle(methods + privs, s["blank"], s["comment"], "    ", "//")
        lines += [f"impl {name} {{"] + body + ["}"]
        footer += 2
    layout = {"headerLines": 1, "footerLines": footer, "lpub": 1, "lstat": 0, "lclsm": 0, "lpriv": 1, "ldunder": 0,
              "lprop": 0, "lsetter": 0, "lctor": 0}
    return lines, 0, layout, s, len(struct_part)


EXT = {"python": "py", "typescript": "ts", "rust": "rs"}
