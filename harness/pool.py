"""Fork-per-job executor.

The parent imports thai-lint once; every job runs in a freshly forked child, so each job sees
pristine module state (no cached ignore parser, no used rule objects) at in-process speed.
Children may themselves create process pools (they are plain forks, not daemonic
multiprocessing workers).  A job that exceeds `timeout` is killed and reported as a hang.
"""
from __future__ import annotations

import os
import pickle
import selectors
import signal
import struct
import sys
import time
import traceback
from typing import Any, Callable, Iterable


class JobResult:
    __slots__ = ("index", "ok", "value", "error", "hang", "wall")

    def __init__(self, index, ok, value=None, error=None, hang=False, wall=0.0):
        self.index, self.ok, self.value, self.error, self.hang, self.wall = (
            index, ok, value, error, hang, wall)


def _child(fn: Callable[[Any], Any], job: Any, wfd: int) -> None:
    try:
        try:
            os.setsid()
        except OSError:
            pass
        try:
            value = fn(job)
            payload = pickle.dumps((True, value))
        except BaseException as exc:  # noqa: BLE001 - reported to parent
            payload = pickle.dumps((False, "".join(traceback.format_exception(exc))[-4000:]))
        with os.fdopen(wfd, "wb") as w:
            w.write(struct.pack("<Q", len(payload)))
            w.write(payload)
    finally:
        try:
            sys.stdout.flush()
            sys.stderr.flush()
        except Exception:  # noqa: BLE001
            pass
        os._exit(0)


def run_jobs(fn: Callable[[Any], Any], jobs: Iterable[Any], nproc: int = 16,
             timeout: float = 60.0, progress: Callable[[int], None] | None = None) -> list[JobResult]:
    """Run fn(job) for each job in a fresh fork; results in job order."""
    jobs = list(jobs)
    results: list[JobResult | None] = [None] * len(jobs)
    sel = selectors.DefaultSelector()
    running: dict[int, dict] = {}
    nxt = 0
    done = 0

    def start(i: int) -> None:
        r, w = os.pipe()
        sys.stdout.flush()
        sys.stderr.flush()
        pid = os.fork()
        if pid == 0:
            os.close(r)
            for info in running.values():
                try:
                    os.close(info["fd"])
                except OSError:
                    pass
            _child(fn, jobs[i], w)
        os.close(w)
        os.set_blocking(r, False)
        running[r] = {"i": i, "pid": pid, "fd": r, "buf": bytearray(), "t0": time.time()}
        sel.register(r, selectors.EVENT_READ)

    def finish(fd: int, hang: bool = False) -> None:
        nonlocal done
        info = running.pop(fd)
        sel.unregister(fd)
        os.close(fd)
        if hang:
            try:
                os.killpg(info["pid"], signal.SIGKILL)
            except OSError:
                try:
                    os.kill(info["pid"], signal.SIGKILL)
                except OSError:
                    pass
        try:
            os.waitpid(info["pid"], 0)
        except ChildProcessError:
            pass
        wall = time.time() - info["t0"]
        buf = bytes(info["buf"])
        if hang:
            results[info["i"]] = JobResult(info["i"], False, error="timeout", hang=True, wall=wall)
        elif len(buf) >= 8 and len(buf) - 8 == struct.unpack("<Q", buf[:8])[0]:
            ok, value = pickle.loads(buf[8:])
            results[info["i"]] = JobResult(info["i"], ok, value if ok else None,
                                           None if ok else value, wall=wall)
        else:
            results[info["i"]] = JobResult(info["i"], False, error="child died without result",
                                           wall=wall)
        done += 1
        if progress:
            progress(done)

    while nxt < len(jobs) or running:
        while nxt < len(jobs) and len(running) < nproc:
            start(nxt)
            nxt += 1
        events = sel.select(timeout=0.5)
        for key, _ in events:
            fd = key.fd
            info = running[fd]
            try:
                chunk = os.read(fd, 1 << 20)
            except BlockingIOError:
                continue
            if chunk:
                info["buf"] += chunk
            else:
                finish(fd)
        now = time.time()
        for fd in [fd for fd, info in running.items() if now - info["t0"] > timeout]:
            finish(fd, hang=True)
    return [r for r in results if r is not None]
