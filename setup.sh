#!/bin/sh
# MANIFEST.setup_cmd: tool sanity + SANY-parse of every specification module. Builds nothing
# that needs the network; everything runs from files on disk.
cd "$(dirname "$0")" || exit 2
command -v java >/dev/null || { echo "java missing"; exit 2; }
[ -f /opt/veriftools/tla/tla2tools.jar ] || { echo "tla2tools.jar missing"; exit 2; }
[ -x /venv/bin/python ] || { echo "/venv/bin/python missing"; exit 2; }
mkdir -p evidence replays
rc=0
for f in spec/*.tla; do
  out=$(cd spec && java -cp /opt/veriftools/tla/tla2tools.jar:/opt/veriftools/tla/CommunityModules-deps.jar tla2sany.SANY "$(basename "$f")" 2>&1)
  if echo "$out" | grep -q -E "Semantic errors|Parse Error|Fatal errors|Could not"; then
    echo "SANY failed on $f"; echo "$out" | tail -20; rc=2
  fi
done
PYTHONPATH=/repo /venv/bin/python -c "import src.api, src.cli_main" || rc=2
[ $rc -eq 0 ] && echo "setup ok"
exit $rc
