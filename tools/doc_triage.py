"""Triage helper for C19 (not a check): extract every source-code fence of docs/*-linter.md with its
heading path and the prose just before it, lint it alone with the linter's own command, and print
what the tool says.  Used to curate harness/catalog/doc_examples.json by hand.

usage: /venv/bin/python -m tools.doc_triage <doc-stem> [out.json]
"""
from __future__ import annotations

import hashlib
import json
import re
import sys
import tempfile
from pathlib import Path

from harness import drive, pool
from harness.common import REPO

DOC_CMD = {
    "blocking-async": ["blocking-async"], "clone-abuse": ["clone-abuse"], "unwrap-abuse": ["unwrap-abuse"],
    "collection-pipeline": ["pipeline"], "cqs": ["cqs"], "dry": ["dry"], "file-header": ["file-header"],
    "file-placement": ["file-placement"], "improper-logging": ["improper-logging"],
    "lazy-ignores": ["lazy-ignores"], "lbyl": ["lbyl"], "magic-numbers": ["magic-numbers"],
    "method-property": ["method-property"], "nesting": ["nesting"], "performance": ["perf"],
    "print-statements": ["print-statements"], "srp": ["srp"], "stateless-class": ["stateless-class"],
    "stringly-typed": ["stringly-typed"],
}
EXT = {"python": "py", "typescript": "ts", "javascript": "js", "rust": "rs", "tsx": "tsx", "js": "js", "ts": "ts"}


def fences(doc: str):
    lines = (REPO / "docs" / f"{doc}-linter.md").read_text().split("\n")
    heads: list[tuple[int, str]] = []
    out = []
    i = 0
    ordinal = 0
    while i < len(lines):
        h = re.match(r"^(#+)\s+(.*)", lines[i])
        if h:
            lvl = len(h.group(1))
            heads = [x for x in heads if x[0] < lvl] + [(lvl, h.group(2).strip())]
        m = re.match(r"^(\s*)```(\w+)\s*$", lines[i])
        if m:
            ind = len(m.group(1))
            lang = m.group(2)
            j = i + 1
            body = []
            while j < len(lines) and not lines[j].strip().startswith("```"):
                body.append(lines[j][ind:] if lines[j][:ind].strip() == "" else lines[j])
                j += 1
            pre = [l for l in lines[max(0, i - 4):i] if l.strip()]
            if lang in EXT:
                text = "\n".join(body) + "\n"
                out.append({"doc": doc, "ordinal": ordinal, "line": i + 1, "lang": lang,
                            "heads": [x[1] for x in heads], "pre": pre[-2:], "text": text,
                            "sha": hashlib.sha256(text.encode()).hexdigest()[:12]})
            ordinal += 1
            i = j
        i += 1
    return out


def lint_one(job):
    f, cmd = job
    d = Path(tempfile.mkdtemp(prefix="tri"))
    name = "src/sample." + EXT[f["lang"]]
    drive.write_tree(d, {name: f["text"], ".thailint.yaml": ("dry:\n  enabled: true\n" if cmd == ["dry"] else "{}\n")})
    if cmd == ["cqs"]:
        drive.preload()
        from src import Linter
        try:
            vs = Linter(project_root=str(d)).lint(str(d / name), rules=["cqs"])
            return [(v.rule_id, v.line) for v in vs]
        except Exception as e:  # noqa: BLE001
            return f"EXC {e!r}"
    r = drive.cli_json(cmd + [name], cwd=str(d))
    if r["violations"] is None:
        return f"exit={r['exit']} {r['stdout'][:200]} {r['stderr'][:200]}"
    return [(v["rule_id"], v["line"]) for v in r["violations"]]


def main():
    doc = sys.argv[1]
    fs = fences(doc)
    drive.preload()
    res = pool.run_jobs(lint_one, [(f, DOC_CMD[doc]) for f in fs], nproc=16, timeout=60)
    for f, r in zip(fs, res):
        f["tool"] = r.value if r.ok else f"ERR {r.error}"
    if len(sys.argv) > 2:
        Path(sys.argv[2]).write_text(json.dumps(fs, indent=1))
    for f in fs:
        print("=" * 100)
        print(f"#{f['ordinal']} L{f['line']} {f['lang']} sha={f['sha']}  {' > '.join(f['heads'][1:])}")
        for p in f["pre"]:
            print("   |", p[:160])
        print(f"   TOOL: {f['tool']}")
        for n, l in enumerate(f["text"].split("\n")[:-1], 1):
            print(f"   {n:3} {l}")


if __name__ == "__main__":
    main()
