"""(Re)build harness/catalog/doc_examples.json from docs/*-linter.md, doc_overrides.txt and the tool's
current findings for every example the overrides do not decide.  Run once when curating; the result is
committed and reviewed (git diff) — the check never rewrites it."""
from __future__ import annotations

import json
import sys

from harness import docex, drive, pool
from harness.checks import C19
from harness.common import scratch_root


def main() -> None:
    per, docwide = docex.load_overrides()
    fences = docex.all_fences()
    drive.preload()
    entries, skipped, jobs, jmeta = [], [], [], []
    root = scratch_root() / "cat"
    n = 0
    for (doc, sha), f in sorted(fences.items(), key=lambda kv: (kv[0][0], kv[1]["ordinal"])):
        o = dict(docwide.get(doc, {}))
        o.update(per.get((doc, sha), {}))
        if doc == "file-placement" and "skip" not in o:
            o["skip"] = "no-source-example-with-a-stated-outcome-(C18-covers-the-rule-semantics)"
        if "skip" in o:
            skipped.append({"doc": doc, "sha": sha, "reason": o["skip"]})
            continue
        kind = docex.auto_kind(doc, f, o)
        ex = {"doc": doc, "sha": sha, "ordinal": f["ordinal"], "heads": f["heads"], "kind": kind, "variants": []}
        for flag in ("norename", "nomulti", "noloop"):
            if o.get(flag):
                ex[flag] = True
        if "lines" in o:
            ex["lines"] = o["lines"]
        base = o.get("basecfg", "default")
        prefix = docex.RULE_PREFIX[doc]
        variants = [(base, o.get("expect"))] + [(c, s) for c, s in o.get("cfgs", {}).items()]
        for cfg, spec in variants:
            var = {"cfg": cfg, "claimed": spec is not None,
                   "expect": docex.parse_expect(spec, prefix) if spec is not None else None}
            ex["variants"].append(var)
            if var["expect"] is None:
                n += 1
                jobs.append({"root": str(root / f"p{n}"), "doc": doc, "cmd": docex.DOC_CMD[doc],
                             "lang": docex.LANG[f["lang"]], "fence_lang": f["lang"], "kind": kind,
                             "text": docex.example_text(f, o), "e": dict(C19.PLAIN, kind=kind), "salt": 0,
                             "cfg_text": docex.CFGS[cfg], "pair": doc in docex.PAIR_DOCS})
                jmeta.append(var)
        entries.append(ex)
    res = pool.run_jobs(C19.job, jobs, nproc=16, timeout=120)
    for var, j, r in zip(jmeta, jobs, res):
        if not r.ok or "error" in r.value:
            print("FAILED", j["doc"], r.error if not r.ok else r.value["error"], file=sys.stderr)
            var["expect"] = []
            var["failed"] = True
            continue
        items = []
        recs = r.value["records"]
        for rec in (recs if j["kind"] == "split" else recs[:1]):
            for x in rec["reported"]:
                items.append({"file": rec["file"] if j["kind"] == "split" else "", "rule": x["rule"],
                              "lo": x["line"], "hi": x["line"], "some": False})
        var["expect"] = items
    docex.EXAMPLES.write_text(json.dumps({"examples": entries,
                                          "skipped": [f"{s['doc']} {s['sha']}" for s in skipped],
                                          "skip_reasons": skipped}, indent=1) + "\n")
    print(f"{len(entries)} examples, {len(skipped)} skipped, {len(jobs)} baselines recorded")


if __name__ == "__main__":
    main()
