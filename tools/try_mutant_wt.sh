#!/bin/sh
# tools/try_mutant_wt.sh <ABS patch.diff> <property> [tier] — run a check against a seeded change WITHOUT touching /repo:
# a scratch worktree of /repo's HEAD gets the patch, the check runs with VERIF_REPO pointing at it and with its
# evidence/replays redirected to the scratch directory; everything is removed afterwards.  Safe to run while other
# checks read /repo, and several at a time.
patch="$1"; prop="$2"; tier="${3:-quick}"
tag="$(basename "$(dirname "$patch")")-$prop-$$"
wt="/tmp/mt/$tag"; out="/tmp/mt/$tag.out"; mkdir -p /tmp/mt
git -C /repo worktree add -q --detach "$wt" HEAD || exit 2
( cd "$wt" && { git apply "$patch" 2>/tmp/mt/$tag.err || { git apply --3way "$patch" 2>>/tmp/mt/$tag.err && git reset -q; } || { git checkout -q -- . ; git apply --recount -C1 "$patch" 2>>/tmp/mt/$tag.err; }; } ) || { echo "APPLY-FAILED"; cat /tmp/mt/$tag.err; git -C /repo worktree remove --force "$wt"; exit 3; }
mkdir -p "$wt.ev" "$wt.rp"
cd /verif && VERIF_REPO="$wt" VERIF_EVIDENCE_DIR="$wt.ev" VERIF_REPLAYS_DIR="$wt.rp" ./check "$prop" --tier "$tier" > "$out" 2>&1
rc=$?
echo "$tag exit=$rc viol=$(grep -c '^VIOLATION' "$out") known=$(grep -c KNOWN-FINDING "$out") mach=$(grep -c MACHINERY "$out")"
grep -E "^VIOLATION|MACHINERY" "$out" | head -3 | cut -c1-300
grep -E "  rejection" "$out" | head -3 | cut -c1-400
git -C /repo worktree remove --force "$wt"; rm -rf "$wt.ev" "$wt.rp" /tmp/mt/$tag.err
exit 0
