#!/bin/sh
# tools/run_all.sh [tier] — run every registered check in sequence; summary in /tmp/runall.<tier>.txt
tier="${1:-quick}"
out=/tmp/runall.$tier.txt; : > $out
cd /verif
for p in C01 C02 C03 C04 C05 C06 C07 C08 C09 C10 C11 C12 C13 C14 C15 C16 C17 C18 C19 C20; do
  s=$(date +%s)
  ./check $p --tier $tier > /tmp/runall.$p.$tier.log 2>&1
  rc=$?
  e=$(date +%s)
  echo "$p rc=$rc t=$((e-s))s known=$(grep -c KNOWN-FINDING /tmp/runall.$p.$tier.log) viol=$(grep -c '^VIOLATION' /tmp/runall.$p.$tier.log)" >> $out
done
echo DONE >> $out
