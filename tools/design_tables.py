"""Regenerate the generated blocks of DESIGN.md (between <!-- BEGIN:x --> / <!-- END:x --> markers):
per-property as-built summary (from harness/manifest.py), repaired defects and open findings
(from known_findings.json), seeded-change matrix (from seeded/*/meta.json and last_run.json)."""
from __future__ import annotations

import json
import re
import subprocess
from pathlib import Path

from harness.manifest import CLAIMED

VERIF = Path("/verif")


def props() -> dict:
    out = {}
    for l in (VERIF / "properties.jsonl").read_text().splitlines():
        if l.strip():
            p = json.loads(l)
            out[p["id"]] = p
    return out


def block_asbuilt() -> str:
    ps = props()
    rows = []
    for pid in sorted(CLAIMED):
        _ref, text, note, _tech = CLAIMED[pid]
        ev = VERIF / "evidence" / f"{pid}.json"
        cov = ""
        if ev.exists():
            e = json.loads(ev.read_text())
            c = e["coverage"]
            cov = (f"Last {e['tier']} run: {c['evaluations']} evaluated cases ({c['distinct_nontrivial']} distinct "
                   f"non-trivial), {c['states']} TLC states, {c['traces_validated_against_impl']} records judged by TLC, "
                   f"{e['wall_s']} s.")
        rows.append(f"**{pid} — {ps[pid]['title']}.** {text} *Limits:* {note} {cov}\n")
    return "\n".join(rows)


def block_fixed() -> str:
    k = json.loads((VERIF / "known_findings.json").read_text())
    log = subprocess.run(["git", "-C", "/repo", "log", "--format=%h %s"], capture_output=True, text=True,
                         check=False).stdout.splitlines()
    subj = {l.split()[0]: l.split(" ", 1)[1] for l in log if " " in l}
    rows = ["| property | commit | what failed before the repair |", "|---|---|---|"]
    for f in k["fixed"]:
        m = re.match(r"fixed: property=(\S+) (\S+) (.*)", f)
        if not m:
            continue
        rows.append(f"| {m.group(1)} | `{m.group(2)}` | {m.group(3).replace('|', '/')} |")
    fix_commits = [l for l in log if l.split(" ", 1)[1].startswith("fix:")]
    rows.append("")
    rows.append(f"{len(fix_commits)} `fix:` commits in /repo in total (`git -C /repo log --grep '^fix:'`); "
                f"{len(subj) - len(fix_commits) - 0} other commits since the pinned snapshot are the two hook commits.")
    return "\n".join(rows)


def block_open() -> str:
    k = json.loads((VERIF / "known_findings.json").read_text())
    rows = ["| property | id | what fails | why the key is narrow |", "|---|---|---|---|"]
    for f in k["open"]:
        rows.append(f"| {f['property']} | `{f['id']}` | {f['what'].replace('|', '/')} | {f['justification'].replace('|', '/')} |")
    return "\n".join(rows)


def block_matrix() -> str:
    rows = ["| seeded change | what it does | tests | caught by (quick tier, current tree) |", "|---|---|---|---|"]
    for d in sorted((VERIF / "seeded").iterdir()):
        if not d.is_dir():
            continue
        meta = json.loads((d / "meta.json").read_text())
        summ = (meta.get("summary") or meta.get("description") or "").replace("|", "/").replace("\n", " ")
        summ = summ[:260] + ("…" if len(summ) > 260 else "")
        tests = str(meta.get("tests_result", "")).split("(")[0].strip()[:60]
        lr = d / "last_run.json"
        caught = "not run"
        if lr.exists():
            r = json.loads(lr.read_text())
            if not r.get("applies", True):
                caught = "patch no longer applies to the repaired tree"
            elif r.get("caught_by"):
                res = r["results"]
                caught = ", ".join(f"{p} ({res[p]['violations']} VIOLATION lines)" for p in r["caught_by"])
                missed = [p for p in res if res[p]["exit"] == 0]
                if missed:
                    caught += "; not by " + ", ".join(missed)
            else:
                caught = "NOT caught: " + ", ".join(f"{p} exit {x['exit']}" for p, x in r["results"].items())
        if meta.get("caught_note"):
            caught += " — " + meta["caught_note"]
        rows.append(f"| {d.name} | {summ} | {tests} | {caught} |")
    return "\n".join(rows)


def main() -> None:
    p = VERIF / "DESIGN.md"
    s = p.read_text()
    for name, fn in (("asbuilt", block_asbuilt), ("fixed", block_fixed), ("open", block_open), ("matrix", block_matrix)):
        pat = re.compile(rf"(<!-- BEGIN:{name} -->\n).*?(<!-- END:{name} -->)", re.S)
        if not pat.search(s):
            raise SystemExit(f"marker {name} missing in DESIGN.md")
        s = pat.sub(lambda m, f=fn: m.group(1) + f() + "\n" + m.group(2), s)
    p.write_text(s)
    print("DESIGN.md blocks regenerated")


if __name__ == "__main__":
    main()
