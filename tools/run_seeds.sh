#!/bin/sh
# tools/run_seeds.sh <seed>... — quick tier of every registered check under other seeds; summary in /tmp/runseeds.txt.
# Evidence and replays of these runs go to a scratch directory (the committed ones belong to the default seed).
out=/tmp/runseeds.txt; : > $out
cd /verif
mkdir -p /tmp/mt/seeds.ev /tmp/mt/seeds.rp
for s in "$@"; do
  for p in C01 C02 C03 C04 C05 C06 C07 C08 C09 C10 C11 C12 C13 C14 C15 C16 C17 C18 C19 C20; do
    VERIF_SEED=$s VERIF_EVIDENCE_DIR=/tmp/mt/seeds.ev VERIF_REPLAYS_DIR=/tmp/mt/seeds.rp ./check $p --tier quick > /tmp/runseeds.$p.$s.log 2>&1
    echo "seed=$s $p rc=$? known=$(grep -c KNOWN-FINDING /tmp/runseeds.$p.$s.log) viol=$(grep -c '^VIOLATION' /tmp/runseeds.$p.$s.log)" >> $out
  done
done
echo DONE >> $out
