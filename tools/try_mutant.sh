#!/bin/sh
# tools/try_mutant.sh <patch.diff> <property> [tier]  — apply a seeded change to /repo, run the check, undo.
patch="$1"; prop="$2"; tier="${3:-quick}"
cd /repo || exit 2
[ -z "$(git status --porcelain)" ] || { echo "/repo not clean"; exit 2; }
if ! git apply --3way "$patch" 2>/tmp/apply.err; then
  git checkout -q -- . ; git reset -q --hard HEAD
  if ! git apply --recount -C1 "$patch" 2>>/tmp/apply.err; then echo "APPLY-FAILED"; cat /tmp/apply.err; git checkout -q -- .; exit 3; fi
fi
git reset -q   # unstage what --3way staged
cd /verif && ./check "$prop" --tier "$tier" > /tmp/try_mutant.out 2>&1
echo "exit=$?"
grep -E "VIOLATION|MACHINERY" /tmp/try_mutant.out | head -6
grep -E "  rejection" /tmp/try_mutant.out | head -4 | cut -c1-400
echo "known=$(grep -c KNOWN-FINDING /tmp/try_mutant.out)"
cd /repo && git checkout -q -- . && git clean -fdq src && git status --short | head -3
