#!/bin/sh
# tools/confirm_seed.sh <dir with patch.diff demo.py> <tag> — my own confirmation of a seeded change, in a scratch
# worktree: demo exits 0 on the clean tree and 1 with the patch, the repository's test suite is unchanged
# (10 failed / 2116 passed on this image), `python -m src.cli --help` runs.  Prints one summary line.
dir="$1"; tag="$2"; wt="/tmp/mt/confirm-$tag"; mkdir -p /tmp/mt
git -C /repo worktree add -q --detach "$wt" HEAD || exit 2
/venv/bin/python "$dir/demo.py" "$wt" > /tmp/mt/confirm-$tag.clean.out 2>&1; c=$?
( cd "$wt" && git apply "$dir/patch.diff" ) || { echo "$tag APPLY-FAILED"; git -C /repo worktree remove --force "$wt"; exit 3; }
/venv/bin/python "$dir/demo.py" "$wt" > /tmp/mt/confirm-$tag.mut.out 2>&1; m=$?
( cd "$wt" && PYTHONPATH="$wt" /venv/bin/python -m src.cli --help >/dev/null 2>&1 ); h=$?
t=$( cd "$wt" && env -u THAILINT_VERIF /venv/bin/python -m pytest -q -p no:cacheprovider --no-cov --timeout=900 -x --maxfail=30 2>&1 | tee /tmp/mt/confirm-$tag.pytest.log | tail -1 )
case "$t" in *"10 failed, 2116 passed"*) ;; *)
  # a wall-clock assertion (tests/integration/test_performance.py) fails on any tree when the machine is loaded: rerun the
  # tests that failed beyond the 10 known ones on their own
  extra=$(grep '^FAILED' /tmp/mt/confirm-$tag.pytest.log | grep -v 'docker\|real_world\|unreadable' | sed 's/^FAILED //; s/ - .*//' | tr '\n' ' ')
  if [ -n "$extra" ]; then r=$( cd "$wt" && env -u THAILINT_VERIF /venv/bin/python -m pytest -q -p no:cacheprovider --no-cov $extra 2>&1 | tail -1 ); t="$t; rerun alone of [$extra]: $r"; fi ;;
esac
echo "$tag demo_clean=$c demo_mutant=$m help=$h files=$(cd $wt && git diff --name-only | tr '\n' ' ') suite=[$t]"
git -C /repo worktree remove --force "$wt"
