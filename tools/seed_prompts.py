"""Write the prompts for a round of seeded changes: tools/seed_prompts.py <round> -> /tmp/seedout/<Cxx>.prompt.txt

A prompt holds the property text (title, statement, quantifier) and one-line summaries of the changes that already
exist for that property (so the new one must use another mechanism) - nothing else from /verif."""
from __future__ import annotations

import json
import sys
from pathlib import Path

VERIF = Path("/verif")
TEMPLATE = (VERIF / "tools" / "seed_prompt.tmpl").read_text()


def main() -> None:
    rnd = int(sys.argv[1])
    out = Path("/tmp/seedout")
    out.mkdir(exist_ok=True)
    for l in (VERIF / "properties.jsonl").read_text().splitlines():
        if not l.strip():
            continue
        p = json.loads(l)
        pid = p["id"]
        prev = []
        for d in sorted((VERIF / "seeded").glob(f"{pid}-m*")):
            m = json.loads((d / "meta.json").read_text())
            prev.append((m.get("summary") or m.get("description") or "").replace("\n", " "))
        existing = "\n".join(f" {i + 1}. {s}" for i, s in enumerate(prev))
        text = TEMPLATE.format(pid=pid, wt=f"/tmp/wt/{pid}-r{rnd}", outdir=f"/tmp/seedout/{pid}/m{rnd}", n=len(prev),
                               existing=existing, title=p["title"], statement=p.get("statement") or p.get("text"),
                               quant=(p.get("quantifier") or {}).get("text", ""))
        (out / f"{pid}.prompt.txt").write_text(text)
        (out / pid / f"m{rnd}").mkdir(parents=True, exist_ok=True)
    print("prompts written to", out)


if __name__ == "__main__":
    main()
