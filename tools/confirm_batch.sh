#!/bin/sh
# confirm all m<round> with patch.diff present, 4 at a time:  confirm_batch.sh <round>
r="$1"; n=0
for p in $(seq -w 1 20); do
  d=/tmp/seedout/C$p/m$r
  [ -f $d/patch.diff ] && [ -f $d/demo.py ] && [ -f $d/meta.json ] || continue
  [ -f /tmp/mt.confirm$r.C$p.txt ] && continue
  /verif/tools/confirm_seed.sh $d C$p-m$r > /tmp/mt.confirm$r.C$p.txt 2>&1 &
  n=$((n+1)); if [ $((n % 4)) -eq 0 ]; then wait; fi
done; wait
