"""Draft catalogue lines from the triage dumps (heuristic role + tool output); curated by hand afterwards."""
import json, re, sys, glob
BAD = re.compile(r"violat|\bbad\b|before|detected|flagged|❌|anti-pattern|problem|wrong|avoid|smell|triggers", re.I)
GOOD = re.compile(r"refactor|\bgood\b|after|\bfix|✅|not flagged|allowed|acceptable|correct|solution|prefer|instead|compliant|passes|\bok\b", re.I)
for f in sorted(glob.glob('/tmp/tri/*.json')):
    for s in json.load(open(f)):
        ctx = " ".join(s["pre"]) + " " + (s["heads"][-1] if s["heads"] else "")
        first = s["text"].split("\n")[0]
        b = bool(BAD.search(ctx)) or bool(BAD.search(first)); g = bool(GOOD.search(ctx)) or bool(GOOD.search(first))
        inner_b = bool(BAD.search(s["text"])); inner_g = bool(GOOD.search(s["text"]))
        role = "bad" if b and not g else "good" if g and not b else "mixed" if (inner_b and inner_g) else "?"
        tool = s["tool"]
        if isinstance(tool, str):
            exp = "ERR"
        else:
            by = {}
            for r, l in tool:
                by.setdefault(r, []).append(l)
            exp = ";".join(f"{r.split('.',1)[-1] if '.' in r else r}@{','.join(map(str, sorted(ls)))}" for r, ls in sorted(by.items())) or "-"
        conflict = (role == "bad" and exp == "-") or (role == "good" and exp != "-") or role == "?" or exp == "ERR"
        print(f"{s['doc']} {s['sha']} #{s['ordinal']} {role} {exp}{'   <<<<' if conflict else ''}")
