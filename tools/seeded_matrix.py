"""Run every seeded change against the check(s) expected to catch it and record the outcome.

usage: /venv/bin/python -m tools.seeded_matrix [tier] [id ...]
For each /verif/seeded/<id>: apply patch.diff to /repo (must be clean), run ./check <prop> --tier <tier> for the
property in the id and for every property listed in meta.json["also_try"], restore /repo, and write
seeded/<id>/last_run.json {tier, commit, results: {prop: {exit, violations}}}.  Nothing is committed to /repo.
"""
from __future__ import annotations

import json
import subprocess
import sys
from pathlib import Path

SEEDED = Path("/verif/seeded")


def sh(cmd: list[str], cwd: str = "/repo", timeout: int = 3600) -> subprocess.CompletedProcess:
    return subprocess.run(cmd, cwd=cwd, capture_output=True, text=True, timeout=timeout, check=False)


def restore() -> None:
    sh(["git", "checkout", "-q", "--", "."])
    sh(["git", "reset", "-q", "--hard", "HEAD"])
    sh(["git", "clean", "-fdq", "src"])


def apply(patch: Path) -> bool:
    if sh(["git", "apply", "--3way", str(patch)]).returncode == 0:
        sh(["git", "reset", "-q"])
        return True
    restore()
    if sh(["git", "apply", "--recount", "-C1", str(patch)]).returncode == 0:
        return True
    restore()
    return False


def main() -> None:
    args = sys.argv[1:]
    tier = args[0] if args and args[0] in ("quick", "thorough") else "quick"
    ids = [a for a in args if a not in ("quick", "thorough")] or sorted(p.name for p in SEEDED.iterdir() if p.is_dir())
    if sh(["git", "status", "--porcelain"]).stdout.strip():
        print("/repo not clean")
        sys.exit(2)
    commit = sh(["git", "rev-parse", "--short", "HEAD"]).stdout.strip()
    for mid in ids:
        d = SEEDED / mid
        meta = json.loads((d / "meta.json").read_text())
        props = [mid.split("-")[0]] + list(meta.get("also_try", []))
        if not apply(d / "patch.diff"):
            out = {"tier": tier, "commit": commit, "applies": False, "results": {}}
            (d / "last_run.json").write_text(json.dumps(out, indent=1) + "\n")
            print(mid, "APPLY-FAILED")
            continue
        results = {}
        try:
            for p in props:
                r = sh(["./check", p, "--tier", tier], cwd="/verif")
                nviol = sum(1 for l in r.stdout.splitlines() if l.startswith("VIOLATION"))
                results[p] = {"exit": r.returncode, "violations": nviol}
                if r.returncode == 1:
                    break
        finally:
            restore()
        caught = [p for p, x in results.items() if x["exit"] == 1]
        out = {"tier": tier, "commit": commit, "applies": True, "results": results, "caught_by": caught}
        (d / "last_run.json").write_text(json.dumps(out, indent=1) + "\n")
        print(mid, results, flush=True)


if __name__ == "__main__":
    main()
