"""Run every seeded change against the check(s) expected to catch it and record the outcome.

usage: /venv/bin/python -m tools.seeded_matrix [tier] [-jN] [id ...]
For each /verif/seeded/<id>: a scratch git worktree of /repo's HEAD (under /tmp/mt, removed afterwards) gets
patch.diff; ./check <prop> --tier <tier> runs with VERIF_REPO pointing at it (evidence and replays redirected to the
scratch area) for the property in the id and for every property listed in meta.json["also_try"]; the outcome goes to
seeded/<id>/last_run.json {tier, commit, results: {prop: {exit, violations}}}.  /repo itself is never touched, so
several changes are tried at a time (-jN, default 4).
"""
from __future__ import annotations

import json
import os
import shutil
import subprocess
import sys
from concurrent.futures import ThreadPoolExecutor
from pathlib import Path

SEEDED = Path("/verif/seeded")
SCRATCH = Path("/tmp/mt")


def sh(cmd: list[str], cwd: str = "/repo", timeout: int = 7200, env=None) -> subprocess.CompletedProcess:
    return subprocess.run(cmd, cwd=cwd, capture_output=True, text=True, timeout=timeout, check=False, env=env)


def one(mid: str, tier: str, commit: str) -> tuple[str, dict]:
    d = SEEDED / mid
    meta = json.loads((d / "meta.json").read_text())
    props = [mid.split("-")[0]] + list(meta.get("also_try", []))
    wt = SCRATCH / f"mx-{mid}-{os.getpid()}"
    if sh(["git", "worktree", "add", "-q", "--detach", str(wt), "HEAD"]).returncode != 0:
        return mid, {"tier": tier, "commit": commit, "applies": False, "results": {}, "error": "worktree"}
    try:
        ok = sh(["git", "apply", str(d / "patch.diff")], cwd=str(wt)).returncode == 0
        if not ok and sh(["git", "apply", "--3way", str(d / "patch.diff")], cwd=str(wt)).returncode == 0:
            ok = sh(["git", "diff", "--name-only", "--diff-filter=U"], cwd=str(wt)).stdout.strip() == ""
            sh(["git", "reset", "-q"], cwd=str(wt))
        if not ok:
            sh(["git", "checkout", "-q", "--", "."], cwd=str(wt))
            ok = sh(["git", "apply", "--recount", "-C1", str(d / "patch.diff")], cwd=str(wt)).returncode == 0
        if not ok:
            return mid, {"tier": tier, "commit": commit, "applies": False, "results": {}}
        results = {}
        for p in props:
            ev, rp = Path(str(wt) + ".ev"), Path(str(wt) + ".rp")
            ev.mkdir(exist_ok=True)
            rp.mkdir(exist_ok=True)
            env = dict(os.environ, VERIF_REPO=str(wt), VERIF_EVIDENCE_DIR=str(ev), VERIF_REPLAYS_DIR=str(rp))
            r = sh(["./check", p, "--tier", tier], cwd="/verif", env=env)
            nviol = sum(1 for l in r.stdout.splitlines() if l.startswith("VIOLATION"))
            results[p] = {"exit": r.returncode, "violations": nviol}
            if r.returncode == 1:
                break
        caught = [p for p, x in results.items() if x["exit"] == 1]
        return mid, {"tier": tier, "commit": commit, "applies": True, "results": results, "caught_by": caught}
    finally:
        sh(["git", "worktree", "remove", "--force", str(wt)])
        shutil.rmtree(str(wt) + ".ev", ignore_errors=True)
        shutil.rmtree(str(wt) + ".rp", ignore_errors=True)


def main() -> None:
    args = sys.argv[1:]
    tier = next((a for a in args if a in ("quick", "thorough")), "quick")
    nj = next((int(a[2:]) for a in args if a.startswith("-j")), 4)
    ids = [a for a in args if a not in ("quick", "thorough") and not a.startswith("-j")] \
        or sorted(p.name for p in SEEDED.iterdir() if p.is_dir())
    SCRATCH.mkdir(parents=True, exist_ok=True)
    commit = sh(["git", "rev-parse", "--short", "HEAD"]).stdout.strip()
    with ThreadPoolExecutor(max_workers=nj) as ex:
        for mid, out in ex.map(lambda m: one(m, tier, commit), ids):
            (SEEDED / mid / "last_run.json").write_text(json.dumps(out, indent=1) + "\n")
            print(mid, out.get("results") if out.get("applies") else "APPLY-FAILED", flush=True)
    sh(["git", "worktree", "prune"])


if __name__ == "__main__":
    main()
