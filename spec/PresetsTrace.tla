------------------------------ MODULE PresetsTrace ------------------------------
(* records: [preset, allowed (sequence: allowed_numbers of the generated file), maxSmall (of the generated file),
   operands / ranges (sequences: probe numbers reported as operand / as range bound)] *)
EXTENDS Presets, Sequences, IOUtils, TLCExt
Traces == JsonDeserialize(IOEnv.TRACE_FILE)
VARIABLE tid
Rec == Traces[tid]
SeqSet(s) == {s[i] : i \in 1..Len(s)}
LayerA == IF SeqSet(Rec.allowed) # Allowed(Rec.preset) THEN "GeneratedAllowedNumbers"
          ELSE IF Rec.maxSmall # MaxSmall(Rec.preset) THEN "GeneratedMaxSmallInteger"
          ELSE IF SeqSet(Rec.operands) # {n \in Probe : OperandReported(Rec.preset, n)} THEN "OperandVerdicts"
          ELSE IF SeqSet(Rec.ranges) # {n \in Probe : RangeReported(Rec.preset, n)} THEN "RangeVerdicts"
          ELSE "ok"
TraceInit == tid = 1 /\ preset = "standard" /\ done = FALSE
TraceNext == /\ tid <= Len(Traces) /\ PrintT(<<"VERDICT", tid, LayerA, "ok", 0>>) /\ tid' = tid + 1 /\ UNCHANGED vars
TraceSpec == TraceInit /\ [][TraceNext]_<<vars, tid>>
TraceInv == TRUE
=============================================================================
