------------------------------- MODULE Walker --------------------------------
(***************************************************************************)
(* C10, file collection: which files a directory run lints, compared with  *)
(* which files are linted when each is named on its own, in the presence of *)
(* repository-level ignore patterns (.thailintignore / `ignore:`).          *)
(*                                                                           *)
(* Project: pkg/m<f>/mod.<ext> for f in Files (one directory per file).     *)
(* A pattern is [kind, f] - instantiated on the directory / file number f:   *)
(*   bare      pkg/m<f>          fnmatch on the whole relative path: matches *)
(*                               the DIRECTORY path, not the files inside    *)
(*   star2     **/m<f>           likewise (the path must END in /m<f>)       *)
(*   question  pkg/m0?           every directory pkg/m01..m09, no file        *)
(*   slash     m<f>/             gitignore directory pattern: everything     *)
(*                               below a directory called m<f>               *)
(*   prefix    pkg/m<f>*         `*` crosses `/` in fnmatch: the directory   *)
(*                               and everything below                        *)
(*   exact     pkg/m<f>/mod.ext  that file                                    *)
(*   ext       *.<ext of f>      every file with the extension of file f     *)
(* (src/linter_config/pattern_utils.py matches_pattern.)                     *)
(*                                                                           *)
(* Layer A: a file named on its own is linted iff no pattern matches the     *)
(*   FILE's path (Orchestrator.lint_file -> ignore_parser.is_ignored);       *)
(*   the directory run lints exactly those files (union law of C10).         *)
(* Layer B: the directory walker (_collect_files_fast + lint_file per file). *)
(*   PruneIgnoredDirs = TRUE is the tempting optimisation "do not descend    *)
(*   into a directory whose path matches an ignore pattern": it loses the    *)
(*   files of directories matched by bare / star2 / question patterns.       *)
(***************************************************************************)
EXTENDS Naturals, FiniteSets, Sequences, TLC, Json

CONSTANTS NFiles, PruneIgnoredDirs

Files == 1..NFiles
Kinds == {"bare", "star2", "question", "slash", "prefix", "exact", "ext"}
ExtOf(f) == IF f % 2 = 0 THEN "py" ELSE "ts"      \* any assignment will do for the model
Pattern == [kind : Kinds, f : 1..2]

MatchesFile(p, g) == CASE p.kind \in {"bare", "star2", "question"} -> FALSE
                       [] p.kind \in {"slash", "prefix", "exact"}   -> p.f = g
                       [] p.kind = "ext"                            -> ExtOf(p.f) = ExtOf(g)
MatchesDir(p, g)  == CASE p.kind \in {"bare", "star2", "slash", "prefix"} -> p.f = g
                       [] p.kind = "question"                        -> TRUE
                       [] p.kind \in {"exact", "ext"}                -> FALSE

VARIABLES pats, done
vars == <<pats, done>>
Init == pats = {} /\ done = FALSE
Choose(P) == ~done /\ pats' = P /\ done' = TRUE
Next == \/ \E p \in Pattern : Choose({p})
        \/ \E p, q \in Pattern : p.kind # q.kind /\ p.f = 1 /\ q.f = 2 /\ Choose({p, q})
        \/ Choose({})
Spec == Init /\ [][Next]_vars

\* ---- layer A ----------------------------------------------------------------------------------
LintedAlone(P, g) == ~\E p \in P : MatchesFile(p, g)
DirShouldLint(P)  == {g \in Files : LintedAlone(P, g)}
\* ---- layer B ----------------------------------------------------------------------------------
Descends(P, g) == ~(PruneIgnoredDirs /\ \E p \in P : MatchesDir(p, g))
WalkLints(P)   == {g \in Files : Descends(P, g) /\ LintedAlone(P, g)}

WalkerMatchesUnion == done => WalkLints(pats) = DirShouldLint(pats)
SetToSeq(S) == CHOOSE s \in [1..Cardinality(S) -> S] : \A i, j \in 1..Cardinality(S) : i # j => s[i] # s[j]
Emit == done => PrintT(<<"CASE", ToJson([pats |-> SetToSeq(pats), lint |-> SetToSeq(DirShouldLint(pats))])>>)
=============================================================================
