-------------------------------- MODULE LbylTrace --------------------------------
(* Batch judgement of X04 records: [pattern, variant, switch, n (findings at the `if` line with the pattern's rule id),
   other (findings anywhere else or with another rule id)]. *)
EXTENDS Lbyl, IOUtils, TLCExt
Traces == JsonDeserialize(IOEnv.TRACE_FILE)
VARIABLE tid
Rec == Traces[tid]
LayerA == LET e == Expected(Rec.pattern, Rec.variant, Rec.switch) IN
          IF Rec.other > 0 THEN "OtherFinding"
          ELSE IF Rec.n < e THEN "Missed" ELSE IF Rec.n > e /\ e = 0 THEN "Spurious" ELSE IF Rec.n > e THEN "Duplicate" ELSE "ok"
TraceInit == tid = 1 /\ Init
TraceNext == /\ tid <= Len(Traces) /\ PrintT(<<"VERDICT", tid, LayerA, "ok", 0>>) /\ tid' = tid + 1 /\ UNCHANGED vars
TraceSpec == TraceInit /\ [][TraceNext]_<<vars, tid>>
TraceInv == TRUE
=============================================================================
