----------------------------- MODULE Orchestrator -----------------------------
(***************************************************************************)
(* The long-lived Linter / Orchestrator object (C08, C10).                  *)
(*                                                                           *)
(* State of the real object that survives a call:                           *)
(*   dryRows   DRYRule._storage (SQLite code_blocks rows), _file_contents,   *)
(*             inline-ignore ranges - one abstract row per (path, content)   *)
(*   strRows   StringlyTypedRule._storage rows                               *)
(* and the file system `fs` the calls read.  Contents are abstract classes:  *)
(*   0 absent | 1 plain (one per-file finding) | 2 carries only the shared DRY    *)
(*   block | 3 carries the shared string-set validation | 4 starts with an   *)
(*   ignore-file directive (has findings, all suppressed) | 5, 6 the plain   *)
(*   finding suppressed by an inline directive, at two different lines       *)
(*                                                                           *)
(* Actions (one per public call / critical section):                        *)
(*   Write(p,c), Delete(p)       the user edits the project                  *)
(*   LintFile(p)   Linter.lint(file): check() on every rule, and - with      *)
(*                 ApiFileFinalizes - finalize() (lint_files([p]))           *)
(*   LintDir       Linter.lint(dir): check() per file in walk order, then    *)
(*                 finalize() on every rule                                  *)
(*   LintFiles(S)  Orchestrator.lint_files(S)                                *)
(* finalize(): DRY reports from dryRows, stringly from strRows; strRows is   *)
(* reset; dryRows is reset iff DryResetOnFinalize (fix: commit) - at the     *)
(* pinned commit the rows were never deleted (named deviation                *)
(* StoreRowsNeverCleared) and Linter.lint(file) never finalized (named       *)
(* deviation LintFileNoFinalize).                                            *)
(***************************************************************************)
EXTENDS Naturals, Sequences, FiniteSets, TLC

CONSTANTS Paths, MaxOps, DryResetOnFinalize, ApiFileFinalizes

Contents == 1..6

VARIABLES fs, dryRows, strRows, last, pure, hist

vars == <<fs, dryRows, strRows, last, pure, hist>>
view == <<fs, dryRows, strRows, last, pure, Len(hist)>>

Present == {p \in Paths : fs[p] # 0}

\* ---- layer A: what a fresh object reports for the current files -------------------------
PerFile(p, c) == IF c = 1 THEN {<<"pf", p>>} ELSE {}
CrossOf(rows) ==
    {<<"dry", r[1]>> : r \in {x \in rows : x[2] = 2 /\ \E y \in rows : y[2] = 2 /\ y[1] # x[1]}}
    \cup
    {<<"str", r[1]>> : r \in {x \in rows : x[2] = 3 /\ \E y \in rows : y[2] = 3 /\ y[1] # x[1]}}
RowsOf(S) == {<<p, fs[p]>> : p \in S}
Pure(S) == (UNION {PerFile(p, fs[p]) : p \in S}) \cup CrossOf(RowsOf(S))

\* ---- layer B: the object as coded -----------------------------------------------------
Finalize(dr, sr) == {v \in CrossOf(dr) : v[1] = "dry"} \cup {v \in CrossOf(sr) : v[1] = "str"}

Init == /\ fs = [p \in Paths |-> 0] /\ dryRows = {} /\ strRows = {}
        /\ last = {} /\ pure = {} /\ hist = <<>>

Write(p, c) == /\ Len(hist) < MaxOps /\ fs[p] # c
               /\ fs' = [fs EXCEPT ![p] = c]
               /\ hist' = Append(hist, <<"write", p, c>>)
               /\ UNCHANGED <<dryRows, strRows, last, pure>>

Delete(p) == /\ Len(hist) < MaxOps /\ fs[p] # 0
             /\ fs' = [fs EXCEPT ![p] = 0]
             /\ hist' = Append(hist, <<"delete", p, 0>>)
             /\ UNCHANGED <<dryRows, strRows, last, pure>>

Lint(S, finalize, tag) ==
    LET dr == dryRows \cup RowsOf(S)
        sr == strRows \cup RowsOf(S)
        pf == UNION {PerFile(p, fs[p]) : p \in S}
    IN /\ last' = IF finalize THEN pf \cup Finalize(dr, sr) ELSE pf
       /\ dryRows' = IF finalize /\ DryResetOnFinalize THEN {} ELSE dr
       /\ strRows' = IF finalize THEN {} ELSE sr
       /\ pure' = Pure(S)
       /\ hist' = Append(hist, tag)
       /\ UNCHANGED fs

LintFile(p) == /\ Len(hist) < MaxOps /\ fs[p] # 0
               /\ Lint({p}, ApiFileFinalizes, <<"lintfile", p, 0>>)

LintDir == /\ Len(hist) < MaxOps
           /\ Lint(Present, TRUE, <<"lintdir", 0, 0>>)

LintFiles(S) == /\ Len(hist) < MaxOps /\ S # {} /\ S \subseteq Present
                /\ Lint(S, TRUE, <<"lintfiles", S, 0>>)

Next == \/ \E p \in Paths : (\E c \in Contents : Write(p, c)) \/ Delete(p) \/ LintFile(p)
        \/ LintDir
        \/ \E S \in SUBSET Paths : LintFiles(S)

Spec == Init /\ [][Next]_vars

-------------------------------------------------------------------------------
\* C08: a used object returns what a fresh object would return
HistoryFree == last = pure
\* nothing seen in an earlier call is reported again
NoGhosts == [][last' # last => \A v \in last' : fs'[v[2]] # 0]_vars
\* C10: a directory run is the union of the single-file runs for per-file findings
UnionLaw == \A S \in SUBSET Present :
    {v \in Pure(S) : v[1] = "pf"} = UNION {{v \in Pure({p}) : v[1] = "pf"} : p \in S}
TypeOK == /\ fs \in [Paths -> 0..6] /\ dryRows \subseteq (Paths \X (0..6))
          /\ strRows \subseteq (Paths \X (0..6))

Emit == Len(hist) = MaxOps => PrintT(<<"HIST", hist>>)
=============================================================================
