------------------------------ MODULE Languages ------------------------------
(***************************************************************************)
(* C15: each command reports only its own rules; rules fire only on their   *)
(* languages.                                                               *)
(*                                                                           *)
(* A probe file has an extension spelling, possibly a shebang, and content  *)
(* written in some language (content that triggers the rules of THAT        *)
(* language).  LangOf gives the language the tool must analyse it as:       *)
(* by extension, case-insensitively; extensionless scripts by a python      *)
(* shebang; everything else is unknown.                                     *)
(*   Owns(cmd, linter)          the command may report this linter's rules  *)
(*   Supports(linter, lang)     the linter analyses files of this language  *)
(* Requirement for one run of cmd on one probe file:                        *)
(*   every reported finding f:  Owns(cmd, f.linter) /\ Supports(f.linter, L)*)
(*   L = "unknown"  =>  no finding of a source-analysis linter              *)
(*   extension case variants of one language give the same findings         *)
(*   settings of OTHER linters' sections do not change the findings         *)
(***************************************************************************)
EXTENDS Naturals, Sequences, FiniteSets, TLC, Json

\* multi-suffix names: only the LAST suffix decides (notes.py.txt is text, types.d.ts is TypeScript)
Exts == {"py", "PY", "Py", "ts", "TS", "tsx", "js", "jsx", "JS", "rs", "RS", "java", "go", "txt", "dat", "none",
         "py.txt", "ts.orig", "rs.bak", "js.md", "PY.BAK", "d.ts", "test.py", "min.js"}
\* python / pythonAbs: `#!/usr/bin/env python3`, `#!/usr/bin/python3 -u`;  bash: `#!/bin/bash`;
\* shNote: `#!/bin/sh` followed by a comment line that mentions python (only the shebang LINE decides)
Shebangs == {"no", "python", "pythonAbs", "bash", "shNote"}
PythonShebangs == {"python", "pythonAbs"}
Contents == {"python", "typescript", "rust", "neutral"}

Lower(e) == CASE e \in {"py", "PY", "Py", "test.py"} -> "py" [] e \in {"ts", "TS", "d.ts"} -> "ts" [] e \in {"js", "JS", "min.js"} -> "js"
              [] e \in {"rs", "RS"} -> "rs" [] OTHER -> e
ExtLang(e) == CASE Lower(e) = "py" -> "python" [] Lower(e) \in {"ts", "tsx"} -> "typescript"
                [] Lower(e) \in {"js", "jsx"} -> "javascript" [] Lower(e) = "rs" -> "rust"
                [] Lower(e) = "java" -> "java" [] Lower(e) = "go" -> "go" [] OTHER -> "unknown"
LangOf(e, sb) == IF e = "none" THEN (IF sb \in PythonShebangs THEN "python" ELSE "unknown") ELSE ExtLang(e)

Linters == {"nesting", "magic-numbers", "srp", "dry", "stringly-typed", "improper-logging", "method-property",
            "stateless-class", "lazy-ignores", "lbyl", "file-placement", "collection-pipeline", "file-header",
            "performance", "unwrap-abuse", "clone-abuse", "blocking-async", "cqs"}
Commands == {"nesting", "magic-numbers", "srp", "dry", "stringly-typed", "improper-logging", "print-statements",
             "method-property", "stateless-class", "lazy-ignores", "lbyl", "file-placement", "pipeline",
             "file-header", "string-concat-loop", "regex-in-loop", "perf", "unwrap-abuse", "clone-abuse",
             "blocking-async"}

OwnerOf(cmd) == CASE cmd = "print-statements" -> "improper-logging" [] cmd = "pipeline" -> "collection-pipeline"
                  [] cmd \in {"string-concat-loop", "regex-in-loop", "perf"} -> "performance" [] OTHER -> cmd
Owns(cmd, linter) == linter = OwnerOf(cmd)

PyOnly   == {"method-property", "stateless-class", "lbyl", "collection-pipeline", "lazy-ignores"}
RustOnly == {"unwrap-abuse", "clone-abuse", "blocking-async"}
Supports(linter, lang) ==
    CASE linter = "file-placement" -> TRUE
      [] linter \in PyOnly   -> lang = "python"
      [] linter \in RustOnly -> lang = "rust"
      [] linter \in {"dry", "improper-logging", "stringly-typed", "performance", "cqs"}
                             -> lang \in {"python", "typescript", "javascript"}
      [] linter = "file-header" -> lang \in {"python", "typescript", "javascript", "rust"}
      [] OTHER               -> lang \in {"python", "typescript", "javascript", "rust"}

VARIABLES ext, shebang, content, cmd, done
vars == <<ext, shebang, content, cmd, done>>
Init == ext = "py" /\ shebang = "no" /\ content = "python" /\ cmd = "nesting" /\ done = FALSE
Choose(e, s, c, k) == /\ ~done /\ (s # "no" => e = "none")   \* a shebang in a file WITH an unknown extension: not specified
                      /\ ext' = e /\ shebang' = s /\ content' = c /\ cmd' = k /\ done' = TRUE
Next == \E e \in Exts, s \in Shebangs, c \in Contents, k \in Commands : Choose(e, s, c, k)
Spec == Init /\ [][Next]_vars

\* meta-properties of the tables
OwnerExists == \A k \in Commands : OwnerOf(k) \in Linters
CaseInsensitive == \A e \in Exts : ExtLang(e) = ExtLang(Lower(e))
UnknownSupportsNothing == \A l \in Linters \ {"file-placement"} : ~Supports(l, "unknown")

MayReport(k, e, sb, linter) == Owns(k, linter) /\ Supports(linter, LangOf(e, sb))
Emit == done => PrintT(<<"CASE", ToJson([ext |-> ext, shebang |-> shebang, content |-> content, cmd |-> cmd,
                                          lang |-> LangOf(ext, shebang),
                                          may |-> {l \in Linters : MayReport(cmd, ext, shebang, l)}])>>)
=============================================================================
