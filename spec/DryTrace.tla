--------------------------------- MODULE DryTrace ---------------------------------
(* Batch judgement of C03 records: rec.P = the abstract project (token per source line, incl. the wrapper
   lines), rec.W / rec.K, rec.R = the dry.duplicate-code findings parsed from the tool's output.
   Layer A = Verdict of Dry.tla; layer B = equality with DryAlgo (drift). *)
EXTENDS Dry, Json, IOUtils, TLCExt

Traces == JsonDeserialize(IOEnv.TRACE_FILE)
VARIABLE tid
Rec == Traces[tid]
SeqSet(s) == {s[i] : i \in 1..Len(s)}

R == {[file |-> v.file, line |-> v.line, count |-> v.count, occ |-> v.occ,
       refs |-> {[file |-> r.file, start |-> r.start, end |-> r.end] : r \in SeqSet(v.refs)}] : v \in SeqSet(Rec.R)}
LayerA == Verdict(Rec.P, Rec.W, Rec.K, R)
LayerB == IF R = DryAlgo(Rec.P, Rec.W, Rec.K) THEN "ok" ELSE "DiffersFromDryAlgo"

TraceInit == tid = 1 /\ proj = <<>>
TraceNext == /\ tid <= Len(Traces)
             /\ PrintT(<<"VERDICT", tid, LayerA, LayerB, 0>>)
             /\ tid' = tid + 1 /\ UNCHANGED proj
TraceSpec == TraceInit /\ [][TraceNext]_<<proj, tid>>
TraceInv == TRUE
=============================================================================
