-------------------------------- MODULE Stringly --------------------------------
(***************************************************************************)
(* Beyond the listed properties (X02): the cross-file grouping of the       *)
(* stringly-typed linter, as documented in docs/stringly-typed-linter.md.   *)
(*                                                                           *)
(* A project is a sequence of files.  A file holds occurrences of            *)
(*   validations  `if x in (<set S>):`   - identified by the value set S     *)
(*   calls        `g("<value>")`         - identified by function g, value v *)
(* Configuration: minOcc (min_occurrences = minimum number of FILES in      *)
(* which the pattern must appear), minVals / maxVals (number of unique       *)
(* values that make a set enum-worthy), allowed (allowed_string_sets).       *)
(*                                                                           *)
(* Layer A.                                                                  *)
(*   a value set S is reportable iff  minVals <= |S| <= maxVals, S is not    *)
(*   allowed, and S is validated in at least minOcc different files; then    *)
(*   EVERY validation of S in EVERY file is reported, once, at its line.     *)
(*   a function g is reportable iff the union V of the values it is called   *)
(*   with satisfies the same bounds and g is called in >= minOcc files; then *)
(*   every call site of g is reported once.                                  *)
(* Nothing else is reported.                                                 *)
(***************************************************************************)
EXTENDS Naturals, Sequences, FiniteSets, TLC, Json

CONSTANTS NFiles,          \* number of files of a project
          Sets,            \* value-set ids, SetSize[s] = number of values
          SetSize,
          Funcs,           \* function ids
          MaxCopies        \* validations of one set per file: 0..MaxCopies

SeqSet(s) == {s[i] : i \in 1..Len(s)}
SetSizeDef == [s \in {"s2", "s3", "s5"} |-> IF s = "s2" THEN 2 ELSE IF s = "s3" THEN 3 ELSE 5]

\* a project: valid[f][s] = number of validations of set s in file f; calls[f][g] = set of value ids g is called with in f
VARIABLES valid, calls, done
vars == <<valid, calls, done>>
CallChoices == IF MaxCopies >= 2 THEN {{}, {1}, {2}, {1, 2}, {3}} ELSE {{}, {1}, {1, 2}, {3}}   \* value ids per file
Init == /\ valid = [f \in 1..NFiles |-> [s \in Sets |-> 0]]
        /\ calls = [f \in 1..NFiles |-> [g \in Funcs |-> {}]]
        /\ done = FALSE
Choose(v, c) == ~done /\ valid' = v /\ calls' = c /\ done' = TRUE
NoValid == [f \in 1..NFiles |-> [s \in Sets |-> 0]]
NoCalls == [f \in 1..NFiles |-> [g \in Funcs |-> {}]]
\* the two families do not interact: all validation layouts without calls, all call layouts without validations,
\* and every validation layout of the first two files combined with one fixed call layout
Next == \/ \E v \in [1..NFiles -> [Sets -> 0..MaxCopies]] : Choose(v, NoCalls)
        \/ \E c \in [1..NFiles -> [Funcs -> CallChoices]] : Choose(NoValid, c)
        \/ \E v \in [1..NFiles -> [Sets -> 0..1]] :
               Choose(v, [f \in 1..NFiles |-> [g \in Funcs |-> IF f = 1 THEN {1, 2} ELSE {3}]])
Spec == Init /\ [][Next]_vars
Emit == done => PrintT(<<"CASE", ToJson([valid |-> valid, calls |-> calls])>>)

\* ---- layer A ----------------------------------------------------------------------------------------
FilesWithSet(v, s) == {f \in 1..NFiles : v[f][s] > 0}
SetReportable(v, cfg, s) ==
    /\ cfg.minVals <= SetSize[s] /\ SetSize[s] <= cfg.maxVals
    /\ s \notin cfg.allowed
    /\ Cardinality(FilesWithSet(v, s)) >= cfg.minOcc
FilesWithFunc(c, g) == {f \in 1..NFiles : c[f][g] # {}}
FuncValues(c, g) == UNION {c[f][g] : f \in 1..NFiles}
FuncReportable(c, cfg, g) ==
    /\ cfg.minVals <= Cardinality(FuncValues(c, g)) /\ Cardinality(FuncValues(c, g)) <= cfg.maxVals
    /\ Cardinality(FilesWithFunc(c, g)) >= cfg.minOcc
\* expected number of findings per (file, set) and per (file, function)
ExpectedSet(v, cfg, f, s) == IF SetReportable(v, cfg, s) THEN v[f][s] ELSE 0
ExpectedFunc(c, cfg, f, g) == IF FuncReportable(c, cfg, g) THEN Cardinality(c[f][g]) ELSE 0

\* ---- laws of the requirement (checked on every project) -------------------------------------------------
Cfgs == {[minOcc |-> o, minVals |-> a, maxVals |-> b, allowed |-> al] :
             o \in 1..3, a \in 2..3, b \in 3..5, al \in {{}, {CHOOSE s \in Sets : TRUE}}}
\* raising min_occurrences never adds a finding; allowing a set removes exactly its findings;
\* a set is reported in all of its files or in none
LawsHold ==
    done => \A cfg \in Cfgs :
        /\ \A s \in Sets, f \in 1..NFiles :
              ExpectedSet(valid, [cfg EXCEPT !.minOcc = cfg.minOcc + 1], f, s) <= ExpectedSet(valid, cfg, f, s)
        /\ \A s \in Sets : (\E f \in 1..NFiles : ExpectedSet(valid, cfg, f, s) > 0)
                              => \A f \in FilesWithSet(valid, s) : ExpectedSet(valid, cfg, f, s) = valid[f][s]
        /\ \A s \in Sets, t \in Sets, f \in 1..NFiles :
              s # t => ExpectedSet(valid, [cfg EXCEPT !.allowed = cfg.allowed \cup {t}], f, s) = ExpectedSet(valid, [cfg EXCEPT !.allowed = cfg.allowed \ {t}], f, s)
=============================================================================
