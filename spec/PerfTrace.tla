--------------------------------- MODULE PerfTrace ---------------------------------
EXTENDS Perf, IOUtils, TLCExt
Traces == JsonDeserialize(IOEnv.TRACE_FILE)
VARIABLE tid
Rec == Traces[tid]
Exp == IF Rec.rule = "concat" THEN ExpectedConcat(Rec.lang, Rec.loop, Rec.init, Rec.addend) ELSE ExpectedRegex(Rec.loop, Rec.callee)
LayerA == IF Rec.other > 0 THEN "OtherFinding"
          ELSE IF Rec.n < Exp THEN "Missed" ELSE IF Rec.n > Exp /\ Exp = 0 THEN "Spurious" ELSE IF Rec.n > Exp THEN "Duplicate" ELSE "ok"
TraceInit == tid = 1 /\ Init
TraceNext == /\ tid <= Len(Traces) /\ PrintT(<<"VERDICT", tid, LayerA, "ok", 0>>) /\ tid' = tid + 1 /\ UNCHANGED vars
TraceSpec == TraceInit /\ [][TraceNext]_<<vars, tid>>
TraceInv == TRUE
=============================================================================
