------------------------------- MODULE RunTrace -------------------------------
(* Batch judgement of C06 observation records.  One record = one invocation rendered in the three
   formats: exit codes, the bags of violations parsed from each rendering (as ids), JSON `total`,
   and the byte-level well-formedness flags computed by the harness (UTF-8, JSON, SARIF structure). *)
EXTENDS Run, IOUtils, TLCExt

Traces == JsonDeserialize(IOEnv.TRACE_FILE)
VARIABLE tid
Rec == Traces[tid]

N == Len(Rec.json)
LayerA ==
    IF Rec.fault # "none"
    THEN (IF Rec.exit_text = 2 /\ Rec.exit_json = 2 /\ Rec.exit_sarif = 2 THEN "ok" ELSE "ExitOnError")
    ELSE IF ~Rec.json_ok THEN "JsonMalformed"
    ELSE IF Rec.exit_json # ExpectedExit("none", N) THEN "ExitCode"
    ELSE IF Rec.exit_text # Rec.exit_json \/ Rec.exit_sarif # Rec.exit_json THEN "ExitDiffersByFormat"
    ELSE IF Rec.total # N THEN "JsonTotal"
    ELSE IF ~Rec.text_ok \/ ~BagEq(Rec.text, Rec.json) THEN "TextDiffers"
    ELSE IF ~Rec.sarif_ok THEN "SarifMalformed"
    ELSE IF ~Rec.sarif_declared THEN "SarifRuleUndeclared"
    ELSE IF ~Rec.sarif_onebased THEN "SarifNotOneBased"
    ELSE IF ~BagEq(Rec.sarif, Rec.json) THEN "SarifDiffers"
    ELSE "ok"

TraceInit == /\ tid = 1 /\ phase = "parse" /\ fault = "none" /\ input = "zero" /\ fmt = "text" /\ verbose = FALSE
             /\ nviol = 0 /\ rendered = FALSE /\ exit = -1
TraceNext == /\ tid <= Len(Traces)
             /\ PrintT(<<"VERDICT", tid, LayerA, "ok", 0>>)
             /\ tid' = tid + 1 /\ UNCHANGED vars
TraceSpec == TraceInit /\ [][TraceNext]_<<vars, tid>>
TraceInv == TRUE
=============================================================================
