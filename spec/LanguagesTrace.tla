--------------------------- MODULE LanguagesTrace ---------------------------
(* Batch judgement of C15 records: rec.linters = linters of the reported findings of one run;
   rec.same_as_canonical / rec.same_with_other_settings are the relations measured by the harness. *)
EXTENDS Languages, IOUtils, TLCExt

Traces == JsonDeserialize(IOEnv.TRACE_FILE)
VARIABLE tid
Rec == Traces[tid]
SeqSet(s) == {s[i] : i \in 1..Len(s)}

L == LangOf(Rec.ext, Rec.shebang)
LayerA == IF Rec.exit \notin {0, 1} THEN "Exit"
          ELSE IF \E l \in SeqSet(Rec.linters) \cup SeqSet(Rec.tool_linters) \cup SeqSet(Rec.notes_linters) :
                    ~Owns(Rec.cmd, l) THEN "ForeignRule"
          \* companions: an extensionless python-shebang script and an extensionless file without shebang
          ELSE IF \E l \in SeqSet(Rec.tool_linters) : ~Supports(l, LangOf("none", "python")) THEN "WrongLanguage"
          ELSE IF \E l \in SeqSet(Rec.notes_linters) : ~Supports(l, LangOf("none", "no")) THEN "UnknownTypeAnalysed"
          ELSE IF \E l \in SeqSet(Rec.linters) : ~Supports(l, L) THEN
                    (IF L = "unknown" THEN "UnknownTypeAnalysed" ELSE "WrongLanguage")
          ELSE IF ~Rec.same_as_canonical THEN "ExtensionCase"
          ELSE IF ~Rec.same_with_other_settings THEN "OtherSectionsMatter"
          \* the language of a file is a matter of its name and first line, not of where the command is started
          ELSE IF ~Rec.same_from_other_cwd THEN "LanguageDependsOnCwd"
          ELSE "ok"

TraceInit == tid = 1 /\ ext = "py" /\ shebang = "no" /\ content = "python" /\ cmd = "nesting" /\ done = FALSE
TraceNext == /\ tid <= Len(Traces)
             /\ PrintT(<<"VERDICT", tid, LayerA, "ok", 0>>)
             /\ tid' = tid + 1 /\ UNCHANGED vars
TraceSpec == TraceInit /\ [][TraceNext]_<<vars, tid>>
TraceInv == TRUE
=============================================================================
