-------------------------------- MODULE Edits --------------------------------
(***************************************************************************)
(* C13: meaning-preserving edits leave the findings unchanged up to line    *)
(* shift.                                                                   *)
(*                                                                           *)
(* An edit is [kind, at]:                                                   *)
(*   blank / comment   insert one line so that it becomes line `at`         *)
(*   trailing          append spaces to line `at`                           *)
(*   reindent, crlf, lf, bom, append   whole-file edits (`at` = 0)           *)
(*   rename            every function-local identifier renamed consistently  *)
(*                     (`at` = 0); judged for the rules that do not inspect  *)
(*                     names (all but stringly-typed and dry)                *)
(* Shift(edits, l) is the line at which original line l ends up.            *)
(* Requirement: Findings(apply(edits, f)) = {Shift(v) : v in Findings(f)};  *)
(* file-level findings (`pinned`) stay where they are.                      *)
(***************************************************************************)
EXTENDS Naturals, Sequences, FiniteSets, TLC, Json

CONSTANTS NLines,      \* abstract file length used for the meta-properties
          MaxEdits

Inserting == {"blank", "comment"}
\* narrow: every indentation halved (4 columns per level become 2) - the counterpart of reindent, which doubles it
Whole     == {"reindent", "narrow", "crlf", "bom", "append", "rename"}
Kinds     == Inserting \cup {"trailing"} \cup Whole
\* abstract positions: fractions of the file (0 = before the first line, 3 = after the last line);
\* 4 = "sweep": a family of single edits, one per line boundary of the file - for `trailing`, one per line - (the
\* harness instantiates every one)
Pos == 0..4

VARIABLES edits, done
vars == <<edits, done>>
Init == edits = <<>> /\ done = FALSE
Add(k, p) == /\ ~done /\ Len(edits) < MaxEdits
             /\ (k \in Whole => p = 0) /\ (k = "trailing" => p \in {1, 2, 4})
             /\ (p = 4 => k \in Inserting \cup {"trailing"} /\ edits = <<>>)
             /\ (edits # <<>> => edits[1].pos # 4)
             /\ (k \in Whole => \A i \in 1..Len(edits) : edits[i].kind # k)
             /\ edits' = Append(edits, [kind |-> k, pos |-> p]) /\ UNCHANGED done
Finish == ~done /\ Len(edits) >= 1 /\ done' = TRUE /\ UNCHANGED edits
Next == (\E k \in Kinds, p \in Pos : Add(k, p)) \/ Finish
Spec == Init /\ [][Next]_vars
Emit == done => PrintT(<<"CASE", ToJson([edits |-> edits])>>)

\* ---- the shift function (concrete line numbers) -----------------------------------------------
RECURSIVE ShiftSeq(_, _)
ShiftSeq(es, l) == IF es = <<>> THEN l
                   ELSE LET e == Head(es)
                            l2 == IF e.kind \in Inserting /\ e.at <= l THEN l + 1 ELSE l
                        IN ShiftSeq(Tail(es), l2)
ShiftV(es, v) == IF v.pinned THEN v.line ELSE ShiftSeq(es, v.line)
Expected(base, es) == {[file |-> v.file, linter |-> v.linter, sub |-> v.sub, line |-> IF v.file = 0 THEN ShiftV(es, v) ELSE v.line,
                        n |-> v.n, pinned |-> v.pinned] : v \in base}

\* ---- meta-properties of Shift, checked on all concrete instantiations over NLines lines -----------
Concrete(es) == {c \in [1..Len(es) -> 0..(NLines + MaxEdits + 1)] :
                    \A i \in 1..Len(es) : IF es[i].kind \in Inserting THEN c[i] \in 1..(NLines + i)
                                          ELSE IF es[i].kind = "trailing" THEN c[i] \in 1..NLines ELSE c[i] = 0}
WithAt(es, c) == [i \in 1..Len(es) |-> [kind |-> es[i].kind, at |-> c[i]]]
ShiftMonotone == \A c \in Concrete(edits) : \A a, b \in 1..NLines :
    a < b => ShiftSeq(WithAt(edits, c), a) < ShiftSeq(WithAt(edits, c), b)
ShiftBounded == \A c \in Concrete(edits) : \A a \in 1..NLines :
    /\ ShiftSeq(WithAt(edits, c), a) >= a
    /\ ShiftSeq(WithAt(edits, c), a) <= a + Cardinality({i \in 1..Len(edits) : edits[i].kind \in Inserting})
NonInsertingIsIdentity == (\A i \in 1..Len(edits) : edits[i].kind \notin Inserting) =>
    \A c \in Concrete(edits) : \A a \in 1..NLines : ShiftSeq(WithAt(edits, c), a) = a
=============================================================================
