------------------------- MODULE ConditionalVerboseTrace -------------------------
(* records: [cond, stmt, place, lines (sequence: the lines of the logger calls, empty if none), obs (sequence of the lines
   at which improper-logging.conditional-verbose was reported), other (findings of that rule elsewhere)] *)
EXTENDS ConditionalVerbose, Sequences, IOUtils, TLCExt
Traces == JsonDeserialize(IOEnv.TRACE_FILE)
VARIABLE tid
Rec == Traces[tid]
SeqSet(s) == {s[i] : i \in 1..Len(s)}
E == Expected(Rec.cond, Rec.stmt, Rec.place)
LayerA == IF Unspecified(Rec.cond, Rec.stmt, Rec.place) THEN "ok"
          ELSE IF E = 0 THEN (IF Len(Rec.obs) = 0 THEN "ok" ELSE "Spurious")
          ELSE IF Len(Rec.obs) < E THEN "Missed"
          ELSE IF Len(Rec.obs) > E THEN "Duplicate"
          ELSE IF SeqSet(Rec.obs) = SeqSet(Rec.lines) THEN "ok" ELSE "WrongLine"
TraceInit == tid = 1 /\ cond = "verbose" /\ stmt = "print" /\ place = "body" /\ done = FALSE
TraceNext == /\ tid <= Len(Traces) /\ PrintT(<<"VERDICT", tid, LayerA, "ok", 0>>) /\ tid' = tid + 1 /\ UNCHANGED vars
TraceSpec == TraceInit /\ [][TraceNext]_<<vars, tid>>
TraceInv == TRUE
=============================================================================
