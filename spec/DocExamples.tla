------------------------------ MODULE DocExamples ------------------------------
(***************************************************************************)
(* C19: every linter honours its documented examples, wherever embedded.    *)
(*                                                                           *)
(* A documented example is a sequence of `len` source lines with a bag of   *)
(* documented occurrences  occ = <<[rule, lo, hi, some]>>  (the finding is   *)
(* on one line of lo..hi of the example; `some` = "at least one of this     *)
(* rule somewhere in the example").  An acceptable example has occ = <<>>.  *)
(*                                                                           *)
(* An embedding places `copies` copies of the example in one file:           *)
(*   before   filler blocks at module level in front of everything           *)
(*   guard    the first filler block is a script entry guard                  *)
(*            (`if __name__ == "__main__":` + two statements) instead of a    *)
(*            function - same number of lines; what follows it is ordinary    *)
(*            module-level code                                               *)
(*   ctx      a sequence of enclosing frames (function, class, if, try,      *)
(*            with, for, while, else branch, except handler, finally block,  *)
(*            match/switch arm), outermost first                             *)
(*   inner    one unrelated statement inside the innermost scope             *)
(*   copies   1..MaxCopies copies separated by one blank line                *)
(*   rename   every copy has its identifiers renamed apart                   *)
(*   after    a filler block after the closed frames                         *)
(*   sibling  another file linted in the same run first: none | shadow (it   *)
(*            binds the example's identifiers to lists / numbers)            *)
(*                                                                           *)
(* Layer A.  Start(e, c) is the file line of the first line of copy c; it    *)
(* depends only on the embedding and the language's frame/filler geometry.   *)
(* The file must be reported exactly as the union over copies of the         *)
(* documented occurrences shifted by Start(e, c) - 1; nothing else may be    *)
(* reported inside a copy, and nothing on filler lines.  Findings on frame   *)
(* header lines concern the frame (a wrapper class can itself be stateless)  *)
(* and are outside the property.                                             *)
(***************************************************************************)
EXTENDS Naturals, Sequences, FiniteSets, TLC, Json

CONSTANTS MaxDepth, MaxCopies, MaxBefore

\* else / except / finally / case: the copies stand in the SECONDARY block of a compound statement (the else branch
\* of an if, an exception handler, a finally block, a match / switch arm), reached through `orelse`, `handlers`,
\* `finalbody`, `cases` rather than `body` in a syntax tree
Frames == {"func", "class", "if", "try", "with", "for", "while", "else", "except", "finally", "case"}
Loops  == {"for", "while"}
Kinds  == {"stmts", "method", "module", "whole", "fnbody", "split"}
\* shadowHere: the bindings of `shadow` stand in a function of their own at the END of the same file (another scope)
Siblings == {"none", "shadow", "shadowHere"}

SeqSet(s) == {s[i] : i \in 1..Len(s)}
Ctxs == UNION {[1..n -> Frames] : n \in 0..MaxDepth}

\* which embeddings make sense for which kind of example (loopOk: the linter's verdict does not depend on
\* being inside a loop; nestOk: the language allows the example below module level)
Valid(kind, ctx, before, guard, inner, copies, rename, after, sibling, loopOk) ==
    /\ (~loopOk => SeqSet(ctx) \cap Loops = {})
    /\ (guard => before >= 1)
    /\ CASE kind = "whole"  -> ctx = <<>> /\ before = 0 /\ ~inner /\ copies = 1 /\ ~rename
         [] kind = "split"  -> ctx = <<>> /\ before = 0 /\ ~inner /\ copies = 1 /\ ~rename /\ ~after /\ sibling = "none"
         [] kind = "module" -> ctx = <<>> /\ ~inner
         [] kind = "method" -> Len(ctx) >= 1 /\ ctx[Len(ctx)] = "class"
         [] kind = "fnbody" -> Len(ctx) >= 1 /\ ctx[1] = "func" /\ "class" \notin SeqSet(ctx)
         [] kind = "stmts"  -> TRUE

VARIABLES kind, ctx, before, guard, inner, copies, rename, after, sibling, loopOk, done
vars == <<kind, ctx, before, guard, inner, copies, rename, after, sibling, loopOk, done>>

Init == /\ kind = "stmts" /\ ctx = <<>> /\ before = 0 /\ guard = FALSE /\ inner = FALSE /\ copies = 1 /\ rename = FALSE
        /\ after = FALSE /\ sibling = "none" /\ loopOk = TRUE /\ done = FALSE
Choose(k, c, b, gd, i, n, r, a, s, l) ==
    /\ ~done /\ Valid(k, c, b, gd, i, n, r, a, s, l)
    /\ kind' = k /\ ctx' = c /\ before' = b /\ guard' = gd /\ inner' = i /\ copies' = n /\ rename' = r /\ after' = a
    /\ sibling' = s /\ loopOk' = l /\ done' = TRUE
Next == \E k \in Kinds, c \in Ctxs, b \in 0..MaxBefore, gd \in BOOLEAN, i \in BOOLEAN, n \in 1..MaxCopies, r \in BOOLEAN,
           a \in BOOLEAN, s \in Siblings, l \in BOOLEAN : Choose(k, c, b, gd, i, n, r, a, s, l)
Spec == Init /\ [][Next]_vars

Emit == done => PrintT(<<"CASE", ToJson([kind |-> kind, ctx |-> ctx, before |-> before, guard |-> guard, inner |-> inner,
                                          copies |-> copies, rename |-> rename, after |-> after,
                                          sibling |-> sibling, loopOk |-> loopOk])>>)

\* ---- layer A: geometry --------------------------------------------------------------------------
\* g: the language's geometry  [filler |-> lines per filler block, hdr |-> [frame -> header lines]]
HeaderLines(g, c) == LET F[i \in 0..Len(c)] == IF i = 0 THEN 0 ELSE F[i - 1] + g.hdr[c[i]] IN F[Len(c)]
Start(g, e, len, c) == e.before * g.filler + HeaderLines(g, e.ctx) + (IF e.inner THEN 1 ELSE 0)
                       + (c - 1) * (len + 1) + 1
CopyOf(g, e, len, line) ==
    LET cs == {c \in 1..e.copies : Start(g, e, len, c) <= line /\ line < Start(g, e, len, c) + len} IN
    IF cs = {} THEN 0 ELSE CHOOSE c \in cs : TRUE
FillerLine(g, e, line) == line <= e.before * g.filler
\* first line after the last copy and the closing lines of the frames: reported there = after-filler
AfterStart(g, e, len, closing) == Start(g, e, len, e.copies) + len + closing

\* copies never overlap and appear in order
CopiesDisjoint(g, e, len) == \A c1, c2 \in 1..e.copies : c1 < c2 => Start(g, e, len, c1) + len <= Start(g, e, len, c2)

\* ---- layer A: judging one file ------------------------------------------------------------------
\* reported: sequence of [rule, line]; occ: sequence of [rule, lo, hi, some]
InCopy(g, e, len, c, reported) == SelectSeq(reported, LAMBDA r : CopyOf(g, e, len, r.line) = c)
Rel(g, e, len, c, r) == r.line - Start(g, e, len, c) + 1
\* greedy matching of exact/range occurrences against findings (both in file order)
RECURSIVE Match(_, _, _)
Match(occs, finds, rel) ==      \* rel: sequence of [rule, line] relative to the copy; returns <<unmatchedOccs, unmatchedFinds>>
    IF occs = <<>> THEN <<0, Len(finds)>>
    ELSE LET o == Head(occs)
             idx == {i \in 1..Len(finds) : finds[i].rule = o.rule /\ o.lo <= finds[i].line /\ finds[i].line <= o.hi}
         IN IF idx = {} THEN LET m == Match(Tail(occs), finds, rel) IN <<m[1] + 1, m[2]>>
            ELSE LET i == CHOOSE x \in idx : \A y \in idx : x <= y
                     rest == [j \in 1..(Len(finds) - 1) |-> IF j < i THEN finds[j] ELSE finds[j + 1]]
                 IN Match(Tail(occs), rest, rel)
CopyVerdict(g, e, len, occ, c, reported) ==
    LET mine  == InCopy(g, e, len, c, reported)
        rel   == [i \in 1..Len(mine) |-> [rule |-> mine[i].rule, line |-> Rel(g, e, len, c, mine[i])]]
        someR == {o.rule : o \in {x \in SeqSet(occ) : x.some}}
        exact == SelectSeq(occ, LAMBDA o : ~o.some)
        relX  == SelectSeq(rel, LAMBDA r : r.rule \notin someR)
        m     == Match(exact, relX, rel)
    IN IF \E s \in someR : ~\E i \in 1..Len(rel) : rel[i].rule = s THEN "Missing"
       ELSE IF m[1] > 0 THEN "Missing"
       ELSE IF m[2] > 0 THEN (IF occ = <<>> THEN "AcceptableReported" ELSE "Extra")
       ELSE "ok"
FileVerdict(g, e, len, occ, closing, reported) ==
    LET bad == {c \in 1..e.copies : CopyVerdict(g, e, len, occ, c, reported) # "ok"} IN
    IF \E i \in 1..Len(reported) : FillerLine(g, e, reported[i].line)
                                    \/ reported[i].line >= AfterStart(g, e, len, closing) THEN "FillerReported"
    ELSE IF bad = {} THEN "ok"
    ELSE CopyVerdict(g, e, len, occ, CHOOSE c \in bad : \A d \in bad : c <= d, reported)

\* ---- laws of the requirement, checked over the bounded space ---------------------------------------
Geo == [filler |-> 5, hdr |-> [f \in Frames |-> IF f \in {"class", "case"} THEN 2 ELSE IF f \in {"else", "except", "finally"} THEN 3 ELSE 1]]
E == [before |-> before, ctx |-> ctx, inner |-> inner, copies |-> copies]
\* (1) copies are disjoint for every example length; (2) a file reporting exactly the shifted occurrences is
\* accepted and (3) dropping one, (4) adding one inside a copy, (5) moving one by a line are all rejected.
Shifted(len, occ) == [i \in 1..(copies * Len(occ)) |->
    LET c == ((i - 1) \div Len(occ)) + 1  o == occ[((i - 1) % Len(occ)) + 1]
    IN [rule |-> o.rule, line |-> Start(Geo, E, len, c) + o.lo - 1]]
SampleOcc == <<[rule |-> "r1", lo |-> 2, hi |-> 2, some |-> FALSE], [rule |-> "r2", lo |-> 4, hi |-> 4, some |-> FALSE]>>
LawsHold ==
    done => \A len \in {5, 9} :
        /\ CopiesDisjoint(Geo, E, len)
        /\ FileVerdict(Geo, E, len, SampleOcc, 0, Shifted(len, SampleOcc)) = "ok"
        /\ FileVerdict(Geo, E, len, <<>>, 0, <<>>) = "ok"
        /\ FileVerdict(Geo, E, len, SampleOcc, 0, Tail(Shifted(len, SampleOcc))) = "Missing"
        /\ FileVerdict(Geo, E, len, <<>>, 0, Shifted(len, SampleOcc)) = "AcceptableReported"
        /\ FileVerdict(Geo, E, len, SampleOcc, 0,
                       Shifted(len, SampleOcc) \o <<[rule |-> "r1", line |-> Start(Geo, E, len, copies) + 2]>>) = "Extra"
        /\ FileVerdict(Geo, E, len, SampleOcc, 0,
                       [i \in 1..Len(Shifted(len, SampleOcc)) |->
                            IF i = 1 THEN [rule |-> "r1", line |-> Shifted(len, SampleOcc)[1].line + 1]
                            ELSE Shifted(len, SampleOcc)[i]]) # "ok"
=============================================================================
