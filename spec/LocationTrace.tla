------------------------------ MODULE LocationTrace ------------------------------
(* Batch judgement of C12 records.  One record = one linted probe file: its layout, the template geometry,
   the construct's first header line as the renderer placed it (cross-checked against Top), and every
   violation the run reported for it with the measured facts. *)
EXTENDS Location, IOUtils, TLCExt

Traces == JsonDeserialize(IOEnv.TRACE_FILE)
VARIABLE tid
Rec == Traces[tid]
SeqSet(s) == {s[i] : i \in 1..Len(s)}

LayoutOk == Rec.t.free \/ Rec.top = Top(Rec.l, Rec.t)
Bad == {i \in 1..Len(Rec.viols) : Verdict(Rec.l, Rec.t, Rec.viols[i]) # "ok"}
LayerA == IF ~LayoutOk THEN "LAYOUT"
          ELSE IF Bad = {} THEN "ok"
          ELSE Verdict(Rec.l, Rec.t, Rec.viols[CHOOSE i \in Bad : \A j \in Bad : i <= j])
At == IF Bad = {} THEN 0 ELSE CHOOSE i \in Bad : \A j \in Bad : i <= j

TraceInit == tid = 1 /\ Init
TraceNext == /\ tid <= Len(Traces)
             /\ PrintT(<<"VERDICT", tid, LayerA, "ok", At>>)
             /\ tid' = tid + 1 /\ UNCHANGED vars
TraceSpec == TraceInit /\ [][TraceNext]_<<vars, tid>>
TraceInv == TRUE
=============================================================================
