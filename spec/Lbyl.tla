---------------------------------- MODULE Lbyl ----------------------------------
(***************************************************************************)
(* Beyond the listed properties (X04): the LBYL linter's eight patterns,    *)
(* their documented non-matches and their detect_* switches                 *)
(* (docs/lbyl-linter.md, "Pattern Details").                                 *)
(*                                                                           *)
(* A probe is one `if` statement built from                                  *)
(*   pattern   dictKey | hasattr | isinstance | fileExists | lenCheck |      *)
(*             noneCheck | stringValidator | division                        *)
(*   variant   canonical        check and use on the same subject            *)
(*             otherSubject     the body uses a different subject ("Different *)
(*                              dict/key combinations", "Different paths")   *)
(*             inverted         `if not <check>:` (documented for fileExists) *)
(*   switch    the pattern's detect_* option: default | on | off             *)
(* Layer A: the probe is reported, once, at the `if` line iff the variant is *)
(* canonical and the switch is effectively on (isinstance and noneCheck are  *)
(* off by default).  lenCheck uses a variable index (constant indices are a  *)
(* recorded finding of C19).                                                 *)
(***************************************************************************)
EXTENDS Naturals, Sequences, FiniteSets, TLC, Json

Patterns == {"dictKey", "hasattr", "isinstance", "fileExists", "lenCheck", "noneCheck", "stringValidator", "division"}
Variants == {"canonical", "otherSubject", "inverted"}
Switches == {"default", "on", "off"}
OffByDefault == {"isinstance", "noneCheck"}
Documented(p, v) == v \in {"canonical", "otherSubject"} \/ (v = "inverted" /\ p = "fileExists")

VARIABLES pattern, variant, switch, others, done
vars == <<pattern, variant, switch, others, done>>
\* others: the other patterns' switches all on / all off (a pattern's verdict must not depend on them)
Init == pattern = "dictKey" /\ variant = "canonical" /\ switch = "default" /\ others = "default" /\ done = FALSE
Choose(p, v, s, o) == ~done /\ Documented(p, v) /\ pattern' = p /\ variant' = v /\ switch' = s /\ others' = o /\ done' = TRUE
Next == \E p \in Patterns, v \in Variants, s \in Switches, o \in Switches : Choose(p, v, s, o)
Spec == Init /\ [][Next]_vars
Emit == done => PrintT(<<"CASE", ToJson([pattern |-> pattern, variant |-> variant, switch |-> switch, others |-> others])>>)

EffectiveOn(p, s) == s = "on" \/ (s = "default" /\ p \notin OffByDefault)
Expected(p, v, s) == IF v = "canonical" /\ EffectiveOn(p, s) THEN 1 ELSE 0

\* laws: switching a pattern off silences it; its verdict does not mention the other switches
LawsHold == done => /\ Expected(pattern, variant, "off") = 0
                    /\ Expected(pattern, variant, "on") >= Expected(pattern, variant, "default")
=============================================================================
