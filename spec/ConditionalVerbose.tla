--------------------------- MODULE ConditionalVerbose ---------------------------
(***************************************************************************)
(* Beyond the listed properties (X14): improper-logging's second rule,      *)
(* `improper-logging.conditional-verbose` (docs/improper-logging-linter.md  *)
(* "Conditional Verbose Detection (Python only)").                           *)
(*                                                                           *)
(* One Python function holds one `if <cond>:` statement.                     *)
(*   cond   the guard: the four documented verbose-like forms, forms the     *)
(*          documentation does not list, and guards that are not verbose     *)
(*          flags at all                                                     *)
(*   stmt   what the guarded block holds                                     *)
(*   place  the statement stands in the if-body, in the else-branch, or one  *)
(*          loop deeper inside the if-body                                   *)
(* Requirement: a finding per logger call that stands in the BODY of an if   *)
(* whose condition is a documented verbose-like form (at the line of the     *)
(* call); nothing for other statements, other guards, or the else-branch.    *)
(***************************************************************************)
EXTENDS Naturals, FiniteSets, TLC, Json

Documented == {"verbose", "selfVerbose", "configVerbose", "ctxGet"}
\* forms the code also accepts or that read like verbose guards, not listed in the documentation: no verdict
Open       == {"ctxSubscript", "upperVerbose", "debugName", "verboseAnd", "notVerbose", "verbosityGt"}
NotVerbose == {"quiet", "itemsTruth", "verboseString"}       \* `if quiet:`, `if items:`, `if mode == "verbose":`
Conds == Documented \cup Open \cup NotVerbose
\* statements: logger calls (count = how many), and things that are not logger calls
LoggerStmts == {"loggerDebug", "loggerInfo", "loggingWarning", "selfLoggerError", "logException", "twoLoggers"}
OtherStmts  == {"print", "plainCall", "assignment"}
Stmts == LoggerStmts \cup OtherStmts
Places == {"body", "else", "bodyLoop"}
Calls(s) == IF s = "twoLoggers" THEN 2 ELSE IF s \in LoggerStmts THEN 1 ELSE 0

VARIABLES cond, stmt, place, done
vars == <<cond, stmt, place, done>>
Init == cond \in Conds /\ stmt \in Stmts /\ place \in Places /\ done = FALSE
Next == ~done /\ done' = TRUE /\ UNCHANGED <<cond, stmt, place>>
Spec == Init /\ [][Next]_vars

Guarded(p) == p \in {"body", "bodyLoop"}
Expected(c, s, p) == IF c \in Documented /\ Guarded(p) THEN Calls(s) ELSE 0
Unspecified(c, s, p) == c \in Open /\ Guarded(p) /\ Calls(s) > 0
\* laws: only logger calls are ever reported; the else-branch is never reported
OnlyLoggerCalls == \A c \in Conds, p \in Places, s \in OtherStmts : Expected(c, s, p) = 0
ElseNeverReported == \A c \in Conds, s \in Stmts : Expected(c, s, "else") = 0
Emit == ~done => PrintT(<<"CASE", ToJson([cond |-> cond, stmt |-> stmt, place |-> place, expected |-> Expected(cond, stmt, place),
                                           unspecified |-> Unspecified(cond, stmt, place)])>>)
=============================================================================
