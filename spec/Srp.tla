---------------------------------- MODULE Srp ----------------------------------
(***************************************************************************)
(* C16: the SRP linter applies its method, size and keyword thresholds      *)
(* exactly.                                                                 *)
(*                                                                           *)
(* A class is a record of member counts and body-line counts:               *)
(*   pub, stat, clsm   public / static / class methods        (counted)     *)
(*   priv, dunder, prop, setter, ctor                         (not counted) *)
(*   fill      extra code lines in the body (attributes / fields)            *)
(*   blank, comment   blank and comment-only lines            (not LOC)      *)
(*   keyword   the name contains a responsibility keyword                    *)
(*   lines     code lines each member kind contributes (renderer's layout)  *)
(* Methods(c) and Loc(c) follow docs/srp-linter.md "Method Counting Rules"   *)
(* and "Count lines of code (excluding blank lines and comments)".           *)
(* Issues(c, cfg) = the exceeded criteria in the documented order; the class *)
(* is reported iff Issues is non-empty; a class exactly on a limit is not.   *)
(***************************************************************************)
EXTENDS Naturals, Sequences, FiniteSets, TLC, Json

Methods(c) == c.pub + c.stat + c.clsm
\* code lines: header + every member's code lines + filler (layout constants come with the class)
Loc(c) == c.headerLines + c.pub * c.lpub + c.stat * c.lstat + c.clsm * c.lclsm + c.priv * c.lpriv
          + c.dunder * c.ldunder + c.prop * c.lprop + c.setter * c.lsetter + c.ctor * c.lctor + c.fill + c.footerLines
\* the configured keyword list: the built-in one ("default": Manager, Handler, ...), a list of the user's that names the
\* OTHER suffix the generated classes carry ("own": [Thing]), one that names nothing in the program ("other"), or the
\* empty list ("empty": the user switched every keyword off - nothing can contain a keyword that is not there)
KeywordHit(c, cfg) == cfg.checkKeywords /\ (CASE cfg.keywords = "default" -> c.keyword
                                               [] cfg.keywords = "own" -> ~c.keyword
                                               [] OTHER -> FALSE)
Issues(c, cfg) ==
    (IF Methods(c) > cfg.maxMethods THEN <<"methods">> ELSE <<>>)
    \o (IF Loc(c) > cfg.maxLoc THEN <<"lines">> ELSE <<>>)
    \o (IF KeywordHit(c, cfg) THEN <<"keyword">> ELSE <<>>)
Reported(c, cfg) == Issues(c, cfg) # <<>>

\* ---- laws ------------------------------------------------------------------------------------
VARIABLES cls, cfg, done
vars == <<cls, cfg, done>>
Shape == [pub : 0..3, stat : 0..1, clsm : 0..1, priv : 0..2, dunder : 0..1, prop : 0..1, setter : 0..1, ctor : 0..1,
          fill : {0, 3}, blank : {0, 2}, comment : {0, 2}, keyword : BOOLEAN]
Layout == [headerLines |-> 1, footerLines |-> 0, lpub |-> 2, lstat |-> 3, lclsm |-> 3, lpriv |-> 2, ldunder |-> 2,
           lprop |-> 3, lsetter |-> 3, lctor |-> 2]
WithLayout(s) == [k \in DOMAIN s \cup DOMAIN Layout |-> IF k \in DOMAIN s THEN s[k] ELSE Layout[k]]
Init == cls \in Shape /\ cfg \in [maxMethods : 1..3, maxLoc : {6, 12, 40}, checkKeywords : BOOLEAN,
                                  keywords : {"default", "own", "other", "empty"}] /\ done = FALSE
Next == ~done /\ done' = TRUE /\ UNCHANGED <<cls, cfg>>
Spec == Init /\ [][Next]_vars

C == WithLayout(cls)
OnLimitNotReported == (Methods(C) = cfg.maxMethods /\ Loc(C) <= cfg.maxLoc /\ ~KeywordHit(C, cfg))
                          => ~Reported(C, cfg)
AboveLimitReported == (Methods(C) = cfg.maxMethods + 1) => Reported(C, cfg)
BlankAndCommentIrrelevant == Loc(C) = Loc([C EXCEPT !.blank = 0, !.comment = 0])
PrivateIrrelevantForMethods == Methods(C) = Methods([C EXCEPT !.priv = 0, !.dunder = 0, !.prop = 0, !.setter = 0, !.ctor = 0])
EmitShape == (cfg = [maxMethods |-> 1, maxLoc |-> 6, checkKeywords |-> FALSE, keywords |-> "default"] /\ ~done) => PrintT(<<"CASE", ToJson(cls)>>)
KeywordOnlyWhenSwitchedOn == ("keyword" \in {Issues(C, cfg)[i] : i \in 1..Len(Issues(C, cfg))}) => cfg.checkKeywords
EmptyListNeverHits == cfg.keywords = "empty" => ~KeywordHit(C, cfg)
=============================================================================
