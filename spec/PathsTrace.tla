------------------------------ MODULE PathsTrace ------------------------------
(* Batch judgement of C09 records: one record = one (placement, command) run compared with the
   reference placement's run of the same command (bags of (rule, project-relative file, line, column,
   message with paths normalised)). *)
EXTENDS Paths, Integers, IOUtils, TLCExt

Traces == JsonDeserialize(IOEnv.TRACE_FILE)
VARIABLE tid
Rec == Traces[tid]

LayerA == IF Rec.exit # Rec.ref_exit THEN "Exit"
          ELSE IF Rec.missing > 0 THEN "Missing"
          ELSE IF Rec.extra > 0 THEN "Extra"
          ELSE "ok"
\* layer B: with the model's flags, would this placement be affected at all?
Affected == \/ (ExcludeOnAnyPathPart /\ Rec.parent \in Excluded /\ MentionsParent(Rec.cwd, Rec.spelling))
            \/ (MarkerSubstring /\ Rec.parent \in Markers /\ MentionsParent(Rec.cwd, Rec.spelling))
LayerB == IF (Rec.missing + Rec.extra > 0) /\ ~Affected THEN "UnpredictedDifference" ELSE "ok"

TraceInit == tid = 1 /\ parent = "x" /\ cwd = "root" /\ spelling = "absolute" /\ done = FALSE
TraceNext == /\ tid <= Len(Traces)
             /\ PrintT(<<"VERDICT", tid, LayerA, LayerB, 0>>)
             /\ tid' = tid + 1 /\ UNCHANGED vars
TraceSpec == TraceInit /\ [][TraceNext]_<<vars, tid>>
TraceInv == TRUE
=============================================================================
