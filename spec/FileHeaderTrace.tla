---------------------------- MODULE FileHeaderTrace ----------------------------
(* records: the case fields of FileHeader.tla plus
     fline  sequence of 5 file line numbers: where each field's `Name:` line stands (0 = absent)
     obs    sequence of [line, kind ("missing" | "temporal" | "other"), what (field name / phrase id / text)] *)
EXTENDS FileHeader, IOUtils, TLCExt
Traces == JsonDeserialize(IOEnv.TRACE_FILE)
VARIABLE tid
Rec == Traces[tid]
ObsSet == {Rec.obs[i] : i \in 1..Len(Rec.obs)}
Distinct == Cardinality(ObsSet) = Len(Rec.obs)         \* no finding twice
Miss == {o \in ObsSet : o.kind = "missing"}
Temp == {o \in ObsSet : o.kind = "temporal"}
\* the case's own expectation, evaluated from the record (the model's operators with the record's values)
RValued == {i \in 1..5 : Rec.st[Fields[i]] \in {"filled", "twoLines"}}
RFirst == CHOOSE i \in RValued : \A j \in RValued : i <= j
RLast  == CHOOSE i \in RValued : \A j \in RValued : i >= j
RCarrier(k) == IF k = 1 \/ Rec.where = "same" THEN RFirst ELSE RLast
RHas == Rec.head = "present"
RMissing == IF RHas THEN {f \in Required(Rec.req, Rec.lang) : Rec.st[f] \in {"absent", "empty"}} ELSE {}
RTemporal == IF RHas /\ Rec.atemporal
             THEN {[line |-> Rec.fline[RCarrier(k)], kind |-> "temporal", what |-> Rec.phr[k]] :
                       k \in {k \in 1..Len(Rec.phr) : Temporal(Rec.phr[k])}}
             ELSE {}
LayerA ==
    IF \E o \in ObsSet : o.kind = "other" THEN "OtherFinding"
    ELSE IF ~Distinct THEN "Duplicate"
    ELSE IF ~RHas THEN (IF ObsSet = {[line |-> 1, kind |-> "missing", what |-> "docstring"]} THEN "ok" ELSE "NoHeaderVerdict")
    ELSE IF {o.what : o \in Miss} # RMissing THEN
         (IF \E f \in RMissing : f \notin {o.what : o \in Miss} THEN "MissingFieldNotReported" ELSE "FieldReportedButPresent")
    ELSE IF \E o \in Miss : o.line # 1 THEN "MissingFieldLine"
    ELSE IF Temp = RTemporal THEN "ok"
    ELSE IF \E e \in RTemporal : ~\E o \in Temp : o.what = e.what THEN "TemporalMissed"
    ELSE IF \E o \in Temp : ~\E e \in RTemporal : o.what = e.what THEN "TemporalSpurious"
    ELSE "TemporalLine"
TraceInit == tid = 1 /\ lang = "python" /\ head = "none" /\ st = [f \in FieldSet |-> "filled"] /\ phr = <<>> /\ where = "same"
             /\ req = "default" /\ atemporal = TRUE /\ done = FALSE
TraceNext == /\ tid <= Len(Traces) /\ PrintT(<<"VERDICT", tid, LayerA, "ok", 0>>) /\ tid' = tid + 1 /\ UNCHANGED vars
TraceSpec == TraceInit /\ [][TraceNext]_<<vars, tid>>
TraceInv == TRUE
=============================================================================
