------------------------------ MODULE RustSafety ------------------------------
(***************************************************************************)
(* C17: the Rust safety linters flag exactly the risky calls outside test   *)
(* code.                                                                    *)
(*                                                                           *)
(* A site is one risky call in a scope stack:                               *)
(*   mod    "none" | "plain" | "cfgtest" | "cfgtestOuter" (a plain module    *)
(*          nested in a #[cfg(test)] module)                                 *)
(*   fn     "plain" | "test" | "testAttrs" (#[test] among other attributes)  *)
(*          | "async"                                                        *)
(*   inner  sequence (outermost first, length <= 2) over loops (for, while,  *)
(*          loop), closures and offloading wrappers (spawn_blocking,         *)
(*          block_in_place) that enclose the call                            *)
(*   item   the call                                                         *)
(* Reported(site, opts) is the verdict of the linter that owns the item.     *)
(***************************************************************************)
EXTENDS Naturals, Sequences, FiniteSets, TLC, Json

Mods   == {"none", "plain", "cfgtest", "cfgtestOuter"}
Fns    == {"plain", "test", "testAttrs", "async"}
Loops  == {"for", "while", "loop"}
Wraps  == {"spawn_blocking", "block_in_place"}
Inners == Loops \cup Wraps \cup {"closure"}
\* cloneWhileCond: `while d.clone().len() > 100 { .. }` - the clone stands in the loop's CONDITION, evaluated on every
\* iteration: it is inside that loop whatever encloses the statement
\* cloneLetMentioned: like cloneLetUnused, and the source's NAME occurs afterwards in a string literal, a comment and
\* as a field name of another value - none of which is a use of the variable
\* unwrapChain2 / unwrapChainLines: two .unwrap() calls in one method chain (on one line / one call per line);
\* expectThenUnwrap: `.expect(..)` and `.unwrap()` in one chain
\* cloneLetShadowed: `let c = d.clone(); let d = d.trim().len();` - the later `let` rebinds the source's name, but its
\* initializer still reads the OLD binding: the source is used after the clone, exactly as in clonePlain
Items  == {"unwrap", "expect", "unwrapChain2", "unwrapChainLines", "expectThenUnwrap", "clonePlain", "cloneLetShadowed", "cloneChain", "cloneLetUnused", "cloneLetMentioned", "cloneWhileCond",
           "blockFs", "blockFsUse", "blockSleep", "blockNet"}
LinterOf(it) == CASE it \in {"unwrap", "expect", "unwrapChain2", "unwrapChainLines", "expectThenUnwrap"} -> "unwrap-abuse"
                  [] it \in {"clonePlain", "cloneLetShadowed", "cloneChain", "cloneLetUnused", "cloneLetMentioned", "cloneWhileCond"} -> "clone-abuse"
                  [] OTHER -> "blocking-async"

\* "asyncfn": an `async fn` ITEM declared in the body of the function (possibly with a loop inside it); the call then
\* stands lexically inside an async fn whatever the enclosing function is - and still in exactly one place
InnerSeqs == {<<>>} \cup {<<a>> : a \in Inners} \cup {<<a, b>> : a \in Inners, b \in Inners}
             \cup {<<"asyncfn">>} \cup {<<"asyncfn", l>> : l \in Loops}
Sites == [mod : Mods, fn : Fns, inner : InnerSeqs, item : Items]

ToSet(s) == {s[i] : i \in 1..Len(s)}
InTest(s)  == s.mod \in {"cfgtest", "cfgtestOuter"} \/ s.fn \in {"test", "testAttrs"}
InAsync(s) == s.fn = "async" \/ "asyncfn" \in ToSet(s.inner)
InWrapper(s) == ToSet(s.inner) \cap Wraps # {}
\* a loop encloses the call with no closure/wrapper boundary in between
InLoop(s) == \E i \in 1..Len(s.inner) : s.inner[i] \in Loops /\ \A j \in (i + 1)..Len(s.inner) : s.inner[j] \in Loops
\* a loop exists but a closure sits between it and the call: whether that still is "inside a loop" is not documented
LoopBehindClosure(s) == ~InLoop(s) /\ ToSet(s.inner) \cap Loops # {}

Exempt(s, o) == InTest(s) /\ o.allowInTests
Reported(s, o) ==
    CASE s.item \in {"unwrap", "unwrapChain2", "unwrapChainLines", "expectThenUnwrap"} -> ~Exempt(s, o)
      [] s.item = "expect" -> ~o.allowExpect /\ ~Exempt(s, o)
      [] s.item \in {"clonePlain", "cloneLetShadowed"} -> InLoop(s) /\ o.detectLoop /\ ~Exempt(s, o)
      [] s.item = "cloneWhileCond" -> o.detectLoop /\ ~Exempt(s, o)
      [] s.item = "cloneChain"     -> ((InLoop(s) /\ o.detectLoop) \/ o.detectChain) /\ ~Exempt(s, o)
      [] s.item \in {"cloneLetUnused", "cloneLetMentioned"} -> ((InLoop(s) /\ o.detectLoop) \/ o.detectUnnecessary) /\ ~Exempt(s, o)
      [] s.item \in {"blockFs", "blockFsUse"} -> InAsync(s) /\ ~InWrapper(s) /\ o.detectFs /\ ~Exempt(s, o)
      [] s.item = "blockSleep"     -> InAsync(s) /\ ~InWrapper(s) /\ o.detectSleep /\ ~Exempt(s, o)
      [] s.item = "blockNet"       -> InAsync(s) /\ ~InWrapper(s) /\ o.detectNet /\ ~Exempt(s, o)
\* number of findings expected on the line of the call.  `d.clone().clone()` holds TWO clone calls: the outer one
\* is chained on a clone (and may be in a loop), the inner one is a plain clone that may be in a loop.
B2N(b) == IF b THEN 1 ELSE 0
Count(s, o) ==
    IF s.item = "cloneChain"
    THEN IF Exempt(s, o) THEN 0
         ELSE B2N((InLoop(s) /\ o.detectLoop) \/ o.detectChain) + B2N(InLoop(s) /\ o.detectLoop)
    ELSE IF s.item \in {"unwrapChain2", "unwrapChainLines"} THEN 2 * B2N(~Exempt(s, o))       \* every call, each once
    ELSE IF s.item = "expectThenUnwrap" THEN B2N(~Exempt(s, o)) + B2N(~o.allowExpect /\ ~Exempt(s, o))
    ELSE B2N(Reported(s, o))
\* sites the documentation leaves open (no verdict)
Unspecified(s) == (LinterOf(s.item) = "clone-abuse" /\ LoopBehindClosure(s))
                  \/ (s.item \in {"cloneLetUnused", "cloneLetMentioned"} /\ InLoop(s))   \* "never used afterwards" inside a loop body re-entered

Opts == [allowInTests : BOOLEAN, allowExpect : BOOLEAN, detectLoop : BOOLEAN, detectChain : BOOLEAN,
         detectUnnecessary : BOOLEAN, detectFs : BOOLEAN, detectSleep : BOOLEAN, detectNet : BOOLEAN]

VARIABLES site, done
vars == <<site, done>>
Init == site \in Sites /\ done = FALSE
Next == ~done /\ done' = TRUE /\ UNCHANGED site
Spec == Init /\ [][Next]_vars

\* ---- laws ------------------------------------------------------------------------------------
TestCodeNeverReportedWhenAllowed == \A o \in Opts : (InTest(site) /\ o.allowInTests) => ~Reported(site, o)
SwitchesAreIndependent == \A o \in Opts :
    (site.item = "cloneChain" /\ InLoop(site) /\ ~InTest(site) /\ o.detectLoop /\ ~o.detectChain) => Reported(site, o)
BlockingNeedsAsync == \A o \in Opts : (LinterOf(site.item) = "blocking-async" /\ ~InAsync(site)) => ~Reported(site, o)
Emit == ~done => PrintT(<<"CASE", ToJson([mod |-> site.mod, fn |-> site.fn, inner |-> site.inner, item |-> site.item,
                                            unspecified |-> Unspecified(site)])>>)
=============================================================================
