-------------------------------- MODULE Paths --------------------------------
(***************************************************************************)
(* C09: results do not depend on how paths are spelled or where the project *)
(* lives.                                                                   *)
(*                                                                           *)
(* A placement is (parent, cwd, spelling):                                  *)
(*   parent    name of the directory the project directory sits in          *)
(*   cwd       where the command is started                                 *)
(*   spelling  how the project directory is named on the command line       *)
(* The file system is  <top>/<parent>/proj  with siblings <top>/else and a  *)
(* foreign git checkout <top>/co (containing .git) next to it.              *)
(* Layer A: the violations are those of the reference placement             *)
(* (parent "x", cwd project root, absolute path), up to path spelling.      *)
(* Layer B: the places where the code looks at the path as spelled:         *)
(*   ExcludeOnAnyPathPart   _is_hardcoded_excluded scans every part of the  *)
(*                          spelled path, including those above the project *)
(*   MarkerSubstring        test-code / ignore checks on str(path)          *)
(*   RuleParserAtCwd        the rules' shared ignore parser is rooted at    *)
(*                          the working directory: started from another     *)
(*                          project's root (cwd "other": its own            *)
(*                          .thailintignore hides every source file), THAT  *)
(*                          project's ignore patterns are applied as well   *)
(***************************************************************************)
EXTENDS Naturals, Sequences, FiniteSets, TLC, Json

CONSTANTS ExcludeOnAnyPathPart, MarkerSubstring, RuleParserAtCwd

Excluded == {"build", "dist", "venv", ".venv", "node_modules", "__pycache__", "htmlcov", ".tox",
             "pkg.egg-info"}
Markers  == {"tests", "test", "test_data", "examples", "benches", "legacy", "gen"}
Plain    == {"x", "proj", "with space"}
Parents  == Excluded \cup Markers \cup Plain

Cwds      == {"root", "parent", "inside", "else", "checkout", "other"}
\* mixedAbsRel: two path arguments in one invocation - the project directory spelled absolutely and its (empty)
\* sub-directory spelled relatively from outside the project
\* subdirAbs: not the project directory but its sub-directory srcx is the target (absolute spelling); the reference is the
\* same target under the reference placement
Spellings == {"absolute", "dot", "dotslash", "relative", "trailing", "dotdot", "mixedAbsRel", "subdirAbs"}

\* which spellings make sense from which cwd, and whether the spelled path mentions <parent>
Valid(c, s) == CASE c = "root"     -> s \in {"absolute", "dot", "dotslash", "dotdot", "subdirAbs"}
                 [] c = "parent"   -> s \in {"absolute", "relative", "dotslash", "trailing", "mixedAbsRel"}
                 [] c = "inside"   -> s \in {"absolute", "dotdot"}
                 [] c = "else"     -> s \in {"absolute", "dotdot", "mixedAbsRel", "subdirAbs"}
                 [] c = "checkout" -> s \in {"absolute", "dotdot", "mixedAbsRel"}
                 [] c = "other"    -> s \in {"absolute", "dotdot"}
MentionsParent(c, s) == \/ s \in {"absolute", "mixedAbsRel", "subdirAbs"}
                        \/ (c \in {"else", "checkout", "other"} /\ s = "dotdot")
                        \/ (c = "root" /\ s = "dotdot")

VARIABLES parent, cwd, spelling, done
vars == <<parent, cwd, spelling, done>>
Init == parent = "x" /\ cwd = "root" /\ spelling = "absolute" /\ done = FALSE
Choose(p, c, s) == ~done /\ Valid(c, s) /\ parent' = p /\ cwd' = c /\ spelling' = s /\ done' = TRUE
Next == \E p \in Parents, c \in Cwds, s \in Spellings : Choose(p, c, s)
Spec == Init /\ [][Next]_vars

\* ---- layer A: nothing about the placement matters -------------------------------------------
SameAsReference == TRUE

\* ---- layer B: what the coded path tests would do ----------------------------------------------
AllFilesExcludedB == ExcludeOnAnyPathPart /\ parent \in Excluded /\ MentionsParent(cwd, spelling)
TestExemptionFlipsB == MarkerSubstring /\ parent \in Markers /\ MentionsParent(cwd, spelling)
ForeignIgnoreAppliesB == RuleParserAtCwd /\ cwd = "other"
PlacementIndependentB == done => ~AllFilesExcludedB /\ ~TestExemptionFlipsB /\ ~ForeignIgnoreAppliesB

Emit == done => PrintT(<<"CASE", ToJson([parent |-> parent, cwd |-> cwd, spelling |-> spelling,
                                          predicted |-> IF AllFilesExcludedB THEN "excluded"
                                                        ELSE IF TestExemptionFlipsB THEN "marker"
                                                        ELSE IF ForeignIgnoreAppliesB THEN "foreignIgnore" ELSE "same"])>>)
=============================================================================
