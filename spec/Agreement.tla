------------------------------ MODULE Agreement ------------------------------
(***************************************************************************)
(* C10: directory, file-list, CLI and library runs agree with one another.  *)
(*                                                                           *)
(* A project is a set of files 1..NFiles.  A target is a single file, the   *)
(* whole directory, or an explicit list S of files; an entry point is the   *)
(* CLI command of one linter or the library API.  The state machine below   *)
(* enumerates every (target, entry) pair - its reachable states ARE the     *)
(* cases replayed into the real tool.  The requirement is stated over bags  *)
(* of violations (sequences of violation ids, order irrelevant):            *)
(*   UnionLaw   per-file rules:  Viol(dir) = (+) f in dir : Viol(f)          *)
(*                               Viol(list S) = (+) f in S : Viol(f)          *)
(*   ApiIsCli   Viol_api(target, rule) = Viol_cli(target, rule)              *)
(*              for files, directories and cross-file rules                  *)
(***************************************************************************)
EXTENDS Naturals, Sequences, FiniteSets, TLC

CONSTANTS NFiles, MaxList

Files == 1..NFiles

VARIABLES kind, sel, done
vars == <<kind, sel, done>>

Init == kind = "none" /\ sel = {} /\ done = FALSE

ChooseFile(f) == kind = "none" /\ kind' = "file" /\ sel' = {f} /\ done' = TRUE
ChooseDir     == kind = "none" /\ kind' = "dir" /\ sel' = Files /\ done' = TRUE
ChooseList(S) == /\ kind = "none" /\ S # {} /\ Cardinality(S) <= MaxList
                 /\ kind' = "list" /\ sel' = S /\ done' = TRUE

Next == \/ \E f \in Files : ChooseFile(f)
        \/ ChooseDir
        \/ \E S \in SUBSET Files : ChooseList(S)
Spec == Init /\ [][Next]_vars

SetToSeq(S) == CHOOSE s \in [1..Cardinality(S) -> S] : \A i, j \in 1..Cardinality(S) : i < j => s[i] < s[j]
Emit == done => PrintT(<<"TARGET", kind, SetToSeq(sel)>>)

\* ---- bags as sequences of ids ----------------------------------------------------------------
ToSet(s) == {s[i] : i \in 1..Len(s)}
Count(s, x) == Cardinality({i \in 1..Len(s) : s[i] = x})
BagEq(a, b) == \A x \in ToSet(a) \cup ToSet(b) : Count(a, x) = Count(b, x)
RECURSIVE Flatten(_)
Flatten(ss) == IF ss = <<>> THEN <<>> ELSE Head(ss) \o Flatten(Tail(ss))

\* rec.whole: per-file-rule findings of the dir/list run; rec.parts: one sequence per member file
UnionLaw(rec) == BagEq(rec.whole, Flatten(rec.parts))
ApiIsCli(rec) == BagEq(rec.api, rec.cli)
=============================================================================
