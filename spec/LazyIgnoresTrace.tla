---------------------------- MODULE LazyIgnoresTrace ----------------------------
(* Batch judgement of X03 records: [header, dirs, unjust (sequence of [i, n]: findings on directive i's line),
   orphan (sequence of [r, n]: orphan findings naming declared id r), stray]. *)
EXTENDS LazyIgnores, IOUtils, TLCExt

Traces == JsonDeserialize(IOEnv.TRACE_FILE)
VARIABLE tid
Rec == Traces[tid]
ToSet(s) == {s[i] : i \in 1..Len(s)}
H == ToSet(Rec.header)
Ds == [i \in 1..Len(Rec.dirs) |-> ToSet(Rec.dirs[i])]
ObsU(i) == LET m == {k \in 1..Len(Rec.unjust) : Rec.unjust[k].i = i} IN IF m = {} THEN 0 ELSE Rec.unjust[CHOOSE k \in m : TRUE].n
ObsO(r) == LET m == {k \in 1..Len(Rec.orphan) : Rec.orphan[k].r = r} IN IF m = {} THEN 0 ELSE Rec.orphan[CHOOSE k \in m : TRUE].n
LayerA ==
    IF Rec.stray > 0 THEN "StrayFinding"
    ELSE IF \E i \in 1..Len(Ds) : Unjustified(H, Ds[i]) /\ ObsU(i) = 0 THEN "UnjustifiedMissed"
    ELSE IF \E i \in 1..Len(Ds) : ~Unjustified(H, Ds[i]) /\ ObsU(i) > 0 THEN "JustifiedReported"
    ELSE IF \E i \in 1..Len(Ds) : ObsU(i) > 1 THEN "UnjustifiedDuplicate"
    ELSE IF \E r \in Orphaned(H, Ds) : ObsO(r) = 0 THEN "OrphanMissed"
    ELSE IF \E r \in H \ Orphaned(H, Ds) : ObsO(r) > 0 THEN "UsedReportedOrphan"
    ELSE IF \E r \in H : ObsO(r) > 1 THEN "OrphanDuplicate"
    ELSE "ok"

TraceInit == tid = 1 /\ Init
TraceNext == /\ tid <= Len(Traces)
             /\ PrintT(<<"VERDICT", tid, LayerA, "ok", 0>>)
             /\ tid' = tid + 1 /\ UNCHANGED vars
TraceSpec == TraceInit /\ [][TraceNext]_<<vars, tid>>
TraceInv == TRUE
=============================================================================
