----------------------------- MODULE PrintSitesTrace -----------------------------
EXTENDS PrintSites, IOUtils, TLCExt
Traces == JsonDeserialize(IOEnv.TRACE_FILE)
VARIABLE tid
Rec == Traces[tid]
Exp == IF Rec.lang = "python" THEN ExpectedPy(Rec.site, Rec.allow) ELSE ExpectedTs(Rec.method, Rec.mcfg, Rec.fkind)
LayerA == IF Rec.other > 0 THEN "OtherFinding"
          ELSE IF Rec.n < Exp THEN "Missed" ELSE IF Rec.n > Exp /\ Exp = 0 THEN "Spurious" ELSE IF Rec.n > Exp THEN "Duplicate" ELSE "ok"
TraceInit == tid = 1 /\ Init
TraceNext == /\ tid <= Len(Traces) /\ PrintT(<<"VERDICT", tid, LayerA, "ok", 0>>) /\ tid' = tid + 1 /\ UNCHANGED vars
TraceSpec == TraceInit /\ [][TraceNext]_<<vars, tid>>
TraceInv == TRUE
=============================================================================
