--------------------------- MODULE RustSafetyTrace ---------------------------
(* Batch judgement of C17 records: one record = one rendered file under one option setting of one linter:
   rec.sites (with the line of the call), rec.opts, rec.linter, rec.reported = lines with how many findings. *)
EXTENDS RustSafety, IOUtils, TLCExt

Traces == JsonDeserialize(IOEnv.TRACE_FILE)
VARIABLE tid
Rec == Traces[tid]
SeqSet(s) == {s[i] : i \in 1..Len(s)}

Mine == {s \in SeqSet(Rec.sites) : LinterOf(s.item) = Rec.linter /\ ~Unspecified(s)}
N(line) == LET m == {r \in SeqSet(Rec.reported) : r.line = line} IN IF m = {} THEN 0 ELSE (CHOOSE r \in m : TRUE).n
SiteVerdict(s) == LET e == Count(s, Rec.opts) IN
                  IF N(s.line) = e THEN "ok" ELSE IF N(s.line) > e /\ e > 0 THEN "Duplicate"
                  ELSE IF N(s.line) < e THEN "Missed" ELSE "Spurious"
Bad == {s \in Mine : SiteVerdict(s) # "ok"}
Lines == {s.line : s \in SeqSet(Rec.sites)}
Stray == {r \in SeqSet(Rec.reported) : r.line \notin Lines}
LayerA == IF Stray # {} THEN "WrongPosition"
          ELSE IF Bad = {} THEN "ok"
          ELSE SiteVerdict(CHOOSE s \in Bad : \A t \in Bad : s.line <= t.line)

TraceInit == tid = 1 /\ site = [mod |-> "none", fn |-> "plain", inner |-> <<>>, item |-> "unwrap"] /\ done = FALSE
TraceNext == /\ tid <= Len(Traces)
             /\ PrintT(<<"VERDICT", tid, LayerA, "ok", 0>>)
             /\ tid' = tid + 1 /\ UNCHANGED vars
TraceSpec == TraceInit /\ [][TraceNext]_<<vars, tid>>
TraceInv == TRUE
=============================================================================
