--------------------------- MODULE DocExamplesTrace ---------------------------
(* Batch judgement of C19 records.  One record = one linted file that embeds a documented example:
   the embedding, the language's geometry, the example's length and documented occurrences, the copy start
   lines as the renderer placed them (cross-checked against Start) and what the owning linter reported. *)
EXTENDS DocExamples, IOUtils, TLCExt

Traces == JsonDeserialize(IOEnv.TRACE_FILE)
VARIABLE tid
Rec == Traces[tid]

LayoutOk == /\ Len(Rec.starts) = Rec.e.copies
            /\ \A c \in 1..Rec.e.copies : Rec.starts[c] = Start(Rec.geo, Rec.e, Rec.len, c)
LayerA == IF ~LayoutOk THEN "LAYOUT"
          ELSE FileVerdict(Rec.geo, Rec.e, Rec.len, Rec.occ, Rec.closing, Rec.reported)

TraceInit == tid = 1 /\ Init
TraceNext == /\ tid <= Len(Traces)
             /\ PrintT(<<"VERDICT", tid, LayerA, "ok", 0>>)
             /\ tid' = tid + 1 /\ UNCHANGED vars
TraceSpec == TraceInit /\ [][TraceNext]_<<vars, tid>>
TraceInv == TRUE
=============================================================================
