--------------------------------- MODULE Pipeline ---------------------------------
(***************************************************************************)
(* Beyond the listed properties (X09): the collection-pipeline rule          *)
(* (docs/collection-pipeline-linter.md, "What Gets Detected" / "What Gets    *)
(* Ignored" / min_continues).                                                *)
(*                                                                           *)
(* A loop starts with k guard statements `if <cond>: continue` followed by   *)
(* the real work.  Variants: plain | withElse (the single guard has an else  *)
(* branch) | walrus (the single guard's condition binds a name).             *)
(* Layer A: reported (once, at the `for` line, stating k conditions when     *)
(* k >= 2) iff the variant is plain and k >= max(1, min_continues).          *)
(***************************************************************************)
EXTENDS Naturals, Sequences, FiniteSets, TLC, Json

CONSTANTS MaxGuards
Variants == {"plain", "withElse", "walrus"}
VARIABLES k, variant, minContinues, nested, done
vars == <<k, variant, minContinues, nested, done>>
Init == k = 0 /\ variant = "plain" /\ minContinues = 1 /\ nested = FALSE /\ done = FALSE
Choose(g, v, m, n) == /\ ~done /\ (v # "plain" => g = 1)
                      /\ k' = g /\ variant' = v /\ minContinues' = m /\ nested' = n /\ done' = TRUE
\* nested: the loop sits inside a function inside a class (position must not matter)
Next == \E g \in 0..MaxGuards, v \in Variants, m \in 1..MaxGuards, n \in BOOLEAN : Choose(g, v, m, n)
Spec == Init /\ [][Next]_vars
Emit == done => PrintT(<<"CASE", ToJson([k |-> k, variant |-> variant, minContinues |-> minContinues, nested |-> nested])>>)

Expected(g, v, m) == IF v = "plain" /\ g >= 1 /\ g >= m THEN 1 ELSE 0
LawsHold == done => /\ Expected(k, variant, minContinues + 1) <= Expected(k, variant, minContinues)
                    /\ Expected(0, variant, minContinues) = 0
=============================================================================
