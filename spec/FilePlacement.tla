---------------------------- MODULE FilePlacement ----------------------------
(***************************************************************************)
(* C18: file-placement verdicts follow the allow/deny rules exactly.        *)
(*                                                                           *)
(* Paths are [dir, name] over a small tree; patterns are abstract           *)
(* predicates with one fixed regex rendering each (the harness cross-checks *)
(* the table against Python's re):                                          *)
(*   py    .*\.py$      test  test_      md   \.md$      src  ^src/          *)
(* A rule set has directory rules (dir -> optional allow list, optional     *)
(* deny list), a global_deny list and global_patterns allow/deny lists.     *)
(* Layer A (the property): the most specific directory rule CONTAINING the  *)
(* file decides (deny first, then the allow list); files not covered by a   *)
(* directory rule are judged by global_deny and global_patterns.            *)
(* Layer B flags (pinned commit): PrefixNoSeparator - a rule for `src` also  *)
(* governs `src_old/...`; GlobalAlsoForCovered - global rules are applied   *)
(* to files a directory rule already judged.                                *)
(***************************************************************************)
EXTENDS Naturals, Sequences, FiniteSets, TLC, Json

CONSTANTS PrefixNoSeparator, GlobalAlsoForCovered,
          WithTestsRule      \* FALSE: no directory rule for tests/ (smaller exhaustive space)

Dirs  == {"", "src", "src/app", "src_old", "tests"}
Names == {"a.py", "test_a.py", "notes.md"}
Paths == [dir : Dirs, name : Names]
Pats  == {"py", "test", "md", "src"}
\* an optional list: [has |-> FALSE] = the key is absent; [has |-> TRUE, ps |-> {}] = an empty list
No == [has |-> FALSE, ps |-> {}]
Li(S) == [has |-> TRUE, ps |-> S]

Match(p, f) == CASE p = "py"   -> f.name \in {"a.py", "test_a.py"}
                 [] p = "test" -> f.name = "test_a.py"
                 [] p = "md"   -> f.name = "notes.md"
                 [] p = "src"  -> f.dir \in {"src", "src/app"}
AnyMatch(ps, f) == \E p \in ps : Match(p, f)

\* proper containment: d is the file's directory or an ancestor of it
\* the rule for "/" governs the files that lie directly in the project root, and only those
Contains(d, f) == \/ (d # "/" /\ f.dir = d)
                  \/ (d = "/" /\ f.dir = "")
                  \/ (d = "src" /\ f.dir = "src/app")
\* string-prefix test as coded: "src" is also a prefix of "src_old" and "src/app"
PrefixOf(d, f) == Contains(d, f) \/ (d = "src" /\ f.dir = "src_old")
DepthOf(d) == IF d = "src/app" THEN 2 ELSE IF d = "/" THEN 0 ELSE 1

RuleDirs == {"/", "src", "src/app", "tests"}
AllowOpts == {No, Li({}), Li({"py"}), Li({"md"}), Li({"py", "md"})}
DenyOpts  == {No, Li({"test"}), Li({"md"})}
RuleOpts  == {[present |-> FALSE, allow |-> No, deny |-> No]} \cup [present : {TRUE}, allow : AllowOpts, deny : DenyOpts]

VARIABLES rules, gdeny, gpat, done
vars == <<rules, gdeny, gpat, done>>
RootOpts == {[present |-> FALSE, allow |-> No, deny |-> No], [present |-> TRUE, allow |-> Li({"md"}), deny |-> No],
             [present |-> TRUE, allow |-> No, deny |-> Li({"test"})]}
Init == /\ rules \in {r \in [RuleDirs -> RuleOpts] : /\ (WithTestsRule \/ ~r["tests"].present)
                                                     /\ r["/"] \in RootOpts
                                                     /\ (r["/"].present => ~r["src/app"].present)}
        /\ gdeny \in {No, Li({"test"}), Li({"md"})}
        /\ gpat \in [allow : {No, Li({"py"})}, deny : {No, Li({"src"}), Li({"py"})}]
        /\ done = FALSE
Next == ~done /\ done' = TRUE /\ UNCHANGED <<rules, gdeny, gpat>>
Spec == Init /\ [][Next]_vars

Judge(r, f) == \/ (r.deny.has /\ AnyMatch(r.deny.ps, f))
               \/ (r.allow.has /\ ~AnyMatch(r.allow.ps, f))
GlobalVerdict(f) == \/ (gdeny.has /\ AnyMatch(gdeny.ps, f))
                    \/ (gpat.deny.has /\ AnyMatch(gpat.deny.ps, f))
                    \/ (gpat.allow.has /\ ~AnyMatch(gpat.allow.ps, f))

Covering(f, rel(_, _)) == {d \in RuleDirs : rules[d].present /\ rel(d, f)}
Best(S) == CHOOSE d \in S : \A e \in S : DepthOf(d) >= DepthOf(e)

ReportedA(f) == LET c == Covering(f, Contains) IN
                IF c # {} THEN Judge(rules[Best(c)], f) ELSE GlobalVerdict(f)
RelB(d, f) == IF PrefixNoSeparator THEN PrefixOf(d, f) ELSE Contains(d, f)
ReportedB(f) == LET c == Covering(f, RelB) IN
                IF c # {} THEN Judge(rules[Best(c)], f) \/ (GlobalAlsoForCovered /\ GlobalVerdict(f))
                ELSE GlobalVerdict(f)

BEqualsA == \A f \in Paths : ReportedB(f) = ReportedA(f)
NoRulesNoReports == ((\A d \in RuleDirs : ~rules[d].present) /\ ~gdeny.has /\ ~gpat.allow.has /\ ~gpat.deny.has)
                        => \A f \in Paths : ~ReportedA(f)
DenyBeatsAllow == \A f \in Paths : \A d \in RuleDirs :
    (rules[d].present /\ Covering(f, Contains) # {} /\ Best(Covering(f, Contains)) = d
        /\ rules[d].deny.has /\ AnyMatch(rules[d].deny.ps, f)) => ReportedA(f)

Emit == ~done => PrintT(<<"CASE", ToJson([rules |-> rules, gdeny |-> gdeny, gallow |-> gpat.allow, gpdeny |-> gpat.deny,
                                            reported |-> {f \in Paths : ReportedA(f)}])>>)
=============================================================================
