---------------------------- MODULE ParallelTrace ----------------------------
(***************************************************************************)
(* Batch trace validation for C07.  Every record of the trace file is one  *)
(* observed execution of lint_files_parallel: its H2 events (linearised    *)
(* per causality by the harness) and the projection of its result.  The    *)
(* events are replayed through the actions of Parallel.tla (layer B, drift *)
(* detector); the observed result is judged against SeqResult (layer A).   *)
(***************************************************************************)
EXTENDS Parallel, Json, IOUtils, TLCExt

Traces == JsonDeserialize(IOEnv.TRACE_FILE)

VARIABLES tid, l, drift
tvars == <<vars, tid, l, drift>>

Rec == Traces[tid]
ToSet(s) == {s[i] : i \in 1..Len(s)}

ModelStep(e) ==
    \/ e.ev = "decide"   /\ Decide /\ mode' = e.mode
    \/ e.ev = "submit"   /\ e.f = NFiles /\ Submit
    \/ e.ev = "take"     /\ e.w \in Workers /\ \E i \in 1..Len(todo) : todo[i] = e.f /\ TakeAt(e.w, i)
    \/ e.ev = "finish"   /\ e.w \in Workers /\ running[e.w] = e.f /\ Finish(e.w)
    \/ e.ev = "collect"  /\ Collect(e.f)
    \/ e.ev = "seqstep"  /\ todo # <<>> /\ Head(todo) = e.f /\ SeqStep
    \/ e.ev = "evidence" /\ EvidenceStep(e.f)
    \/ e.ev = "finalize" /\ (ParentFinalize \/ SeqFinalize)

Live == tid <= Len(Traces)

Consume == /\ Live /\ drift = "ok" /\ l <= Len(Rec.events)
           /\ ModelStep(Rec.events[l])
           /\ l' = l + 1 /\ UNCHANGED <<tid, drift>>

Stuck == /\ Live /\ drift = "ok" /\ l <= Len(Rec.events)
         /\ ~ENABLED ModelStep(Rec.events[l])
         /\ drift' = Rec.events[l].ev
         /\ UNCHANGED <<vars, tid, l>>

ObsResult == {<<"pf", f>> : f \in ToSet(Rec.pf)} \cup {<<"x", ToSet(g)>> : g \in ToSet(Rec.x)}

LayerA == IF Rec.extra > 0 THEN "Extra"
          ELSE IF Rec.fails > 0 THEN "WorkerFailure"
          ELSE IF {v \in ObsResult : v[1] = "pf"} # {v \in SeqResult : v[1] = "pf"} THEN "PerFileMissing"
          ELSE IF ObsResult # SeqResult THEN "CrossMissing"
          ELSE "ok"

LayerB == IF drift # "ok" THEN drift
          ELSE IF pc # "returned" THEN "Incomplete"
          ELSE IF result # ObsResult THEN "ResultDiffers"
          ELSE "ok"

EndTrace == /\ Live /\ (drift # "ok" \/ l > Len(Rec.events))
            /\ PrintT(<<"VERDICT", tid, LayerA, LayerB, l>>)
            /\ tid' = tid + 1 /\ l' = 1 /\ drift' = "ok"
            /\ pc' = "decide" /\ mode' = "none" /\ todo' = <<>>
            /\ running' = [w \in Workers |-> 0] /\ finished' = {}
            /\ evidence' = [p \in Workers \cup {Parent} |-> {}]
            /\ collected' = {} /\ result' = {} /\ sched' = <<>>

TraceInit == Init /\ tid = 1 /\ l = 1 /\ drift = "ok"
TraceNext == Consume \/ Stuck \/ EndTrace
TraceSpec == TraceInit /\ [][TraceNext]_tvars
TraceInv  == TRUE
=============================================================================
