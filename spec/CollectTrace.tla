---------------------------- MODULE CollectTrace ----------------------------
(* Batch judgement of C14 observation records with the operators of Collect.tla:
   rec.pats / rec.target / rec.recursive identify the case, rec.linted is the set of files the
   orchestrator decided to lint (H2 lint_file events), rec.reported the set of files with a reported
   violation, rec.planted the files that carry a planted violation. *)
EXTENDS Collect, IOUtils, TLCExt

Traces == JsonDeserialize(IOEnv.TRACE_FILE)
VARIABLE tid
Rec == Traces[tid]

SeqSet(s) == {s[i] : i \in 1..Len(s)}
P   == SeqSet(Rec.pats)
Lin == SeqSet(Rec.linted)
Rep == SeqSet(Rec.reported)
TargetSet == {Rec.target[i] : i \in 1..Len(Rec.target)}
ML  == MustLint(P, TargetSet, Rec.recursive)
MS  == MustSkip(P, TargetSet, Rec.recursive)
Planted(f) == f.ext \in {"py", "ts"}

LayerA == IF (Lin \cup Rep) \cap MS # {} THEN "Visited"
          ELSE IF ~(ML \subseteq Lin) THEN "Missed"
          ELSE IF ~({f \in ML : Planted(f)} \subseteq Rep) THEN "NotReported"
          ELSE "ok"
LayerB == IF Lin = LintedB(P, TargetSet, Rec.recursive) THEN "ok" ELSE "LintedSetDiffers"

TraceInit == tid = 1 /\ pats = {} /\ recursive = TRUE /\ target = {<<>>} /\ done = FALSE
TraceNext == /\ tid <= Len(Traces)
             /\ PrintT(<<"VERDICT", tid, LayerA, LayerB, 0>>)
             /\ tid' = tid + 1 /\ UNCHANGED vars
TraceSpec == TraceInit /\ [][TraceNext]_<<vars, tid>>
TraceInv == TRUE
=============================================================================
