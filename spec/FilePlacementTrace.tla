-------------------------- MODULE FilePlacementTrace --------------------------
(* Batch judgement of C18 records: the rule set is loaded into the variables of FilePlacement.tla and
   ReportedA is re-evaluated for every path; rec.reported = paths the tool reported; rec.exit = exit status. *)
EXTENDS FilePlacement, Integers, IOUtils, TLCExt

Traces == JsonDeserialize(IOEnv.TRACE_FILE)
VARIABLE tid
Rec == Traces[tid]
SeqSet(s) == {s[i] : i \in 1..Len(s)}

Opt(o) == [has |-> o.has, ps |-> SeqSet(o.ps)]
RuleOf(r) == [present |-> r.present, allow |-> Opt(r.allow), deny |-> Opt(r.deny)]
Obs == {[dir |-> p.dir, name |-> p.name] : p \in SeqSet(Rec.reported)}
Exp == {f \in Paths : ReportedA(f)}
LayerA == IF Rec.invalid THEN (IF Rec.exit = 2 THEN "ok" ELSE "InvalidPatternAccepted")
          ELSE IF Rec.exit \notin {0, 1} THEN "Exit"
          ELSE IF Obs = Exp THEN "ok"
          ELSE IF Obs \ Exp # {} THEN "Spurious" ELSE "Missed"

Load(i) == /\ rules' = [d \in RuleDirs |-> RuleOf(Traces[i].rules[d])]
           /\ gdeny' = Opt(Traces[i].gdeny)
           /\ gpat' = [allow |-> Opt(Traces[i].gallow), deny |-> Opt(Traces[i].gpdeny)]
           /\ done' = TRUE
TraceInit == /\ tid = 1 /\ done = TRUE
             /\ rules = [d \in RuleDirs |-> RuleOf(Traces[1].rules[d])]
             /\ gdeny = Opt(Traces[1].gdeny)
             /\ gpat = [allow |-> Opt(Traces[1].gallow), deny |-> Opt(Traces[1].gpdeny)]
TraceNext == /\ tid <= Len(Traces)
             /\ PrintT(<<"VERDICT", tid, LayerA, "ok", 0>>)
             /\ tid' = tid + 1
             /\ IF tid < Len(Traces) THEN Load(tid + 1) ELSE UNCHANGED vars
TraceSpec == TraceInit /\ [][TraceNext]_<<vars, tid>>
TraceInv == TRUE
=============================================================================
