---------------------------- MODULE DryFiltersTrace ----------------------------
(* records: [kind, own, others, obs (sequence of 2 booleans: the shared block is reported in file 1 / file 2), other] *)
EXTENDS DryFilters, Sequences, IOUtils, TLCExt
Traces == JsonDeserialize(IOEnv.TRACE_FILE)
VARIABLE tid
Rec == Traces[tid]
Exp == Reported(Rec.kind, Rec.own)
LayerA == IF Rec.other > 0 THEN "OtherFinding"
          ELSE IF Unspecified(Rec.kind, Rec.own) THEN (IF Rec.obs[1] = Rec.obs[2] THEN "ok" ELSE "OneSided")
          ELSE IF Rec.obs[1] = Exp /\ Rec.obs[2] = Exp THEN "ok"
          ELSE IF Rec.obs[1] # Rec.obs[2] THEN "OneSided"
          ELSE IF Exp THEN "Missed" ELSE "NotFiltered"
TraceInit == tid = 1 /\ kind = "plain" /\ own = "on" /\ others = "on" /\ done = FALSE
TraceNext == /\ tid <= Len(Traces) /\ PrintT(<<"VERDICT", tid, LayerA, "ok", 0>>) /\ tid' = tid + 1 /\ UNCHANGED vars
TraceSpec == TraceInit /\ [][TraceNext]_<<vars, tid>>
TraceInv == TRUE
=============================================================================
