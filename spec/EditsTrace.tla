------------------------------ MODULE EditsTrace ------------------------------
(* Batch judgement of C13 records: rec.base / rec.after findings, rec.edits with concrete `at`. *)
EXTENDS Edits, IOUtils, TLCExt

Traces == JsonDeserialize(IOEnv.TRACE_FILE)
VARIABLE tid
Rec == Traces[tid]
SeqSet(s) == {s[i] : i \in 1..Len(s)}

Exp   == Expected(SeqSet(Rec.base), Rec.edits)
After == SeqSet(Rec.after)
Proj(S) == {[file |-> v.file, linter |-> v.linter, sub |-> v.sub] : v \in S}
LayerA == IF After = Exp THEN "ok"
          ELSE IF Proj(After) = Proj(Exp) /\ Cardinality(After) = Cardinality(Exp) THEN "WrongShift"
          ELSE IF \E v \in Exp : [file |-> v.file, linter |-> v.linter, sub |-> v.sub] \notin Proj(After) THEN "Lost"
          ELSE IF \E v \in After : [file |-> v.file, linter |-> v.linter, sub |-> v.sub] \notin Proj(Exp) THEN "Gained"
          ELSE "CountChanged"

TraceInit == tid = 1 /\ edits = <<>> /\ done = FALSE
TraceNext == /\ tid <= Len(Traces)
             /\ PrintT(<<"VERDICT", tid, LayerA, "ok", 0>>)
             /\ tid' = tid + 1 /\ UNCHANGED vars
TraceSpec == TraceInit /\ [][TraceNext]_<<vars, tid>>
TraceInv == TRUE
=============================================================================
