---------------------------------- MODULE Perf ----------------------------------
(***************************************************************************)
(* Beyond the listed properties (X10): the performance linter's two rules   *)
(* (docs/performance-linter.md, "How It Works").                            *)
(*                                                                           *)
(* string-concat-loop: `acc += <addend>` where acc was initialised as a      *)
(*   string ("" / f-string), a list ([]) or a number (0), inside a for /     *)
(*   while / async for loop, a loop nested in a loop, or outside any loop.   *)
(*   Reported (once per loop) iff the statement is inside a loop and acc is  *)
(*   a string - or, in TypeScript, the addend is a string / template literal *)
(*   ("+= assignment with string operand": in JavaScript that concatenates   *)
(*   whatever acc held).  Python lists and numbers are never reported.       *)
(* regex-in-loop: a call re.<fn>(pattern, text) with fn one of the module    *)
(*   functions that compile their pattern, or compiled.<fn>(text) on a       *)
(*   pre-compiled pattern, inside or outside a loop.  Reported iff it is the *)
(*   module-level function and inside a loop.                                *)
(***************************************************************************)
EXTENDS Naturals, Sequences, FiniteSets, TLC, Json

Loops == {"none", "for", "while", "asyncFor", "nested"}
Inits == {"emptyString", "fString", "list", "number"}
Addends == {"strCall", "fString", "literal", "name"}
ReFns == {"match", "search", "sub", "findall", "split", "fullmatch", "finditer"}
Callees == {"module", "compiled"}
Langs == {"python", "typescript"}

VARIABLES rule, lang, loop, init, addend, fn, callee, done
vars == <<rule, lang, loop, init, addend, fn, callee, done>>
Init == rule = "concat" /\ lang = "python" /\ loop = "none" /\ init = "emptyString" /\ addend = "strCall" /\ fn = "match"
        /\ callee = "module" /\ done = FALSE
ChooseConcat(l, lp, i, a) == /\ ~done /\ (l = "typescript" => lp # "asyncFor" /\ i # "fString" /\ a # "strCall")
                             /\ rule' = "concat" /\ lang' = l /\ loop' = lp /\ init' = i /\ addend' = a
                             /\ UNCHANGED <<fn, callee>> /\ done' = TRUE
ChooseRegex(lp, f, c) == /\ ~done /\ rule' = "regex" /\ lang' = "python" /\ loop' = lp /\ fn' = f /\ callee' = c
                         /\ UNCHANGED <<init, addend>> /\ done' = TRUE
Next == (\E l \in Langs, lp \in Loops, i \in Inits, a \in Addends : ChooseConcat(l, lp, i, a))
        \/ (\E lp \in Loops, f \in ReFns, c \in Callees : ChooseRegex(lp, f, c))
Spec == Init /\ [][Next]_vars
Emit == done => PrintT(<<"CASE", ToJson([rule |-> rule, lang |-> lang, loop |-> loop, init |-> init, addend |-> addend,
                                          fn |-> fn, callee |-> callee])>>)

IsString(i) == i \in {"emptyString", "fString"}
StringOperand(l, a) == l = "typescript" /\ a \in {"fString", "literal"}
ExpectedConcat(l, lp, i, a) == IF lp # "none" /\ (IsString(i) \/ StringOperand(l, a)) THEN 1 ELSE 0
ExpectedRegex(lp, c) == IF lp # "none" /\ c = "module" THEN 1 ELSE 0
LawsHold == done => /\ \A l \in Langs, i \in Inits, a \in Addends : ExpectedConcat(l, "none", i, a) = 0
                    /\ \A lp \in Loops, a \in Addends : ExpectedConcat("python", lp, "list", a) = 0 /\ ExpectedConcat("python", lp, "number", a) = 0
                    /\ \A lp \in Loops : ExpectedRegex(lp, "compiled") = 0
=============================================================================
