----------------------------- MODULE IgnoreTrace -----------------------------
(* Batch judgement of C04 records: rec.base / rec.after are the violations of the directive-free and
   of the edited project (as [file, linter, sub, line, n]), rec.d is the directive.  Expected(base, d)
   of Ignore.tla decides. *)
EXTENDS Ignore, IOUtils, TLCExt

Traces == JsonDeserialize(IOEnv.TRACE_FILE)
VARIABLE tid
Rec == Traces[tid]
SeqSet(s) == {s[i] : i \in 1..Len(s)}

\* rec.stacked: rec.d1 was written first, rec.d on top of it (rec.base is the directive-free project either way)
Exp   == IF Rec.stacked THEN Expected2(SeqSet(Rec.base), Rec.d1, Rec.d) ELSE Expected(SeqSet(Rec.base), Rec.d)
After == SeqSet(Rec.after)
Named(v) == \/ Names(Rec.d, [linter |-> v.linter, sub |-> v.sub])
            \/ Rec.stacked /\ Names(Rec.d1, [linter |-> v.linter, sub |-> v.sub])
LayerA == IF After = Exp THEN "ok"
          ELSE IF \E v \in After \ Exp : Named(v) THEN "NotSilenced"
          ELSE IF \E v \in Exp \ After : Named(v) THEN "OverSilenced"
          ELSE "OtherChanged"

TraceInit == tid = 1 /\ form = "sameLine" /\ spelling = "fullId" /\ placement = "on" /\ stack = "none" /\ lead = "none" /\ done = FALSE
TraceNext == /\ tid <= Len(Traces)
             /\ PrintT(<<"VERDICT", tid, LayerA, "ok", 0>>)
             /\ tid' = tid + 1 /\ UNCHANGED vars
TraceSpec == TraceInit /\ [][TraceNext]_<<vars, tid>>
TraceInv == TRUE
=============================================================================
