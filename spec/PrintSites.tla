------------------------------- MODULE PrintSites -------------------------------
(***************************************************************************)
(* Beyond the listed properties (X06): where print() / console.* calls are  *)
(* reported (docs/print-statements-linter.md, "How It Works" and            *)
(* "Configuration").                                                         *)
(*                                                                           *)
(* Python site: where the print() call sits relative to an                  *)
(* `if __name__ == "__main__":` block                                        *)
(*   module | function | mainBlock | mainNested (inside an if / for / with  *)
(*   / try within the main block) | afterMain (module level, after the      *)
(*   block) ; allow_in_scripts: default (= true) | true | false             *)
(* TypeScript site: console method x console_methods setting x file name.   *)
(*                                                                           *)
(* Layer A:  a Python print() is reported unless allow_in_scripts holds and *)
(* the call is inside the main block; a console.<m>() is reported iff m is  *)
(* in console_methods and the file is not a test file.                      *)
(***************************************************************************)
EXTENDS Naturals, Sequences, FiniteSets, TLC, Json

PySites == {"module", "function", "mainBlock", "mainNested", "afterMain"}
Allow == {"default", "true", "false"}
Methods == {"log", "warn", "error", "debug", "info", "trace", "table"}
DefaultMethods == {"log", "warn", "error", "debug", "info"}
MethodCfgs == {"default", "logOnly", "logTrace"}
FileKinds == {"plain", "dotTest", "dotSpec"}

VARIABLES lang, site, allow, method, mcfg, fkind, done
vars == <<lang, site, allow, method, mcfg, fkind, done>>
Init == lang = "python" /\ site = "module" /\ allow = "default" /\ method = "log" /\ mcfg = "default" /\ fkind = "plain" /\ done = FALSE
ChoosePy(s, a) == ~done /\ lang' = "python" /\ site' = s /\ allow' = a /\ UNCHANGED <<method, mcfg, fkind>> /\ done' = TRUE
ChooseTs(m, c, f) == ~done /\ lang' = "typescript" /\ method' = m /\ mcfg' = c /\ fkind' = f /\ UNCHANGED <<site, allow>> /\ done' = TRUE
Next == (\E s \in PySites, a \in Allow : ChoosePy(s, a)) \/ (\E m \in Methods, c \in MethodCfgs, f \in FileKinds : ChooseTs(m, c, f))
Spec == Init /\ [][Next]_vars
Emit == done => PrintT(<<"CASE", ToJson([lang |-> lang, site |-> site, allow |-> allow, method |-> method, mcfg |-> mcfg, fkind |-> fkind])>>)

InMain(s) == s \in {"mainBlock", "mainNested"}
ExpectedPy(s, a) == IF a # "false" /\ InMain(s) THEN 0 ELSE 1
Configured(c) == CASE c = "default" -> DefaultMethods [] c = "logOnly" -> {"log"} [] c = "logTrace" -> {"log", "trace"}
ExpectedTs(m, c, f) == IF m \in Configured(c) /\ f = "plain" THEN 1 ELSE 0

LawsHold == done => /\ \A s \in PySites : ExpectedPy(s, "false") = 1
                    /\ \A s \in PySites : ~InMain(s) => ExpectedPy(s, "true") = 1
                    /\ \A m \in Methods, c \in MethodCfgs : ExpectedTs(m, c, "dotTest") = 0
=============================================================================
