------------------------------ MODULE ConstantsTrace ------------------------------
(* records: [decl (sequence), detect, minOcc, obs (sequence of per-file finding counts at the declaration line), other] *)
EXTENDS Constants, IOUtils, TLCExt
Traces == JsonDeserialize(IOEnv.TRACE_FILE)
VARIABLE tid
Rec == Traces[tid]
D == [f \in 1..NFiles |-> Rec.decl[f]]
Bad == {f \in 1..NFiles : Rec.obs[f] # Expected(D, Rec.detect, Rec.minOcc, f)}
LayerA == IF Rec.other > 0 THEN "OtherFinding"
          ELSE IF Bad = {} THEN "ok"
          ELSE LET f == CHOOSE x \in Bad : \A y \in Bad : x <= y IN
               IF Rec.obs[f] < Expected(D, Rec.detect, Rec.minOcc, f) THEN "Missed"
               ELSE IF Expected(D, Rec.detect, Rec.minOcc, f) = 0 THEN "Spurious" ELSE "Duplicate"
TraceInit == tid = 1 /\ Init
TraceNext == /\ tid <= Len(Traces) /\ PrintT(<<"VERDICT", tid, LayerA, "ok", 0>>) /\ tid' = tid + 1 /\ UNCHANGED vars
TraceSpec == TraceInit /\ [][TraceNext]_<<vars, tid>>
TraceInv == TRUE
=============================================================================
