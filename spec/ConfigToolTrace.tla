--------------------------- MODULE ConfigToolTrace ---------------------------
(* Batch validation of C20 observations.
   kind "hist": a history of config set/get/reset commands replayed through the actions of
   ConfigTool.tla; every step carries the observed exit status, whether the file bytes changed, and for
   get the value id printed (-1 = none of the known spellings).
   kind "init": one init-config run on an existing file: booleans measured by the harness. *)
EXTENDS ConfigTool, Integers, IOUtils, TLCExt

Traces == JsonDeserialize(IOEnv.TRACE_FILE)
VARIABLES tid, l, va, at
tvars == <<vars, tid, l, va, at>>
Rec == Traces[tid]
Live == tid <= Len(Traces)

StepOk(o, s) ==
    CASE o[1] = "set" -> IF Valid(o[2], o[3]) THEN s.exit = 0 ELSE (s.exit # 0 /\ ~s.changed)
      [] o[1] = "get" -> s.exit = 0 /\ s.got = file[o[2]]
      [] o[1] = "reset" -> s.exit = 0
Clause(o, s) ==
    CASE o[1] = "set" -> IF Valid(o[2], o[3]) THEN "SetRejected"
                         ELSE IF s.exit = 0 THEN "InvalidAccepted" ELSE "AtomicReject"
      [] o[1] = "get" -> IF s.exit # 0 THEN "GetFailed" ELSE "GetAfterSet"
      [] o[1] = "reset" -> "ResetFailed"
ModelStep(o) == \/ o[1] = "set" /\ Set(o[2], o[3])
                \/ o[1] = "get" /\ Get(o[2])
                \/ o[1] = "reset" /\ Reset

Consume == /\ Live /\ Rec.kind = "hist" /\ l <= Len(Rec.hist)
           /\ va' = IF va = "ok" /\ ~StepOk(Rec.hist[l], Rec.steps[l]) THEN Clause(Rec.hist[l], Rec.steps[l]) ELSE va
           /\ at' = IF va = "ok" /\ va' # "ok" THEN l ELSE at
           /\ ModelStep(Rec.hist[l]) /\ l' = l + 1 /\ tid' = tid

InitVerdict == IF ~Rec.valid_yaml THEN "ValidYaml"
               ELSE IF ~Rec.preserved THEN "Preserve"
               ELSE IF ~Rec.effective THEN "Effect"
               ELSE IF ~Rec.idempotent THEN "Idempotent"
               ELSE IF ~Rec.accepted THEN "PresetAccepted"
               ELSE "ok"

EndTrace == /\ Live /\ (IF Rec.kind = "init" THEN TRUE ELSE l > Len(Rec.hist))   \* no disjunction: TLC would evaluate the body once per true disjunct
            /\ PrintT(<<"VERDICT", tid, IF Rec.kind = "init" THEN InitVerdict ELSE va, "ok", at>>)
            /\ tid' = tid + 1 /\ l' = 1 /\ va' = "ok" /\ at' = 0
            /\ file' = [k \in Keys |-> 0] /\ hist' = <<>> /\ lastGet' = 0 /\ lastExit' = 0

TraceInit == Init /\ tid = 1 /\ l = 1 /\ va = "ok" /\ at = 0
TraceNext == Consume \/ EndTrace
TraceSpec == TraceInit /\ [][TraceNext]_tvars
TraceInv == TRUE
=============================================================================
