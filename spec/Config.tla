------------------------------- MODULE Config -------------------------------
(***************************************************************************)
(* C05: where a linter's effective option value comes from.                 *)
(*                                                                           *)
(* Carriers of one option of one linter section:                            *)
(*   files   subset of {"yaml","json","pyproject"} present in the project   *)
(*           (.thailint.yaml, .thailint.json, pyproject.toml [tool.thailint])*)
(*   dash    "none" | "yaml" | "json": a file passed with --config           *)
(*   cli     TRUE iff the command-line threshold option is given             *)
(*   cliDefault  (with cli) the value given on the command line happens to    *)
(*           be the built-in default of the option: it is still GIVEN, so     *)
(*           it wins, and the effective value is the default (id 0)           *)
(*   lang    TRUE iff every config file also carries a per-language override *)
(*           of the option for the probe's language                          *)
(*   langOther  (instead of lang) every config file has a sub-section for   *)
(*           the probe's language that sets ANOTHER key only: the option    *)
(*           still comes from the section-wide value                        *)
(*   spelling of the section name in every file: "hyphen" | "underscore"     *)
(*   companion  "none" | "before" | "after": a file of ANOTHER language is   *)
(*           linted in the same run before / after the probe, and (with      *)
(*           lang) every config file carries a per-language override for     *)
(*           that language too, holding id + 20                              *)
(* Each carrier holds a distinct value id so that the winner is observable:  *)
(*   yaml 1, json 2, pyproject 3, --config 4, command line 5, default 0;     *)
(*   the per-language override of a file holds id + 10.                      *)
(*                                                                           *)
(* Layer B mirrors the code: Discover (Orchestrator.__init__: yaml, else     *)
(* json, else pyproject; --config replaces), NormaliseTopLevelKeys           *)
(* (config_parser), Lookup (load_linter_config / per-rule .get), language     *)
(* override (Config.from_dict), ApplyCliOverride (src/cli/linters).          *)
(***************************************************************************)
EXTENDS Naturals, FiniteSets, TLC, Json

CONSTANTS LookupKind,        \* "both" | "underscoreOnly" | "hyphenOnly": which spellings the rule looks up
          SectionHasHyphen,  \* TRUE iff the documented section name contains a hyphen
          CliReachesLang,    \* TRUE iff the command-line option also overrides language overrides
          ConfigKeyedByLanguage  \* TRUE: the parsed section is looked up per file language (as coded);
                                 \* FALSE: one parsed object per section is reused for the whole run

Files == {"yaml", "json", "pyproject"}
Id(c) == CASE c = "yaml" -> 1 [] c = "json" -> 2 [] c = "pyproject" -> 3

VARIABLES files, dash, cli, cliDefault, lang, langOther, spelling, companion, done
vars == <<files, dash, cli, cliDefault, lang, langOther, spelling, companion, done>>

Init == files = {} /\ dash = "none" /\ cli = FALSE /\ cliDefault = FALSE /\ lang = FALSE /\ langOther = FALSE /\ spelling = "hyphen" /\ companion = "none" /\ done = FALSE
AddFile(c)   == ~done /\ c \notin files /\ files' = files \cup {c} /\ UNCHANGED <<dash, cli, cliDefault, lang, langOther, spelling, companion, done>>
SetDash(d)   == ~done /\ dash = "none" /\ dash' = d /\ UNCHANGED <<files, cli, cliDefault, lang, langOther, spelling, companion, done>>
SetCli       == ~done /\ ~cli /\ cli' = TRUE /\ cliDefault' \in BOOLEAN
                /\ UNCHANGED <<files, dash, lang, langOther, spelling, companion, done>>
SetLangOther == ~done /\ ~lang /\ ~langOther /\ langOther' = TRUE
                /\ UNCHANGED <<files, dash, cli, cliDefault, lang, spelling, companion, done>>
SetLang      == ~done /\ ~lang /\ ~langOther /\ lang' = TRUE /\ UNCHANGED <<files, dash, cli, cliDefault, langOther, spelling, companion, done>>
Underscore   == ~done /\ spelling = "hyphen" /\ SectionHasHyphen /\ spelling' = "underscore"
                /\ UNCHANGED <<files, dash, cli, cliDefault, lang, langOther, companion, done>>
SetCompanion(k) == ~done /\ lang /\ companion = "none" /\ companion' = k
                   /\ UNCHANGED <<files, dash, cli, cliDefault, lang, langOther, spelling, done>>
Finish       == ~done /\ done' = TRUE /\ UNCHANGED <<files, dash, cli, cliDefault, lang, langOther, spelling, companion>>
Next == (\E c \in Files : AddFile(c)) \/ (\E d \in {"yaml", "json"} : SetDash(d)) \/ SetCli \/ SetLang \/ SetLangOther
        \/ Underscore \/ (\E k \in {"before", "after"} : SetCompanion(k)) \/ Finish
Spec == Init /\ [][Next]_vars

\* ---- layer A ----------------------------------------------------------------------------------
\* the file whose settings count: --config, else yaml, else json, else pyproject
Winner == IF dash # "none" THEN 4
          ELSE IF "yaml" \in files THEN 1 ELSE IF "json" \in files THEN 2
          ELSE IF "pyproject" \in files THEN 3 ELSE 0
\* the top-level `ignore` list is taken from the same file (no --config: yaml, else json, else pyproject)
IgnoreWinner == IF "yaml" \in files THEN 1 ELSE IF "json" \in files THEN 2 ELSE IF "pyproject" \in files THEN 3 ELSE 0
IgnoreFollowsWinner == (done /\ dash = "none") => IgnoreWinner = Winner
CliId == IF cliDefault THEN 0 ELSE 5
EffectiveA == IF cli THEN CliId
              ELSE IF Winner = 0 THEN 0
              ELSE IF lang THEN Winner + 10 ELSE Winner

\* ---- layer B ----------------------------------------------------------------------------------
Discovered == Winner                                   \* same file-level order as coded
\* after NormaliseTopLevelKeys every section key is underscored, whatever the user wrote
KeyAfterLoad == IF SectionHasHyphen THEN "underscore" ELSE "plain"
Found == \/ ~SectionHasHyphen
         \/ LookupKind \in {"both", "underscoreOnly"}  \* hyphenOnly never finds the normalised key
\* the language whose override the rule reads for the probe: its own, or - when one parsed object per section is kept
\* for the run - that of the first file linted
LangOffsetB == IF ~lang THEN 0 ELSE IF ~ConfigKeyedByLanguage /\ companion = "before" THEN 20 ELSE 10
FileValueB == IF Discovered = 0 \/ ~Found THEN 0
              ELSE Discovered + LangOffsetB
EffectiveB == IF cli THEN (IF lang /\ ~CliReachesLang /\ Discovered # 0 /\ Found THEN Discovered + LangOffsetB ELSE CliId)
              ELSE FileValueB

BEqualsA == done => EffectiveB = EffectiveA
SpellingIrrelevant == done => TRUE   \* EffectiveA has no `spelling` argument: by construction
CliWins == (done /\ cli) => EffectiveA = CliId
\* what else is linted in the same run never matters (EffectiveA has no `companion` argument: by construction)
DashReplacesDiscovery == (done /\ dash # "none" /\ ~cli) => EffectiveA \in {4, 14}

SetToSeq3 == <<"yaml" \in files, "json" \in files, "pyproject" \in files>>
Emit == done => PrintT(<<"CASE", ToJson([yaml |-> "yaml" \in files, json |-> "json" \in files,
                                          pyproject |-> "pyproject" \in files, dash |-> dash, cli |-> cli, cliDefault |-> cliDefault,
                                          lang |-> lang, langOther |-> langOther, spelling |-> spelling, companion |-> companion,
                                          effective |-> EffectiveA])>>)
=============================================================================
