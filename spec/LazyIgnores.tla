------------------------------ MODULE LazyIgnores ------------------------------
(***************************************************************************)
(* Beyond the listed properties (X03): lazy-ignores matches suppression     *)
(* directives in the code against the Suppressions section of the file      *)
(* header (docs/lazy-ignores-linter.md, "How It Works").                     *)
(*                                                                           *)
(* A file has a header that declares a set of rule ids, and a sequence of   *)
(* directives of one tool kind (noqa, type: ignore, pylint: disable, nosec, *)
(* pyright: ignore, thailint: ignore), each naming a non-empty set of rule  *)
(* ids.  Rule ids are abstract: 1, 2, 3 may be named by directives, 1, 2, 4 *)
(* may be declared (3 is never declared, 4 is never used).                  *)
(*                                                                           *)
(* Layer A.                                                                  *)
(*   Unjustified(d)  a directive is reported iff it names a rule id that    *)
(*                   the header does not declare; once, at its own line.    *)
(*   Orphaned(h)     a declared id is reported iff no directive names it;   *)
(*                   once per id.                                            *)
(*   nothing else is reported.                                               *)
(***************************************************************************)
EXTENDS Naturals, Sequences, FiniteSets, TLC, Json

CONSTANTS MaxDirectives
Kinds == {"noqa", "typeIgnore", "pylint", "nosec", "pyright", "thailint"}
Multi == {"noqa", "typeIgnore", "pylint", "pyright"}     \* kinds whose documented syntax lists several ids
Usable == {1, 2, 3}
Declarable == {1, 2, 4}
RuleSets(k) == IF k \in Multi THEN (SUBSET Usable) \ {{}} ELSE {{r} : r \in Usable}

VARIABLES kind, header, dirs, done
vars == <<kind, header, dirs, done>>
Init == kind = "noqa" /\ header = {} /\ dirs = <<>> /\ done = FALSE
Choose(k, h, d) == ~done /\ kind' = k /\ header' = h /\ dirs' = d /\ done' = TRUE
Next == \E k \in Kinds, h \in SUBSET Declarable, n \in 0..MaxDirectives :
            \E d \in [1..n -> RuleSets(k)] : Choose(k, h, d)
Spec == Init /\ [][Next]_vars
SetToSeq(S) == LET RECURSIVE F(_) F(T) == IF T = {} THEN <<>> ELSE LET x == CHOOSE y \in T : \A z \in T : y <= z IN <<x>> \o F(T \ {x}) IN F(S)
Emit == done => PrintT(<<"CASE", ToJson([kind |-> kind, header |-> SetToSeq(header),
                                          dirs |-> [i \in 1..Len(dirs) |-> SetToSeq(dirs[i])]])>>)

\* ---- layer A ----------------------------------------------------------------------------------------
Unjustified(h, d) == d \ h # {}
Used(ds) == UNION {ds[i] : i \in 1..Len(ds)}
Orphaned(h, ds) == h \ Used(ds)
ExpectedUnjustified(h, ds) == {i \in 1..Len(ds) : Unjustified(h, ds[i])}

\* laws: declaring one more id never makes a directive unjustified; adding a directive never creates an orphan;
\* a file whose header declares exactly the used ids is clean
LawsHold ==
    done =>
        /\ \A r \in Declarable : ExpectedUnjustified(header \cup {r}, dirs) \subseteq ExpectedUnjustified(header, dirs)
        /\ \A S \in RuleSets(kind) : Orphaned(header, Append(dirs, S)) \subseteq Orphaned(header, dirs)
        /\ ExpectedUnjustified(Used(dirs), dirs) = {} /\ Orphaned(Used(dirs), dirs) = {}
=============================================================================
