------------------------------ MODULE FileHeader ------------------------------
(***************************************************************************)
(* Beyond the listed properties (X12): the file-header linter               *)
(* (docs/file-header-linter.md, src/linters/file_header/).                   *)
(*                                                                           *)
(* A file has a header (module docstring for Python, leading JSDoc block    *)
(* for TypeScript/JavaScript) made of `Field: value` lines, or none.        *)
(*   head      "present" | "none" (code only) | "afterCode" (the block is   *)
(*             not the first thing in the file) | "lineComments" (the       *)
(*             fields are written as line comments: not a header)            *)
(*   st[f]     "absent" | "empty" | "filled" | "twoLines" for the five       *)
(*             fields Purpose, Scope, Overview, Dependencies, Exports        *)
(*   phr       up to two temporal phrases written into field values:        *)
(*             the first into the first valued field, the second into the   *)
(*             same line (where = "same") or into the last valued field      *)
(*   req       which fields the configuration requires                      *)
(*   atemporal enforce_atemporal                                             *)
(*                                                                           *)
(* Requirement (layer A)                                                     *)
(*   no header: exactly one finding "Missing mandatory field: docstring" at  *)
(*     line 1 (whatever is required), nothing else;                          *)
(*   header: one "Missing mandatory field: F" at line 1 for every required   *)
(*     field that is absent or has no text, and - when atemporal language    *)
(*     is enforced - one "Temporal language detected" finding per temporal   *)
(*     phrase, at the file line on which the phrase stands; words that only  *)
(*     contain a temporal word (snow, known, renewal) are not reported.      *)
(***************************************************************************)
EXTENDS Naturals, Sequences, FiniteSets, TLC, Json

Fields  == <<"Purpose", "Scope", "Overview", "Dependencies", "Exports">>
FieldSet == {Fields[i] : i \in 1..Len(Fields)}
States  == {"absent", "empty", "filled", "twoLines"}
Heads   == {"present", "none", "afterCode", "lineComments"}
\* phrase ids; nearMiss stands for "snow known renewal plans" (no temporal word as a word)
Phrases == {"isoDate", "monthYear", "currently", "now", "replaces", "formerly", "willBe", "planned", "nearMiss"}
Temporal(p) == p # "nearMiss"
Reqs    == {"default", "three", "one", "perLanguage"}
Langs   == {"python", "typescript"}

\* fields required by configuration `r` for language `l`
\* (default lists of the two languages, restricted to the five modelled fields, are the same: all five)
Required(r, l) == CASE r = "default" -> FieldSet
                    [] r = "three"   -> {"Purpose", "Scope", "Overview"}
                    [] r = "one"     -> {"Purpose"}
                    [] r = "perLanguage" -> IF l = "python" THEN {"Purpose"} ELSE {"Purpose", "Scope"}

VARIABLES lang, head, st, phr, where, req, atemporal, done
vars == <<lang, head, st, phr, where, req, atemporal, done>>

Valued(s) == {i \in 1..Len(Fields) : s[Fields[i]] \in {"filled", "twoLines"}}
Init == /\ lang \in Langs /\ head \in Heads
        /\ st \in [FieldSet -> States]
        /\ phr \in {<<>>} \cup {<<p>> : p \in Phrases} \cup {<<p, q>> : p \in {"isoDate", "currently", "nearMiss"}, q \in {"now", "willBe", "replaces"}}
        /\ where \in {"same", "last"}
        /\ req \in Reqs /\ atemporal \in BOOLEAN /\ done = FALSE
        \* shapes that add nothing: phrases need a valued field; header-less files are tried with one field layout
        /\ (phr # <<>> => Valued(st) # {})
        /\ (Len(phr) < 2 => where = "same")
        /\ (head # "present" => st = [f \in FieldSet |-> "filled"] /\ Len(phr) <= 1)
        /\ (Len(phr) = 2 => Cardinality({f \in FieldSet : st[f] = "absent"}) + Cardinality({f \in FieldSet : st[f] = "empty"}) <= 1)
Next == ~done /\ done' = TRUE /\ UNCHANGED <<lang, head, st, phr, where, req, atemporal>>
Spec == Init /\ [][Next]_vars

\* ---- layer A ----------------------------------------------------------------------------------
HasHeader == head = "present"
MissingFields == IF HasHeader THEN {f \in Required(req, lang) : st[f] \in {"absent", "empty"}} ELSE {}
FirstValued == CHOOSE i \in Valued(st) : \A j \in Valued(st) : i <= j
LastValued  == CHOOSE i \in Valued(st) : \A j \in Valued(st) : i >= j
\* the field (index) whose value line carries phrase number k
Carrier(k) == IF k = 1 \/ where = "same" THEN FirstValued ELSE LastValued
\* expected temporal findings: one per (temporal phrase), located at its carrier field
TemporalAt == IF HasHeader /\ atemporal THEN {<<k, Carrier(k)>> : k \in {k \in 1..Len(phr) : Temporal(phr[k])}} ELSE {}
ExpectedCount == IF ~HasHeader THEN 1 ELSE Cardinality(MissingFields) + Cardinality(TemporalAt)

\* ---- laws --------------------------------------------------------------------------------------
\* requiring fewer fields never adds a finding; switching atemporal checking off removes exactly the temporal ones
FewerRequiredFewerFindings == Required("one", lang) \subseteq Required(req, lang)
NearMissNeverReported == \A k \in 1..Len(phr) : ~Temporal(phr[k]) => \A x \in TemporalAt : x[1] # k
Emit == ~done => PrintT(<<"CASE", ToJson([lang |-> lang, head |-> head, st |-> st, phr |-> phr, where |-> where,
                                           req |-> req, atemporal |-> atemporal,
                                           missing |-> MissingFields, temporal |-> TemporalAt,
                                           nohdr |-> ~HasHeader])>>)
=============================================================================
