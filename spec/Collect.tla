------------------------------- MODULE Collect -------------------------------
(***************************************************************************)
(* C14: which files a run lints.                                            *)
(*                                                                           *)
(* A file is [dirs |-> sequence of directory names below the project root,  *)
(* stem, ext].  Names are atoms (TLC cannot take strings apart); the only   *)
(* string relation the code relies on - "x starts with y" - is tabulated in *)
(* StartsWith.                                                              *)
(*                                                                           *)
(* Layer A (requirement, from the property and docs/configuration.md):      *)
(*   Linted(f)  <=>  f is under the target (a direct child if              *)
(*                   non-recursive), no directory component between the     *)
(*                   project root and f is always-excluded, the extension   *)
(*                   is not a compiled artefact, and no ignore pattern      *)
(*                   matches f's project-relative path.                     *)
(* Layer B (as coded in src/orchestrator/core.py, linter_config/ignore.py,  *)
(* pattern_utils.py): os.walk with pruning below the target                 *)
(* (WalkCollect), then _is_hardcoded_excluded on ALL parts of the path      *)
(* as spelled, then IgnoreDirectiveParser.is_ignored with fnmatch           *)
(* semantics, including the `fnmatch(path, dir + "*")` fallback of          *)
(* directory patterns (named deviation DirPatternPrefixFallback).           *)
(***************************************************************************)
EXTENDS Naturals, Sequences, FiniteSets, TLC, Json

ExcludedDirs == {"__pycache__", "node_modules", ".git", ".venv", "venv", ".tox", "dist", "build",
                 "htmlcov", "pkg.egg-info"}
CompiledExts == {"pyc", "so"}

D1 == {"src", "gen", "gen2", "genx", ".hid", "sub"} \cup ExcludedDirs
D2 == {"sub", "gen", "build", "node_modules"}
\* (src/sub/deep: a directory BELOW one that a path-prefix directory pattern names - ignoring a directory ignores its subtree)
DirPaths == {<<>>} \cup {<<d>> : d \in D1} \cup {<<d1, d2>> : d1 \in {"src", "gen", "build"}, d2 \in D2}
            \cup {<<"src", "sub", "deep">>}
Names == {[stem |-> "a", ext |-> "py"], [stem |-> "keep", ext |-> "ts"], [stem |-> "a", ext |-> "pyc"],
          [stem |-> "lib", ext |-> "so"], [stem |-> "gen_notes", ext |-> "txt"],
          [stem |-> "vendor.min", ext |-> "ts"],             \* a compound extension: vendor.min.ts
          [stem |-> "shape.so", ext |-> "py"]}               \* shape.so.py: a SOURCE file - only the LAST suffix says what a file is
Universe == {[dirs |-> d, stem |-> n.stem, ext |-> n.ext] : d \in DirPaths, n \in Names}

\* "x starts with y" for the atoms above (x # y)
StartsWith == {<<"gen2", "gen">>, <<"genx", "gen">>, <<"gen_notes", "gen">>, <<"sub", "su">>}

\* "the stem x ends with .y" (compound extensions)
StemEndsWith == {<<"vendor.min", "min">>}

Patterns == {
    [kind |-> "dir",   dirs |-> <<"gen">>, stem |-> "", ext |-> ""],          \* gen/
    [kind |-> "dir",   dirs |-> <<"sub">>, stem |-> "", ext |-> ""],          \* sub/
    [kind |-> "dir",   dirs |-> <<".hid">>, stem |-> "", ext |-> ""],         \* .hid/
    [kind |-> "dirpath", dirs |-> <<"src", "sub">>, stem |-> "", ext |-> ""], \* src/sub/  (that directory, not every `sub`)
    [kind |-> "ext",   dirs |-> <<>>, stem |-> "", ext |-> "ts"],             \* *.ts
    [kind |-> "ext",   dirs |-> <<>>, stem |-> "", ext |-> "txt"],            \* *.txt
    [kind |-> "ext2",  dirs |-> <<>>, stem |-> "min", ext |-> "ts"],          \* *.min.ts (like *.d.ts, *.generated.py)
    [kind |-> "exact", dirs |-> <<"src">>, stem |-> "a", ext |-> "py"],       \* src/a.py
    [kind |-> "exact", dirs |-> <<>>, stem |-> "keep", ext |-> "ts"],         \* keep.ts
    [kind |-> "exact", dirs |-> <<"gen", "sub">>, stem |-> "a", ext |-> "py"],\* gen/sub/a.py
    [kind |-> "tree",  dirs |-> <<"src">>, stem |-> "", ext |-> ""],          \* src/**
    [kind |-> "tree",  dirs |-> <<"src", "sub">>, stem |-> "", ext |-> ""],   \* src/sub/**
    [kind |-> "any",   dirs |-> <<>>, stem |-> "a", ext |-> "py"]             \* **/a.py
}

\* A target is a SET of path arguments.  (build: an always-excluded directory of the project named as the target itself;
\* the last one: a directory and a directory nested two levels... one level below it, both named - with --no-recursive
\* each contributes its own direct children.)
Targets == {{<<>>}, {<<"src">>}, {<<"gen">>}, {<<"build">>}, {<<"src">>, <<"src", "sub">>}}

CONSTANTS MaxPatterns,
          DirPatternPrefixFallback  \* TRUE: fnmatch(path, dir + "*") as coded at the pinned commit

VARIABLES pats, recursive, target, done
vars == <<pats, recursive, target, done>>

\* ---- helpers ------------------------------------------------------------------------------
IsPrefix(s, t) == Len(s) <= Len(t) /\ \A i \in 1..Len(s) : s[i] = t[i]
ToSet(s) == {s[i] : i \in 1..Len(s)}
Under(f, T) == \E t \in T : IsPrefix(t, f.dirs)
Direct(f, T) == \E t \in T : f.dirs = t

\* ---- layer A --------------------------------------------------------------------------------
\* "must": documented meaning unambiguous;  Unspecified: docs leave it open (no verdict)
MatchesA(p, f) ==
    CASE p.kind = "dir"   -> p.dirs[1] \in ToSet(f.dirs)
      [] p.kind = "ext"   -> f.ext = p.ext
      [] p.kind = "ext2"  -> f.ext = p.ext /\ <<f.stem, p.stem>> \in StemEndsWith
      [] p.kind = "exact" -> f.dirs = p.dirs /\ f.stem = p.stem /\ f.ext = p.ext
      [] p.kind \in {"tree", "dirpath"} -> IsPrefix(p.dirs, f.dirs)
      [] p.kind = "any"   -> f.stem = p.stem /\ f.ext = p.ext /\ Len(f.dirs) >= 1
Unspecified(p, f) == p.kind = "any" /\ f.stem = p.stem /\ f.ext = p.ext /\ Len(f.dirs) = 0

InExcludedDir(f) == \E d \in ToSet(f.dirs) : d \in ExcludedDirs
Compiled(f) == f.ext \in CompiledExts
InScope(f, t, r) == Under(f, t) /\ (r \/ Direct(f, t))

LintedA(f, P, t, r) == InScope(f, t, r) /\ ~InExcludedDir(f) /\ ~Compiled(f) /\ ~\E p \in P : MatchesA(p, f)
DontCare(f, P) == \E p \in P : Unspecified(p, f) /\ ~\E q \in P : MatchesA(q, f)

MustLint(P, t, r) == {f \in Universe : LintedA(f, P, t, r) /\ ~DontCare(f, P)}
MustSkip(P, t, r) == {f \in Universe : ~LintedA(f, P, t, r) /\ ~DontCare(f, P)}

\* ---- layer B --------------------------------------------------------------------------------
\* os.walk from the target: directories BELOW the target are pruned when excluded
WalkCollect(T, r) == {f \in Universe : /\ ~Compiled(f)
                                       /\ \E t \in T : /\ InScope(f, {t}, r)
                                                       /\ \A i \in (Len(t) + 1)..Len(f.dirs) : f.dirs[i] \notin ExcludedDirs}
\* _is_hardcoded_excluded: every part of the path as spelled (here: project-relative spelling)
HardExcludedB(f) == Compiled(f) \/ \E d \in ToSet(f.dirs) : d \in ExcludedDirs
FirstComponent(f) == IF Len(f.dirs) > 0 THEN f.dirs[1] ELSE f.stem
MatchesB(p, f) ==
    CASE p.kind = "dir"   -> \/ p.dirs[1] \in ToSet(f.dirs)
                             \/ (DirPatternPrefixFallback /\ <<FirstComponent(f), p.dirs[1]>> \in StartsWith)
                             \/ (DirPatternPrefixFallback /\ FirstComponent(f) = p.dirs[1])
      [] p.kind = "ext"   -> f.ext = p.ext
      [] p.kind = "ext2"  -> f.ext = p.ext /\ <<f.stem, p.stem>> \in StemEndsWith
      [] p.kind = "exact" -> f.dirs = p.dirs /\ f.stem = p.stem /\ f.ext = p.ext
      [] p.kind \in {"tree", "dirpath"} -> IsPrefix(p.dirs, f.dirs)
      [] p.kind = "any"   -> f.stem = p.stem /\ f.ext = p.ext /\ Len(f.dirs) >= 1
LintedB(P, t, r) == {f \in WalkCollect(t, r) : ~HardExcludedB(f) /\ ~\E p \in P : MatchesB(p, f)}

\* ---- case builder -----------------------------------------------------------------------------
Init == pats = {} /\ recursive = TRUE /\ target = {<<>>} /\ done = FALSE
AddPattern(p) == ~done /\ p \notin pats /\ Cardinality(pats) < MaxPatterns
                 /\ pats' = pats \cup {p} /\ UNCHANGED <<recursive, target, done>>
Finish(t, r) == ~done /\ done' = TRUE /\ target' = t /\ recursive' = r /\ UNCHANGED pats
Next == (\E p \in Patterns : AddPattern(p)) \/ (\E t \in Targets, r \in BOOLEAN : Finish(t, r))
Spec == Init /\ [][Next]_vars

\* ---- properties checked by TLC ----------------------------------------------------------------
\* the coded algorithm never lints a file the requirement says must be skipped ...
BNeverLintsMustSkip == done => LintedB(pats, target, recursive) \cap MustSkip(pats, target, recursive) = {}
\* ... but skips files the requirement says must be linted only through the prefix fallback
BMissesOnlyByPrefixFallback == done =>
    \A f \in MustLint(pats, target, recursive) \ LintedB(pats, target, recursive) :
        \E p \in pats : p.kind = "dir" /\ <<FirstComponent(f), p.dirs[1]>> \in StartsWith
BEqualsA == done => MustLint(pats, target, recursive) \subseteq LintedB(pats, target, recursive)
\* meta-properties of the requirement itself
Monotone == done => \A p \in Patterns :
    MustLint(pats \cup {p}, target, recursive) \subseteq
        (MustLint(pats, target, recursive) \cup {f \in Universe : DontCare(f, pats)})
NonRecursiveSubset == done => MustLint(pats, target, FALSE) \subseteq MustLint(pats, target, TRUE)

FileId(f) == [dirs |-> f.dirs, stem |-> f.stem, ext |-> f.ext]
Emit == done => PrintT(<<"CASE", ToJson([pats |-> pats, recursive |-> recursive, target |-> target,
                                          must_lint |-> MustLint(pats, target, recursive),
                                          must_skip |-> MustSkip(pats, target, recursive),
                                          model_b |-> LintedB(pats, target, recursive)])>>)
=============================================================================
