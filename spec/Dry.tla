---------------------------------- MODULE Dry ----------------------------------
(***************************************************************************)
(* C03: duplicate-code findings are sound, mutual and complete.             *)
(*                                                                           *)
(* A project P is a sequence of files; a file is a sequence of tokens, one  *)
(* per source line: a statement token (equal tokens = identical statements  *)
(* after removing comments and whitespace differences) or "BL" (blank line) *)
(* or "CM" (comment-only line).  W = min_duplicate_lines, K =                *)
(* min_occurrences.  A finding is [file, line, count, occ, refs] with refs a *)
(* set of [file, start, end].                                                *)
(*                                                                           *)
(* Layer A (requirement, over a project and a set R of findings):            *)
(*   Sound, Mutual, Complete, CountOk, NoDupNoReport                         *)
(* Layer B (DryAlgo, as coded in src/linters/dry): rolling windows over the *)
(* normalised lines with original line numbers, grouping by snippet, greedy *)
(* removal of overlapping blocks per file, occurrence threshold, one         *)
(* violation per block, greedy removal of overlapping violations per file    *)
(* with the coded test  line1 < line2 + count(v1).                           *)
(***************************************************************************)
EXTENDS Naturals, Sequences, FiniteSets, TLC

CONSTANTS Toks, MaxLen1, MaxLen2, WW, KK,
          ThirdFile,              \* also enumerate three-file projects
          OverlapUsesLaterCount   \* TRUE: ViolationFilter._overlaps as coded at the pinned commit

Blank(t) == t \in {"BL", "CM"}

\* ---- normalisation ------------------------------------------------------------------------
\* Norm(f): sequence of [tok, line] for the code lines of file f (a sequence of tokens)
RECURSIVE NormFrom(_, _)
NormFrom(f, i) == IF i > Len(f) THEN <<>>
                  ELSE IF Blank(f[i]) THEN NormFrom(f, i + 1)
                  ELSE <<[tok |-> f[i], line |-> i]>> \o NormFrom(f, i + 1)
Norm(f) == NormFrom(f, 1)

\* all windows of W consecutive code lines: [file, idx, start, end, key]
WindowsOf(P, W, fi) == LET n == Norm(P[fi]) IN
    {[file |-> fi, idx |-> i, start |-> n[i].line, end |-> n[i + W - 1].line,
      key |-> [j \in 1..W |-> n[i + j - 1].tok]] : i \in 1..(IF Len(n) >= W THEN Len(n) - W + 1 ELSE 0)}
AllWindows(P, W) == UNION {WindowsOf(P, W, fi) : fi \in 1..Len(P)}
Keys(P, W) == {w.key : w \in AllWindows(P, W)}
Group(P, W, k) == {w \in AllWindows(P, W) : w.key = k}

Overlap(a, b) == a.file = b.file /\ a.start <= b.end /\ b.start <= a.end

\* greedy removal of overlapping blocks per file, in order of start line (Deduplicator.deduplicate_blocks)
RECURSIVE Greedy(_, _)
Greedy(todo, kept) ==
    IF todo = {} THEN kept
    ELSE LET b == CHOOSE x \in todo : \A y \in todo : (x.file < y.file) \/ (x.file = y.file /\ x.start <= y.start)
         IN IF \E k \in kept : Overlap(b, k) THEN Greedy(todo \ {b}, kept) ELSE Greedy(todo \ {b}, kept \cup {b})
Places(P, W, k) == Greedy(Group(P, W, k), {})

\* ---- layer A ---------------------------------------------------------------------------------
TextAt(P, fi, a, b) == LET n == Norm(P[fi]) IN
    SelectSeq([i \in 1..Len(n) |-> IF n[i].line >= a /\ n[i].line <= b THEN n[i].tok ELSE "BL"], LAMBDA t : t # "BL")
Range(v) == [file |-> v.file, start |-> v.line, end |-> v.line + v.count - 1]
Sound(P, v) == /\ v.refs # {}
               /\ \A r \in v.refs : TextAt(P, r.file, r.start, r.end) = TextAt(P, v.file, v.line, v.line + v.count - 1)
               /\ \A r \in v.refs : ~(r.file = v.file /\ r.start = v.line)
Mutual(P, R, v) == \A r \in v.refs : \E u \in R : Overlap(Range(u), r)
\* every place of a key that occurs at >= K non-overlapping places intersects some finding of its file
Complete(P, W, K, R) == \A k \in Keys(P, W) : Cardinality(Places(P, W, k)) >= K =>
    \A w \in Group(P, W, k) : \E u \in R : Overlap(Range(u), w)
KeyOf(P, W, v) == LET ws == {w \in AllWindows(P, W) : w.file = v.file /\ w.start = v.line} IN
                  IF ws = {} THEN <<>> ELSE (CHOOSE w \in ws : TRUE).key
CountOk(P, W, v) == KeyOf(P, W, v) # <<>> /\ v.occ = Cardinality(Places(P, W, KeyOf(P, W, v)))
HasDup(P, W, K) == \E k \in Keys(P, W) : Cardinality(Places(P, W, k)) >= K
NoDupNoReport(P, W, K, R) == ~HasDup(P, W, K) => R = {}

Verdict(P, W, K, R) ==
    IF ~NoDupNoReport(P, W, K, R) THEN "NoDupNoReport"
    ELSE IF \E v \in R : ~Sound(P, v) THEN "Sound"
    ELSE IF \E v \in R : ~Mutual(P, R, v) THEN "Mutual"
    ELSE IF ~Complete(P, W, K, R) THEN "Complete"
    ELSE IF \E v \in R : ~CountOk(P, W, v) THEN "CountOk"
    ELSE "ok"

\* ---- layer B: the coded algorithm ----------------------------------------------------------------
RawViolations(P, W, K) == UNION {
    LET pl == Places(P, W, k) IN
    IF Cardinality(pl) >= 2 /\ Cardinality(pl) >= K
    THEN {[file |-> b.file, line |-> b.start, count |-> b.end - b.start + 1, occ |-> Cardinality(pl),
           refs |-> {[file |-> o.file, start |-> o.start, end |-> o.end] : o \in pl \ {b}}] : b \in pl}
    ELSE {} : k \in Keys(P, W)}
\* ViolationFilter.filter_overlapping: sorted by line; v1 (later) is dropped if line1 < line2 + count(v1) for a kept v2
RECURSIVE FilterV(_, _)
FilterV(todo, kept) ==
    IF todo = {} THEN kept
    ELSE LET v == CHOOSE x \in todo : \A y \in todo : (x.file < y.file) \/ (x.file = y.file /\ x.line <= y.line)
         IN IF \E k \in kept : k.file = v.file /\ v.line < k.line + (IF OverlapUsesLaterCount THEN v.count ELSE k.count)
            THEN FilterV(todo \ {v}, kept) ELSE FilterV(todo \ {v}, kept \cup {v})
DryAlgo(P, W, K) == FilterV(RawViolations(P, W, K), {})

\* ---- exhaustive model: all small projects ---------------------------------------------------------
VARIABLE proj
Files(n) == UNION {[1..m -> Toks \cup {"BL"}] : m \in 1..n}
Init == proj \in {<<a, b>> : a \in Files(MaxLen1), b \in Files(MaxLen2)} \cup
                (IF ThirdFile THEN {<<a, b, c>> : a \in Files(2), b \in Files(MaxLen1), c \in Files(MaxLen1)} ELSE {})
Next == UNCHANGED proj
Spec == Init /\ [][Next]_proj

AlgoSound    == \A v \in DryAlgo(proj, WW, KK) : Sound(proj, v)
AlgoMutual   == LET R == DryAlgo(proj, WW, KK) IN \A v \in R : Mutual(proj, R, v)
AlgoComplete == Complete(proj, WW, KK, DryAlgo(proj, WW, KK))
AlgoCountOk  == \A v \in DryAlgo(proj, WW, KK) : CountOk(proj, WW, v)
AlgoNoDup    == NoDupNoReport(proj, WW, KK, DryAlgo(proj, WW, KK))
Emit == PrintT(<<"PROJ", proj>>)
=============================================================================
