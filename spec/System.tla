-------------------------------- MODULE System --------------------------------
(***************************************************************************)
(* The orchestration protocol of one thai-lint process, as observed        *)
(* through the H2 event tap (src/orchestrator/verif_tap.py).  This module   *)
(* is not tied to one listed property: it states what every run of the     *)
(* orchestrator does, in the order it does it, and is used to validate the  *)
(* event traces of whole runs - the harness's own and those of the          *)
(* repository's test suite executed with THAILINT_VERIF=1.                  *)
(*                                                                           *)
(* One process is in one of these phases:                                    *)
(*   idle       no run in progress.  The single-file API (lint_file) may be  *)
(*              used directly: LintFile / Check events without a run.        *)
(*   seq        a sequential run (lint_files, lint_directory, or the         *)
(*              sequential fallback of lint_files_parallel): files are       *)
(*              linted one after the other, then the run is finalized.       *)
(*   pool       a pooled run: files were submitted to worker processes,      *)
(*              results are collected in completion order; after the last    *)
(*              one the parent feeds the cross-file rules itself (their      *)
(*              per-file findings are discarded) and then finalizes.         *)
(*   finalizing between finalize_begin and finalize_end                      *)
(*   worker     this process is a pool worker handling one file              *)
(*                                                                           *)
(* State: phase, cur (the file whose rules are being executed, or NoFile),   *)
(* acc (violations counted by Check events since the run began, or since     *)
(* the worker took its file), want (number of files submitted to the pool),  *)
(* got (futures collected), begun (violations announced at finalize_begin).  *)
(***************************************************************************)
EXTENDS Naturals, Sequences, FiniteSets, TLC

CONSTANTS File,     \* file identifiers
          MaxN      \* bound on violation counts in the bounded model

NoFile == "none"
Decisions == {"linted", "excluded", "ignored"}

VARIABLES phase, cur, acc, want, got, begun
vars == <<phase, cur, acc, want, got, begun>>

TypeOK == /\ phase \in {"idle", "seq", "pool", "finalizing", "worker"}
          /\ cur \in File \cup {NoFile}
          /\ acc \in Nat /\ want \in Nat /\ got \in Nat /\ begun \in Nat

Init == phase = "idle" /\ cur = NoFile /\ acc = 0 /\ want = 0 /\ got = 0 /\ begun = 0

\* ---- actions (one per event of the tap) ------------------------------------------------------------
\* run_begin: lint_files / lint_directory / the sequential fallback start a sequential run
RunBeginSeq == /\ phase = "idle" /\ phase' = "seq" /\ cur' = NoFile /\ acc' = 0
               /\ UNCHANGED <<want, got, begun>>
\* parallel(mode = "pool", nfiles = n): the files go to worker processes
RunBeginPool(n) == /\ phase = "idle" /\ n >= 2 /\ phase' = "pool" /\ want' = n /\ got' = 0 /\ acc' = 0 /\ cur' = NoFile
                   /\ UNCHANGED begun
\* lint_file(path, decision): allowed while idle (single-file API), in a sequential run, and in a worker
LintFile(f, d) == /\ phase \in {"idle", "seq", "worker"}
                  /\ cur' = (IF d = "linted" THEN f ELSE NoFile)
                  /\ UNCHANGED <<phase, acc, want, got, begun>>
\* check(rule, path, n): a rule ran on the file currently being linted
Check(f, n) == /\ phase \in {"idle", "seq", "worker"} /\ cur = f
               /\ acc' = acc + n /\ UNCHANGED <<phase, cur, want, got, begun>>
\* check events of the parent after the last future: cross-file rules are fed, findings discarded
CheckFeeding(f, n) == /\ phase = "pool" /\ got = want /\ UNCHANGED vars
\* done(i): one future collected
Done == /\ phase = "pool" /\ got < want /\ got' = got + 1 /\ UNCHANGED <<phase, cur, acc, want, begun>>
\* finalize_begin(n): n is what the run has collected so far; w is what the workers handed back
FinalizeBegin(n, w) == /\ \/ phase = "seq" /\ n = acc
                          \/ phase = "pool" /\ got = want /\ n = w
                       /\ phase' = "finalizing" /\ begun' = n /\ cur' = NoFile
                       /\ UNCHANGED <<acc, want, got>>
\* finalize_end(n): cross-file findings can only add
FinalizeEnd(n) == /\ phase = "finalizing" /\ n >= begun
                  /\ phase' = "idle" /\ acc' = 0 /\ want' = 0 /\ got' = 0 /\ begun' = 0 /\ cur' = NoFile
\* abort: a rule raised a configuration error (ValueError); it propagates to the caller and the run, if any,
\* ends without being finalized
Abort == /\ phase \in {"idle", "seq", "worker"}
         /\ phase' = "idle" /\ cur' = NoFile /\ acc' = 0 /\ want' = 0 /\ got' = 0 /\ begun' = 0
\* worker(path) ... worker_done(path, n) in a pool worker process
WorkerBegin(f) == /\ phase = "idle" /\ phase' = "worker" /\ cur' = NoFile /\ acc' = 0
                  /\ UNCHANGED <<want, got, begun>>
WorkerDone(f, n) == /\ phase = "worker" /\ n = acc /\ phase' = "idle" /\ cur' = NoFile /\ acc' = 0
                    /\ UNCHANGED <<want, got, begun>>

Next == \/ RunBeginSeq
        \/ \E n \in 2..3 : RunBeginPool(n)
        \/ \E f \in File, d \in Decisions : LintFile(f, d)
        \/ \E f \in File, n \in 0..MaxN : Check(f, n) \/ CheckFeeding(f, n)
        \/ Done \/ Abort
        \/ \E n \in 0..(3 * MaxN) : FinalizeBegin(n, n) \/ FinalizeEnd(n)
        \/ \E f \in File : WorkerBegin(f)
        \/ \E f \in File, n \in 0..(3 * MaxN) : WorkerDone(f, n)
Spec == Init /\ [][Next]_vars

\* ---- properties of the protocol ---------------------------------------------------------------------
\* a run never finalizes before every future is collected
FinalizeAfterCollection == phase = "finalizing" /\ want > 0 => got = want
\* rules only run on a file the orchestrator decided to lint
ChecksOnlyOnLintedFile == [][\A f \in File, n \in 0..MaxN : Check(f, n) => cur = f]_vars
\* what a sequential run announces at finalize_begin is exactly what its rules reported
Conservation == [][\A n \in 0..(3 * MaxN) : (FinalizeBegin(n, n) /\ phase = "seq") => n = acc]_vars
\* finalize can only add findings
FinalizeMonotone == [][\A n \in 0..(3 * MaxN) : FinalizeEnd(n) => n >= begun]_vars
\* a worker hands back exactly what its rules reported
WorkerConservation == [][\A f \in File, n \in 0..(3 * MaxN) : WorkerDone(f, n) => n = acc]_vars
\* bounded exploration
Bound == acc <= 3 * MaxN
=============================================================================
