------------------------------- MODULE Parallel -------------------------------
(***************************************************************************)
(* Orchestrator.lint_files_parallel as coded (layer B) with the requirement *)
(* of C07 (layer A) stated over it.                                          *)
(*                                                                           *)
(* One action per critical section of src/orchestrator/core.py:             *)
(*   Decide          lint_files_parallel: sequential fallback iff            *)
(*                   len(files) < 2 * workers                                *)
(*   SeqStep/SeqFinalize   lint_files: check every file in the parent, then  *)
(*                   finalize() on the parent's rules                        *)
(*   Submit          executor.submit for every work item (FIFO call queue)   *)
(*   Take(w)         an idle worker process takes the head of the queue      *)
(*   Finish(w)       _lint_file_worker returns: a NEW Orchestrator was used  *)
(*                   for this item, so whatever cross-file evidence its      *)
(*                   rules collected dies with it (named deviation           *)
(*                   WorkerEvidenceDiscarded); the result is pickled as      *)
(*                   dicts                                                   *)
(*   Collect(f)      as_completed yields ANY finished future; the parent     *)
(*                   rebuilds Violation objects and extends the result       *)
(*   EvidenceStep(f) _collect_cross_file_evidence (added by the fix: commit): *)
(*                   the parent runs the rules that have a finalize() step   *)
(*                   over every file, so its rule objects hold the evidence  *)
(*   ParentFinalize  _finalize_rules on the PARENT's rule objects; with      *)
(*                   ParentEvidencePass = FALSE (the pinned commit) they     *)
(*                   have seen no file on the pool path                      *)
(*                                                                           *)
(* Files are 1..NFiles.  PerFile(f) is the abstract bag of per-file          *)
(* findings of f, Cross the family of file sets that jointly produce one     *)
(* cross-file finding (duplicate code, repeated string sets).                *)
(***************************************************************************)
\* One CLI invocation is a SEQUENCE of runs, in either mode: the explicitly named files form one run, every
\* directory argument is a run of its own (src/cli/utils.py execute_linting_on_paths); this module describes one
\* run.  Cross-file evidence therefore never spans two arguments, with or without --parallel - the conformance
\* check invokes the CLI with one directory, a file list, several directories, and files plus directories.
EXTENDS Naturals, Sequences, FiniteSets, TLC

CONSTANTS NFiles,      \* number of files handed to lint_files_parallel
          K,           \* effective worker count
          Cross,       \* set of subsets of 1..NFiles, each yielding one cross-file finding
          ParentEvidencePass \* FALSE: as coded at the pinned commit; TRUE: with the fix: commit

Files   == 1..NFiles
Workers == 1..K
Parent  == 0

VARIABLES pc,          \* "decide" | "seq" | "submit" | "pool" | "finalize" | "returned"
          mode,        \* "none" | "fallback" | "pool"
          todo,        \* call queue: sequence of files not yet taken
          running,     \* worker -> file being linted (0 = idle)
          finished,    \* files whose future is done but not yet yielded by as_completed
          evidence,    \* process -> set of files whose check() left cross-file evidence there
          collected,   \* set of per-file findings gathered so far
          result,      \* final set of findings
          sched        \* history of pool events (the schedule); not part of the VIEW

vars == <<pc, mode, todo, running, finished, evidence, collected, result, sched>>
view == <<pc, mode, todo, running, finished, evidence, collected, result>>

PerFile(f)          == {<<"pf", f>>}
CrossFindings(seen) == {<<"x", g>> : g \in {c \in Cross : c \subseteq seen}}
SeqResult           == (UNION {PerFile(f) : f \in Files}) \cup CrossFindings(Files)

SeqOf(n) == [i \in 1..n |-> i]

Init == /\ pc = "decide" /\ mode = "none" /\ todo = <<>>
        /\ running = [w \in Workers |-> 0] /\ finished = {}
        /\ evidence = [p \in Workers \cup {Parent} |-> {}]
        /\ collected = {} /\ result = {} /\ sched = <<>>

Decide ==
    /\ pc = "decide"
    /\ IF NFiles < 2 * K
         THEN mode' = "fallback" /\ pc' = "seq" /\ todo' = SeqOf(NFiles)
         ELSE mode' = "pool" /\ pc' = "submit" /\ todo' = <<>>
    /\ UNCHANGED <<running, finished, evidence, collected, result, sched>>

\* ---- sequential fallback: lint_files -------------------------------------------------------
SeqStep ==
    /\ pc = "seq" /\ todo # <<>>
    /\ LET f == Head(todo) IN
         /\ collected' = collected \cup PerFile(f)
         /\ evidence' = [evidence EXCEPT ![Parent] = @ \cup {f}]
    /\ todo' = Tail(todo)
    /\ UNCHANGED <<pc, mode, running, finished, result, sched>>

SeqFinalize ==
    /\ pc = "seq" /\ todo = <<>>
    /\ result' = collected \cup CrossFindings(evidence[Parent])
    /\ pc' = "returned"
    /\ UNCHANGED <<mode, todo, running, finished, evidence, collected, sched>>

\* ---- process pool ------------------------------------------------------------------------
Submit ==
    /\ pc = "submit"
    /\ todo' = SeqOf(NFiles)
    /\ pc' = "pool"
    /\ UNCHANGED <<mode, running, finished, evidence, collected, result, sched>>

\* TakeAt(w, i): worker w takes the i-th queued item.  The executor's call queue is FIFO, so the
\* design model only uses i = 1 (Take); trace validation uses TakeAt because the worker-side
\* event is logged after the dequeue and two workers may log in either order.
TakeAt(w, i) ==
    /\ pc = "pool" /\ running[w] = 0 /\ i \in 1..Len(todo)
    /\ running' = [running EXCEPT ![w] = todo[i]]
    /\ todo' = [j \in 1..(Len(todo) - 1) |-> IF j < i THEN todo[j] ELSE todo[j + 1]]
    /\ sched' = Append(sched, <<"take", w, todo[i]>>)
    /\ UNCHANGED <<pc, mode, finished, evidence, collected, result>>

Take(w) == TakeAt(w, 1)

Finish(w) ==
    /\ pc = "pool" /\ running[w] # 0
    /\ finished' = finished \cup {running[w]}
    /\ running' = [running EXCEPT ![w] = 0]
    \* WorkerEvidenceDiscarded: evidence[w] is NOT extended - the per-item Orchestrator is dropped
    /\ sched' = Append(sched, <<"finish", w, running[w]>>)
    /\ UNCHANGED <<pc, mode, todo, evidence, collected, result>>

Collect(f) ==
    /\ pc = "pool" /\ f \in finished
    /\ collected' = collected \cup PerFile(f)
    /\ finished' = finished \ {f}
    /\ sched' = Append(sched, <<"collect", 0, f>>)
    /\ UNCHANGED <<pc, mode, todo, running, evidence, result>>

AllCollected == todo = <<>> /\ finished = {} /\ \A w \in Workers : running[w] = 0

\* the parent feeds its own cross-file rules, file by file in list order
EvidenceStep(f) ==
    /\ pc = "pool" /\ AllCollected /\ ParentEvidencePass
    /\ f \in Files \ evidence[Parent] /\ \A g \in Files : g < f => g \in evidence[Parent]
    /\ evidence' = [evidence EXCEPT ![Parent] = @ \cup {f}]
    /\ UNCHANGED <<pc, mode, todo, running, finished, collected, result, sched>>

ParentFinalize ==
    /\ pc = "pool" /\ AllCollected
    /\ ParentEvidencePass => evidence[Parent] = Files
    /\ result' = collected \cup CrossFindings(evidence[Parent])
    /\ pc' = "returned"
    /\ UNCHANGED <<mode, todo, running, finished, evidence, collected, sched>>

Next == \/ Decide \/ SeqStep \/ SeqFinalize \/ Submit
        \/ \E w \in Workers : Take(w) \/ Finish(w)
        \/ \E f \in Files : Collect(f) \/ EvidenceStep(f)
        \/ ParentFinalize

Spec == Init /\ [][Next]_vars /\ WF_vars(Next)

-------------------------------------------------------------------------------
\* Layer A (requirement of C07)
SameAsSequential == pc = "returned" => result = SeqResult

\* Parts of the requirement that the coded algorithm does meet
PerFilePartSame  == pc = "returned" =>
    {v \in result : v[1] = "pf"} = {v \in SeqResult : v[1] = "pf"}
FallbackSame     == (pc = "returned" /\ mode = "fallback") => result = SeqResult
NoDuplicateWork  == \A w1, w2 \in Workers :
    (w1 # w2 /\ running[w1] # 0) => running[w1] # running[w2]
EveryFutureCollected == (pc \in {"finalize", "returned"} /\ mode = "pool") =>
    collected = UNION {PerFile(f) : f \in Files}
ModeRule == mode # "none" => (mode = "fallback" <=> NFiles < 2 * K)
TypeOK == /\ pc \in {"decide", "seq", "submit", "pool", "returned"}
          /\ mode \in {"none", "fallback", "pool"}
          /\ finished \subseteq Files
Terminates == <>(pc = "returned")

\* Emission of complete schedules (one line per distinct terminal state incl. history)
Emit == (pc = "returned" /\ mode = "pool") =>
    PrintT(<<"SCHED", NFiles, K, sched>>)
=============================================================================
