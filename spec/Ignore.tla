-------------------------------- MODULE Ignore --------------------------------
(***************************************************************************)
(* C04: suppression directives silence exactly what they name.              *)
(*                                                                           *)
(* A violation is [file, linter, sub, line, n] (n = how many identical     *)
(* findings); its rule id is linter "." sub.                                *)
(* A directive is                                                            *)
(*   form      sameLine | nextLine | block | fileHeader                      *)
(*   spelling  how the rule is named: fullId | linterPrefix | prefixStar |   *)
(*             upperCase | mixedCase | alias | bare | otherRule               *)
(*   at        line of the directive (for block: start line), `endAt` the    *)
(*             line of ignore-end; `own` says whether the directive is a     *)
(*             line of its own (then it was inserted and shifts later lines) *)
(* Layer A:                                                                  *)
(*   Names(d, v)    the spelling resolves to v's rule                        *)
(*   InScope(d, v)  per form: same line / the line right after / strictly    *)
(*                  between start and end / anywhere if the directive is in  *)
(*                  the first HeaderLines lines                              *)
(*   Expected(base, d) = Shift(base \ {v : Names /\ InScope})                *)
(* Layer B (IgnoreScan below): _check_block_ignore's line scanner as coded.  *)
(***************************************************************************)
EXTENDS Naturals, Sequences, FiniteSets, TLC, Json

CONSTANTS HeaderLines,       \* 10
          BlockEndSuppressesAbove   \* TRUE: the pinned commit's _handle_block_end

\* repoDirPattern: the whole project lives one level down in app/generated/ and the repository ignore file holds the
\* directory pattern `generated/` (a directory pattern applies at any depth): every file is covered
Forms      == {"sameLine", "nextLine", "block", "fileHeader", "repoPattern", "linterPattern", "repoDirPattern"}
Spellings  == {"fullId", "linterPrefix", "prefixStar", "upperCase", "mixedCase", "alias", "aliasUpper",
               "aliasPrefix", "bare", "otherRule", "listFirst", "listLast"}
\* `ignore[nesting,srp]`: documented for same-line directives (how-to-ignore-violations.md, "Multiple Rules on Same Line")
ListSpellings == {"listFirst", "listLast"}
\* where the directive goes relative to the chosen target violation
Placements == {"on", "before", "twoBefore", "after", "around", "aroundOther", "header", "body"}

ValidPlacement(f, p) ==
    CASE f = "sameLine"   -> p \in {"on", "after"}
      [] f = "nextLine"   -> p \in {"before", "twoBefore", "after"}
      [] f = "block"      -> p \in {"around", "aroundOther"}
      [] f = "fileHeader" -> p \in {"header", "body"}
      [] f \in {"repoPattern", "linterPattern", "repoDirPattern"} -> p = "on"

\* A second directive stacked on the first one.  It always names ANOTHER rule, so by the requirement it changes
\* nothing: the findings of the file with both directives are those of the file with the first directive alone
\* (shifted by the inserted lines).  The second directive is judged like any other: Expected(after(d1), d2).
\*   blockOther      `ignore-start <other>` ... `ignore-end` enclosing the first directive and its target line
\*   lineOtherAbove  `ignore-next-line[<other>]` on the line above the first directive / its target line
\*   fileOther       `ignore-file[<other>]` as the first line of the file
Stacks == {"none", "blockOther", "lineOtherAbove", "fileOther"}
StackedSpellings == {"fullId", "linterPrefix", "bare", "otherRule"}
ValidStack(f, s, p, k) ==
    k # "none" => /\ f \in {"sameLine", "nextLine", "fileHeader"}
                  /\ s \in StackedSpellings
                  /\ p \in {"on", "before", "header", "body"}

\* lead: what stands between the code and the directive on a same-line directive's line: nothing, or another
\* tool's marker comment (`x = 37  # pragma: no cover  # thailint: ignore[rule]`, `// eslint-disable-line  // thailint: ...`)
Leads == {"none", "afterComment"}
ValidLead(f, s, k, ld) == ld # "none" => f = "sameLine" /\ k = "none" /\ s \in StackedSpellings

VARIABLES form, spelling, placement, stack, lead, done
vars == <<form, spelling, placement, stack, lead, done>>
Init == form = "sameLine" /\ spelling = "fullId" /\ placement = "on" /\ stack = "none" /\ lead = "none" /\ done = FALSE
Choose(f, s, p, k, ld) == /\ ~done /\ ValidPlacement(f, p) /\ (s \in ListSpellings => f = "sameLine") /\ ValidStack(f, s, p, k) /\ ValidLead(f, s, k, ld)
                      /\ lead' = ld /\ form' = f /\ spelling' = s /\ placement' = p /\ stack' = k /\ done' = TRUE
Next == \E f \in Forms, s \in Spellings, p \in Placements, k \in Stacks, ld \in Leads : Choose(f, s, p, k, ld)
Spec == Init /\ [][Next]_vars
Emit == done => PrintT(<<"CASE", ToJson([form |-> form, spelling |-> spelling, placement |-> placement, stack |-> stack, lead |-> lead])>>)

\* ---- layer A ----------------------------------------------------------------------------------
\* d.tlinter / d.tsub: the rule of the violation the directive was written for;
\* d.olinter / d.osub: the rule named when spelling = "otherRule"
Names(d, v) ==
    CASE d.form \in {"repoPattern", "repoDirPattern"} -> TRUE     \* the file is not linted at all
      [] d.form = "linterPattern" -> v.linter = d.tlinter       \* <section>: ignore: [pattern]
      [] d.spelling \in {"fullId", "upperCase", "mixedCase"} -> v.linter = d.tlinter /\ v.sub = d.tsub
      [] d.spelling \in {"linterPrefix", "prefixStar"}        -> v.linter = d.tlinter
      [] d.spelling \in {"alias", "aliasUpper"}                -> v.linter = d.tlinter /\ v.sub = d.tsub
      [] d.spelling = "aliasPrefix"                            -> v.linter = d.tlinter /\ v.sub = d.tsub
      [] d.spelling = "bare"                                   -> TRUE
      [] d.spelling = "otherRule"                              -> v.linter = d.olinter /\ v.sub = d.osub
      [] d.spelling \in ListSpellings -> \/ v.linter = d.tlinter /\ v.sub = d.tsub
                                         \/ v.linter = d.olinter /\ v.sub = d.osub

\* d.before: base line numbers before which one own-line directive was inserted (a sequence);
\* d.at / d.endAt are line numbers in the file AFTER insertion
\* v.pinned: a file-level finding (reported at line 1 for the whole file) does not move
NewLine(d, v) == IF v.pinned THEN v.line
                 ELSE v.line + Cardinality({i \in 1..Len(d.before) : d.before[i] <= v.line})

InScope(d, nl) ==
    CASE d.form \in {"repoPattern", "linterPattern", "repoDirPattern"} -> TRUE
      [] d.form = "sameLine"   -> nl = d.at
      [] d.form = "nextLine"   -> nl = d.at + 1
      [] d.form = "block"      -> d.at < nl /\ nl < d.endAt
      [] d.form = "fileHeader" -> d.at <= HeaderLines

\* A cross-file finding (duplicate code, repeated string set) in ANOTHER file loses its partner when the
\* directive's file is not analysed at all for that rule (repository / linter level pattern).
PartnerGone(d, v) == d.form \in {"repoPattern", "linterPattern"} /\ v.cross /\ v.file # d.file /\ Names(d, v)
Survives(d, v) == /\ d.form # "repoDirPattern"
                  /\ ~(v.file = d.file /\ Names(d, v) /\ InScope(d, NewLine(d, v))) /\ ~PartnerGone(d, v)
NewLineF(d, v) == IF v.file = d.file THEN NewLine(d, v) ELSE v.line
Expected(base, d) == {[file |-> v.file, linter |-> v.linter, sub |-> v.sub, line |-> NewLineF(d, v), n |-> v.n, cross |-> v.cross, pinned |-> v.pinned] :
                          v \in {w \in base : Survives(d, w)}}

\* ---- two directives: d1 written first, then d2 (coordinates of the file that already carries d1) -------------
\* Every scope is evaluated in the coordinates of the final file: d1 itself moves down when d2 inserts lines
\* above it, file-level (pinned) findings stay at their line.
Moved(d2, x) == x + Cardinality({i \in 1..Len(d2.before) : d2.before[i] <= x})
ShiftD(d1, d2) == [d1 EXCEPT !.at = Moved(d2, @), !.endAt = IF @ = 0 THEN 0 ELSE Moved(d2, @)]
Line2(d1, d2, v) == IF v.pinned \/ v.file # d2.file THEN NewLineF(d1, v) ELSE Moved(d2, NewLineF(d1, v))
Survives2(d1, d2, v) ==
    /\ ~(v.file = d1.file /\ Names(d1, v) /\ InScope(ShiftD(d1, d2), Line2(d1, d2, v)))
    /\ ~(v.file = d2.file /\ Names(d2, v) /\ InScope(d2, Line2(d1, d2, v)))
Expected2(base, d1, d2) ==
    {[file |-> v.file, linter |-> v.linter, sub |-> v.sub, line |-> Line2(d1, d2, v), n |-> v.n, cross |-> v.cross, pinned |-> v.pinned] :
         v \in {w \in base : Survives2(d1, d2, w)}}

\* ---- stacking law (checked by TLC on small instances): a directive that names no reported rule only shifts lines --
StackBase == {[file |-> 0, linter |-> l, sub |-> "x", line |-> ln, n |-> 1, cross |-> FALSE, pinned |-> FALSE] :
                  l \in {"a", "b"}, ln \in {3, 5}}
StackD2(f, at, endAt, before) ==
    [form |-> f, spelling |-> "otherRule", file |-> 0, tlinter |-> "a", tsub |-> "x", olinter |-> "c", osub |-> "x",
     at |-> at, endAt |-> endAt, before |-> before]
OtherRuleOnlyShifts ==
    \A B \in SUBSET StackBase :
        \A d \in {StackD2("block", 2, 8, <<2, 6>>), StackD2("nextLine", 3, 0, <<3>>), StackD2("fileHeader", 1, 0, <<1>>)} :
            /\ Cardinality(Expected(B, d)) = Cardinality(B)
            /\ \A v \in B : \E w \in Expected(B, d) : w.linter = v.linter /\ w.line = NewLine(d, v)
\* with a second directive that names no reported rule, Expected2 is Expected of the first directive, shifted
StackD1 == [form |-> "sameLine", spelling |-> "fullId", file |-> 0, tlinter |-> "a", tsub |-> "x", olinter |-> "", osub |-> "",
            at |-> 3, endAt |-> 0, before |-> <<>>]
StackedIsShiftOfSingle ==
    \A B \in SUBSET StackBase :
        \A d \in {StackD2("block", 3, 6, <<3, 4>>), StackD2("nextLine", 3, 0, <<3>>), StackD2("fileHeader", 1, 0, <<1>>)} :
            Expected2(B, StackD1, d) = {[w EXCEPT !.line = Moved(d, @)] : w \in Expected(B, StackD1)}
StackInv == OtherRuleOnlyShifts /\ StackedIsShiftOfSingle

\* ---- layer B: the block scanner of _check_block_ignore ----------------------------------------
\* one violation at line v, one block s..e (s < e) naming its rule, file of n lines
ScanB(n, s, e, v) ==
    LET Step(state, i) ==
            IF state.decided THEN state
            ELSE IF i = s THEN [state EXCEPT !.inblock = TRUE]
            ELSE IF i = e THEN
                 IF state.inblock /\ i > v /\ BlockEndSuppressesAbove
                   THEN [state EXCEPT !.decided = TRUE, !.result = TRUE]
                   ELSE [state EXCEPT !.inblock = FALSE]
            ELSE IF i = v /\ state.inblock THEN [state EXCEPT !.decided = TRUE, !.result = TRUE]
            ELSE state
        F[i \in 0..n] == IF i = 0 THEN [inblock |-> FALSE, decided |-> FALSE, result |-> FALSE]
                         ELSE Step(F[i - 1], i)
    IN F[n].result
ScanA(s, e, v) == s < v /\ v < e
ScannerMatchesRequirement ==
    \A n \in 3..7 : \A s \in 1..n, e \in 1..n, v \in 1..n :
        (s < e /\ v # s /\ v # e) => (ScanB(n, s, e, v) = ScanA(s, e, v))
ScannerInv == ScannerMatchesRequirement
=============================================================================
