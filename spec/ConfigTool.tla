------------------------------ MODULE ConfigTool ------------------------------
(***************************************************************************)
(* C20: config tooling never loses user settings and only writes validated  *)
(* values.                                                                  *)
(*                                                                           *)
(* Part 1 - the application config file (thailint config set/get/reset):    *)
(*   file[k]  abstract value id of key k (0 = default)                      *)
(*   Set(k, v)  accepted iff Valid(k, v): file' = file with k -> v, exit 0; *)
(*              rejected: file unchanged (byte for byte), exit 1            *)
(*   Get(k)     prints file[k];  Reset  all keys back to their defaults      *)
(* Part 2 - init-config merge on an existing .thailint.yaml:                *)
(*   user     sections the user already has, each with a spelling           *)
(*   Missing  sections init-config appends                                  *)
(*   layer A: Missing = template sections whose NORMALISED name is absent;  *)
(*   layer B (pinned commit): compared by exact key (named deviation         *)
(*   ExactKeyMatch), so an underscore-spelled user section is "missing" and *)
(*   gets a second, default-valued declaration that wins after loading.     *)
(***************************************************************************)
EXTENDS Naturals, Sequences, FiniteSets, TLC, Json

CONSTANTS MaxCmds, ExactKeyMatch

\* feature_flag: a key of the user's own (no schema, no default: unset until set)
Keys == {"log_level", "output_format", "max_retries", "timeout", "greeting", "feature_flag"}
\* value ids: 1..2 valid, 9 invalid;
\*   greeting 3..7 and feature_flag 1..4: text that another reader would take for a number / boolean / null /
\*     sexagesimal (007, 1e3, yes, null, on, 010, 1:30): text keys keep the text;
\*   max_retries 3 = "010", timeout 3 = "0100": decimal integers with a leading zero (10 and 100, not octal);
\*   timeout 4 = "1:30": not a number, rejected
\*   feature_flag 7 = "false", 8 = "1": values that compare equal to 0 / true in Python without being the same value
\*   feature_flag 5 = "true", 6 = "0": a key that holds a boolean is given a number next (and the other way round)
\*   timeout 5 = "1e22", 6 = "1e-7": floats whose shortest spelling has an exponent and no dot; greeting 8 holds a
\*     character outside the Basic Multilingual Plane
Vals(k) == CASE k = "greeting" -> 1..8 [] k = "feature_flag" -> 1..8 [] k = "max_retries" -> {1, 2, 3, 9}
             [] k = "timeout" -> {1, 2, 3, 4, 5, 6, 9} [] OTHER -> {1, 2, 9}
Valid(k, v) == v # 9 /\ ~(k = "timeout" /\ v = 4)

VARIABLES file, hist, lastGet, lastExit
vars == <<file, hist, lastGet, lastExit>>
view == <<file, Len(hist), lastGet, lastExit>>

Init == file = [k \in Keys |-> 0] /\ hist = <<>> /\ lastGet = 0 /\ lastExit = 0
Set(k, v) == /\ Len(hist) < MaxCmds
             /\ IF Valid(k, v) THEN file' = [file EXCEPT ![k] = v] /\ lastExit' = 0
                               ELSE file' = file /\ lastExit' = 1
             /\ hist' = Append(hist, <<"set", k, v>>) /\ UNCHANGED lastGet
Get(k) == /\ Len(hist) < MaxCmds
          /\ (k = "feature_flag" => file[k] # 0)       \* reading a key that was never set is not part of the property
          /\ lastGet' = file[k] /\ lastExit' = 0
          /\ hist' = Append(hist, <<"get", k, 0>>) /\ UNCHANGED file
Reset == /\ Len(hist) < MaxCmds
         /\ file' = [k \in Keys |-> 0] /\ lastExit' = 0
         /\ hist' = Append(hist, <<"reset", "", 0>>) /\ UNCHANGED lastGet
Next == (\E k \in Keys : (\E v \in Vals(k) : Set(k, v)) \/ Get(k)) \/ Reset
Spec == Init /\ [][Next]_vars

AtomicReject == [][\A k \in Keys : (lastExit' = 1 /\ hist' # hist) => file' = file]_vars
OnlyValidStored == \A k \in Keys : file[k] # 9
Emit == Len(hist) = MaxCmds => PrintT(<<"HIST", hist>>)

\* ---- part 2: init-config ----------------------------------------------------------------------
Template == {"magic-numbers", "nesting", "srp", "dry", "file-placement", "print-statements", "stringly-typed",
             "file-header", "method-property", "stateless-class", "pipeline", "lazy-ignores",
             "performance", "unwrap-abuse", "clone-abuse", "blocking-async"}
Hyphenated == {s \in Template : s \in {"magic-numbers", "file-placement", "print-statements", "stringly-typed",
                                        "file-header", "method-property", "stateless-class", "lazy-ignores",
                                        "unwrap-abuse", "clone-abuse", "blocking-async"}}
\* a user section: [name, spelling]; normalised identity is the name
MissingA(user) == {s \in Template : ~\E u \in user : u.name = s}
MissingB(user) == {s \in Template : ~\E u \in user : u.name = s /\ (u.spelling = "hyphen" \/ s \notin Hyphenated)}
Missing(user) == IF ExactKeyMatch THEN MissingB(user) ELSE MissingA(user)
\* (sections from the front, the middle and the END of the template: what is appended for a missing section must
\* not carry along copies of the sections that follow it)
UserNames == {"magic-numbers", "nesting", "srp", "dry", "performance", "unwrap-abuse"}
UserCases == {u \in SUBSET {[name |-> n, spelling |-> sp] : n \in UserNames, sp \in {"hyphen", "underscore"}} :
                 /\ \A a, b \in u : a.name = b.name => a = b
                 /\ \A a \in u : a.spelling = "underscore" => a.name \in Hyphenated \ {"unwrap-abuse"}}
\* requirement: init-config never re-declares a section the user already has
NoRedeclare == \A u \in UserCases : \A x \in u : x.name \notin Missing(u)
EmitUserCases == hist = <<>> => PrintT(<<"USERCASES", ToJson(UserCases)>>)
=============================================================================
