------------------------------ MODULE DryFilters ------------------------------
(***************************************************************************)
(* Beyond the listed properties (X13): DRY's documented false-positive     *)
(* filters (docs/dry-linter.md "False Positive Filters").                    *)
(*                                                                           *)
(* Two Python files share one block of `kind`; everything around the block  *)
(* is unique per file.  `own` is the setting of the filter that concerns     *)
(* the kind, `others` the setting of the three other filters.                *)
(*   kwargs        four `name=name,` lines inside a multi-line call          *)
(*   kwargsBare    four `name = name_value` assignments, no enclosing call   *)
(*   reraise       `except X as e:` / `raise Y(...) from e`  (window 2)      *)
(*   reraiseNoFrom `except X:` / `raise Y(...)`              (window 2)      *)
(*   loggerRun     three consecutive logger calls (not a single line)        *)
(*   plain         three ordinary statements                                 *)
(* Requirement: the shared block is reported in both files unless the kind   *)
(* is one the filter describes AND that filter is on; the other filters'     *)
(* settings never matter.                                                    *)
(***************************************************************************)
EXTENDS Naturals, FiniteSets, TLC, Json

Kinds == {"kwargs", "kwargsBare", "reraise", "reraiseNoFrom", "loggerRun", "plain"}
FilterOf(k) == CASE k \in {"kwargs", "kwargsBare"} -> "keyword_argument_filter"
                 [] k \in {"reraise", "reraiseNoFrom"} -> "exception_reraise_filter"
                 [] k = "loggerRun" -> "logger_call_filter"
                 [] OTHER -> "import_group_filter"
Described(k) == k \in {"kwargs", "reraise"}        \* the kinds a filter's documentation describes
Window(k) == IF k \in {"reraise", "reraiseNoFrom"} THEN 2 ELSE 3

VARIABLES kind, own, others, done
vars == <<kind, own, others, done>>
Init == kind \in Kinds /\ own \in {"on", "off", "default"} /\ others \in {"on", "off", "default"} /\ done = FALSE
Next == ~done /\ done' = TRUE /\ UNCHANGED <<kind, own, others>>
Spec == Init /\ [][Next]_vars

IsOn(x) == x \in {"on", "default"}                  \* every filter is on by default
Reported(k, o) == ~(Described(k) /\ IsOn(o))
\* Keyword arguments of ONE call are lines of a single statement, and the Python analyzer never reports a window that
\* lies inside one statement (single-statement detection, not part of the documented filters): with
\* keyword_argument_filter off the block may or may not be reported - no verdict.
Unspecified(k, o) == k = "kwargs" /\ ~IsOn(o)
\* laws: a filter only removes; the other filters never matter (Reported has no `others` argument: by construction)
FilterOnlyRemoves == \A k \in Kinds : Reported(k, "on") => Reported(k, "off")
DefaultIsOn == \A k \in Kinds : Reported(k, "default") = Reported(k, "on")
Emit == ~done => PrintT(<<"CASE", ToJson([kind |-> kind, own |-> own, others |-> others, filter |-> FilterOf(kind),
                                           window |-> Window(kind), reported |-> Reported(kind, own),
                                           unspecified |-> Unspecified(kind, own)])>>)
=============================================================================
