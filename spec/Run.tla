--------------------------------- MODULE Run ---------------------------------
(***************************************************************************)
(* One CLI run of a linter command (C06).                                   *)
(*                                                                           *)
(* Phases mirror the code path of every `thailint <linter>` command         *)
(* (src/cli/linters/*.py, src/cli/utils.py, src/core/cli_utils.py):         *)
(*   ParseArgs      click parses options; unknown option / bad --format     *)
(*                  choice is a usage error                                  *)
(*   ValidatePaths  validate_paths_exist: every path argument must exist    *)
(*   LoadConfig     project config discovery or --config file; a missing    *)
(*                  --config file or an unparsable config aborts the run    *)
(*   Lint           orchestrator run, filtered to the command's rules       *)
(*   Render(fmt)    text | json | sarif                                     *)
(*   Exit           sys.exit                                                *)
(* The `fault` chosen in Init says which class of usage error (if any) the  *)
(* invocation contains; `nviol` how many violations the inputs yield.       *)
(***************************************************************************)
EXTENDS Integers, Sequences, FiniteSets, TLC, Json

\* badOptionValue: a command's own option with a value outside its domain (`--max-depth deep`, `perf --rule nosuch`)
\* zeroOptionValue: a threshold option given the number 0 (documented: thresholds must be positive)
Faults  == {"none", "badOption", "badFormat", "badOptionValue", "zeroOptionValue", "missingPath", "missingPathAfterExisting",
            "missingConfig", "malformedYaml", "malformedJson", "malformedProjectYaml",
            \* a config file that parses but whose top level is not a mapping (a YAML list, a YAML scalar, a JSON array)
            "listYaml", "scalarYaml", "arrayJson"}
Formats == {"text", "json", "sarif"}
Inputs  == {"zero", "file", "dir", "hostile"}      \* what the targets contain

\* verbose: the global `--verbose` flag (more logging on stderr; the outcome of the run is the same)
VARIABLES phase, fault, input, fmt, verbose, nviol, rendered, exit
vars == <<phase, fault, input, fmt, verbose, nviol, rendered, exit>>

Count(i) == CASE i = "zero" -> 0 [] i = "file" -> 1 [] i = "dir" -> 2 [] i = "hostile" -> 2

Init == /\ phase = "parse" /\ fault \in Faults /\ input \in Inputs /\ fmt \in Formats /\ verbose \in BOOLEAN
        /\ nviol = 0 /\ rendered = FALSE /\ exit = -1

Abort == phase' = "exited" /\ exit' = 2 /\ UNCHANGED <<fault, input, fmt, verbose, nviol, rendered>>
Step(p) == phase' = p /\ UNCHANGED <<fault, input, fmt, verbose, nviol, rendered, exit>>

ParseArgs     == phase = "parse" /\ IF fault \in {"badOption", "badFormat", "badOptionValue", "zeroOptionValue"} THEN Abort ELSE Step("paths")
ValidatePaths == phase = "paths" /\ IF fault \in {"missingPath", "missingPathAfterExisting"} THEN Abort
                                    ELSE Step("config")
ConfigFaults  == {"missingConfig", "malformedYaml", "malformedJson", "malformedProjectYaml",
                  "listYaml", "scalarYaml", "arrayJson"}
LoadConfig    == phase = "config" /\ IF fault \in ConfigFaults THEN Abort ELSE Step("lint")
Lint   == phase = "lint" /\ nviol' = Count(input) /\ phase' = "render"
          /\ UNCHANGED <<fault, input, fmt, verbose, rendered, exit>>
Render == phase = "render" /\ rendered' = TRUE /\ phase' = "exit"
          /\ UNCHANGED <<fault, input, fmt, verbose, nviol, exit>>
Exit   == phase = "exit" /\ exit' = (IF nviol > 0 THEN 1 ELSE 0) /\ phase' = "exited"
          /\ UNCHANGED <<fault, input, fmt, verbose, nviol, rendered>>

Next == ParseArgs \/ ValidatePaths \/ LoadConfig \/ Lint \/ Render \/ Exit
Spec == Init /\ [][Next]_vars /\ WF_vars(Next)

\* ---- requirement (layer A) -------------------------------------------------------------------
ExpectedExit(f, n) == IF f # "none" THEN 2 ELSE IF n > 0 THEN 1 ELSE 0
ExitRule   == phase = "exited" => exit = ExpectedExit(fault, nviol)
NoOutputOnError == (phase = "exited" /\ fault # "none") => ~rendered
Terminates == <>(phase = "exited")
TypeOK == exit \in {-1, 0, 1, 2}

Emit == phase = "exited" => PrintT(<<"CASE", ToJson([fault |-> fault, input |-> input, fmt |-> fmt,
                                                      verbose |-> verbose, exit |-> exit])>>)

\* ---- judgement of one observed run triple (used by RunTrace) ---------------------------------
ToSet(s) == {s[i] : i \in 1..Len(s)}
CountIn(s, x) == Cardinality({i \in 1..Len(s) : s[i] = x})
BagEq(a, b) == \A x \in ToSet(a) \cup ToSet(b) : CountIn(a, x) = CountIn(b, x)
=============================================================================
