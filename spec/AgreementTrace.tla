--------------------------- MODULE AgreementTrace ---------------------------
(* Batch judgement of C10 observation records with the operators of Agreement.tla. *)
EXTENDS Agreement, Json, IOUtils, TLCExt

Traces == JsonDeserialize(IOEnv.TRACE_FILE)
VARIABLE tid
Rec == Traces[tid]

LayerA == IF Rec.law = "union" THEN (IF UnionLaw(Rec) THEN "ok" ELSE "UnionLaw")
          ELSE (IF ApiIsCli(Rec) THEN "ok" ELSE "ApiIsCli")

TraceInit == tid = 1 /\ kind = "none" /\ sel = {} /\ done = FALSE
TraceNext == /\ tid <= Len(Traces)
             /\ PrintT(<<"VERDICT", tid, LayerA, "ok", 0>>)
             /\ tid' = tid + 1 /\ UNCHANGED vars
TraceSpec == TraceInit /\ [][TraceNext]_<<vars, tid>>
TraceInv == TRUE
=============================================================================
