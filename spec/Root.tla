--------------------------------- MODULE Root ---------------------------------
(***************************************************************************)
(* Beyond the listed properties (X16): which directory is the project root  *)
(* (docs/cli-reference.md "--project-root", "Project Root Inference").       *)
(*                                                                           *)
(* Three candidate directories, each with its own .thailintignore:           *)
(*   E  the directory given with --project-root                              *)
(*   C  the directory that holds the file given with --config                *)
(*   A  the nearest ancestor of the target that carries a project marker     *)
(* Documented priority: explicit --project-root, then the --config file's    *)
(* directory, then auto-detection.  A --project-root that does not exist or  *)
(* is a file ends the run with exit code 2.                                  *)
(* The root is observed through the ignore file that takes effect: the       *)
(* target holds one probe file per candidate, and each candidate's           *)
(* .thailintignore hides exactly its own probe.                              *)
(***************************************************************************)
EXTENDS Naturals, TLC, Json

Explicits == {"none", "abs", "rel", "missing", "file"}       \* --project-root: absent / absolute / relative spelling / ...
Configs   == {"none", "group", "command"}                   \* --config before or after the command name
Cwds      == {"inside", "outside"}                            \* working directory: inside project A / its parent
Targets   == {"abs", "rel"}

VARIABLES explicit, config, cwd, target, done
vars == <<explicit, config, cwd, target, done>>
Init == explicit \in Explicits /\ config \in Configs /\ cwd \in Cwds /\ target \in Targets /\ done = FALSE
Next == ~done /\ done' = TRUE /\ UNCHANGED <<explicit, config, cwd, target>>
Spec == Init /\ [][Next]_vars

Fails(e) == e \in {"missing", "file"}
\* (the inference from --config is documented for the global option, `thailint --config F <command>`; the per-command
\* --config option only names the file)
RootOf(e, c) == IF e \in {"abs", "rel"} THEN "E" ELSE IF c = "group" THEN "C" ELSE "A"
\* laws: the working directory and the spelling of the target never matter (RootOf has no such argument: by
\* construction); an explicit root beats everything; without options the root is auto-detected
ExplicitWins == \A c \in Configs : RootOf("abs", c) = "E" /\ RootOf("rel", c) = "E"
AutoIsFallback == RootOf("none", "none") = "A"
Emit == ~done => PrintT(<<"CASE", ToJson([explicit |-> explicit, config |-> config, cwd |-> cwd, target |-> target,
                                           fails |-> Fails(explicit), root |-> RootOf(explicit, config)])>>)
=============================================================================
