------------------------------- MODULE Nesting -------------------------------
(***************************************************************************)
(* C01: the nesting linter flags exactly the functions whose nesting depth  *)
(* exceeds the limit.                                                       *)
(*                                                                           *)
(* A function body is built as a token sequence:                            *)
(*   <<"open", k>>    a control structure of kind k whose (first) body       *)
(*                    starts with one plain statement                        *)
(*   <<"branch", b>>  the innermost open structure continues with another    *)
(*                    branch (elif / else / except / finally / case), whose  *)
(*                    body again starts with one plain statement             *)
(*   <<"close", "">>  the innermost structure ends                           *)
(* Depth as documented (docs/nesting-linter.md): 1 for the function body,    *)
(* plus one for every control structure enclosing the deepest statement;     *)
(* all branches of one structure are at the same depth (an if/elif/else      *)
(* chain counts once).                                                       *)
(***************************************************************************)
EXTENDS Naturals, Sequences, FiniteSets, TLC, Json

CONSTANTS MaxNodes,     \* number of control structures per function
          MaxTokens

Kinds == {"if", "for", "while", "with", "try", "match", "loop", "closure"}
BranchesOf(k) == CASE k = "if" -> {"elif", "else"} [] k = "try" -> {"except", "finally"}
                   [] k = "match" -> {"case"} [] OTHER -> {}
\* which languages can express which kinds (from the three lists in the docs)
Avail(lang) == CASE lang = "python"     -> {"if", "for", "while", "with", "try", "match"}
                 [] lang = "typescript" -> {"if", "for", "while", "try", "match"}
                 [] lang = "rust"       -> {"if", "for", "while", "loop", "match", "closure"}

VARIABLES toks, stack, nodes, maxd, done
vars == <<toks, stack, nodes, maxd, done>>

Cur == 1 + Len(stack)
Init == toks = <<>> /\ stack = <<>> /\ nodes = 0 /\ maxd = 1 /\ done = FALSE

Open(k) == /\ ~done /\ nodes < MaxNodes /\ Len(toks) < MaxTokens
           /\ toks' = Append(toks, <<"open", k>>)
           /\ stack' = Append(stack, [kind |-> k, last |-> "body"])
           /\ nodes' = nodes + 1
           /\ maxd' = IF Cur + 1 > maxd THEN Cur + 1 ELSE maxd
           /\ UNCHANGED done
\* branch order: elif* then else; except* then finally; case*
BranchOk(top, b) ==
    CASE b = "elif"    -> top.last \in {"body", "elif"}
      [] b = "else"    -> top.last \in {"body", "elif"}
      [] b = "except"  -> top.last \in {"body", "except"}
      [] b = "finally" -> top.last \in {"body", "except"}
      [] b = "case"    -> TRUE
Branch(b) == /\ ~done /\ stack # <<>> /\ Len(toks) < MaxTokens
             /\ LET top == stack[Len(stack)] IN
                  /\ b \in BranchesOf(top.kind) /\ BranchOk(top, b)
                  /\ stack' = [stack EXCEPT ![Len(stack)] = [top EXCEPT !.last = b]]
             /\ toks' = Append(toks, <<"branch", b>>)
             /\ UNCHANGED <<nodes, maxd, done>>
Close == /\ ~done /\ stack # <<>>
         /\ toks' = Append(toks, <<"close", "">>)
         /\ stack' = SubSeq(stack, 1, Len(stack) - 1)
         /\ UNCHANGED <<nodes, maxd, done>>
Finish == /\ ~done /\ stack = <<>> /\ nodes >= 1 /\ done' = TRUE /\ UNCHANGED <<toks, stack, nodes, maxd>>
Next == (\E k \in Kinds : Open(k)) \/ (\E b \in {"elif", "else", "except", "finally", "case"} : Branch(b))
        \/ Close \/ Finish
Spec == Init /\ [][Next]_vars

\* ---- the requirement ----------------------------------------------------------------------
\* Statements that are not control structures never add depth, whatever they own: a nested function definition
\* (`def` / `async def` / `class` inside the function, itself a function of depth 1 when its body is flat) is a plain
\* statement of the enclosing function.  The renderer's form "withHelper" puts one in front of the token sequence.
NeutralStatements == {"assignment", "return", "nestedDef"}
Depth == maxd
Flag(L) == Depth > L
KindsUsed == {toks[i][2] : i \in {j \in 1..Len(toks) : toks[j][1] = "open"}}
\* `else if` in TypeScript/Rust is an if nested in an else clause; whether such a chain counts once (like
\* Python's elif, which the docs single out) is not documented, so elif chains are rendered for Python only.
UsesElif == \E i \in 1..Len(toks) : toks[i] = <<"branch", "elif">>
Langs == {l \in {"python", "typescript", "rust"} : KindsUsed \subseteq Avail(l) /\ (UsesElif => l = "python")}

\* depth of a token sequence, recomputed independently (used by the trace spec and as a meta-check)
RECURSIVE DepthOf(_, _, _)
DepthOf(ts, h, m) == IF ts = <<>> THEN m
                     ELSE LET t == Head(ts) IN
                          IF t[1] = "open" THEN DepthOf(Tail(ts), h + 1, IF h + 2 > m THEN h + 2 ELSE m)
                          ELSE IF t[1] = "close" THEN DepthOf(Tail(ts), h - 1, m)
                          ELSE DepthOf(Tail(ts), h, m)
DepthAgrees == done => DepthOf(toks, 0, 1) = maxd
\* wrapping the whole body in one more structure raises the depth by exactly one
WrapAddsOne == done => DepthOf(<<<<"open", "if">>>> \o toks \o <<<<"close", "">>>>, 0, 1) = maxd + 1
\* the verdict flips at exactly one limit
FlipOnce == done => {L \in 1..(maxd + 2) : Flag(L)} = 1..(maxd - 1)
\* branches never add depth
BranchesFlat == done => DepthOf(SelectSeq(toks, LAMBDA t : t[1] # "branch"), 0, 1) = maxd

Emit == (done /\ Langs # {}) => PrintT(<<"CASE", ToJson([toks |-> toks, depth |-> Depth, langs |-> Langs])>>)
=============================================================================
