------------------------------- MODULE PipelineTrace -------------------------------
(* records: case fields + n (findings at the for line) + stated (number of conditions the message states, 1 for
   "embedded filtering", 0 if no finding) + other *)
EXTENDS Pipeline, IOUtils, TLCExt
Traces == JsonDeserialize(IOEnv.TRACE_FILE)
VARIABLE tid
Rec == Traces[tid]
Exp == Expected(Rec.k, Rec.variant, Rec.minContinues)
LayerA == IF Rec.other > 0 THEN "OtherFinding"
          ELSE IF Rec.n < Exp THEN "Missed" ELSE IF Rec.n > Exp /\ Exp = 0 THEN "Spurious" ELSE IF Rec.n > Exp THEN "Duplicate"
          ELSE IF Exp = 1 /\ Rec.stated # Rec.k THEN "WrongCount" ELSE "ok"
TraceInit == tid = 1 /\ Init
TraceNext == /\ tid <= Len(Traces) /\ PrintT(<<"VERDICT", tid, LayerA, "ok", 0>>) /\ tid' = tid + 1 /\ UNCHANGED vars
TraceSpec == TraceInit /\ [][TraceNext]_<<vars, tid>>
TraceInv == TRUE
=============================================================================
