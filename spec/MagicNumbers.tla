----------------------------- MODULE MagicNumbers -----------------------------
(***************************************************************************)
(* C02: the magic-number linter flags exactly the non-allowed literals      *)
(* outside the documented exemptions.                                       *)
(*                                                                           *)
(* An item is <<slot, value id>>: one numeric literal (or, for twoOnLine,   *)
(* the same literal twice) on its own source line in syntactic position     *)
(* `slot`.  The universe of items per language is fixed; a case is a        *)
(* configuration: the set of allowed value classes, max_small_integer and   *)
(* the kind of file.  Expected(case) gives, per item, how many findings     *)
(* must be reported on its line (docs/magic-numbers-linter.md, "Acceptable  *)
(* Contexts" and the per-language lists).                                   *)
(***************************************************************************)
EXTENDS Naturals, Sequences, FiniteSets, TLC, Json

Langs == {"python", "typescript", "rust"}
\* value ids; the concrete spelling per language is the harness's table
\*  1: 7   2: 37   3: 4200   4: 3.14   5: 0x2A (= 42)   6: 1_000_000   7: 1e6   8: 100_i32 (rust only)   9: 250
\*  10: 0x1f4 (= 500; lowercase hex whose tail looks like a Rust type suffix: f + digits)
\*  11: 0xFF (= 255)   12: 2_000   13: 4e2 - used only in "lone" files: one literal, no other digit anywhere in the text
Values == 1..13
LoneValues == 11..13
IsSmallInt(v, maxSmall) == (v = 1 /\ 7 <= maxSmall)          \* only value 7 is a candidate small integer
ValueOk(lang, v) == (v # 8 \/ lang = "rust") /\ v \notin LoneValues

Common   == {"assign", "callArg", "returnExpr", "defaultParam", "arrayElem", "mapValue", "binop", "compare",
             "index", "twoOnLine", "classAttr"}
PyOnly   == {"kwArg", "tupleElem", "rangeArg", "enumerateArg", "strRepeat", "upperConst", "annUpperConst", "nestedFunc",
             "fstringInterp", "lambdaBody", "ternary", "comprehension", "sliceBound", "unaryMinus",
             "upperCallArg", "upperFuncBody", "strKeyMul"}
\* strKeyMul: `y = cfg["timeout"] * 37` - the other operand of `*` merely CONTAINS a string literal (a subscript key); it
\* is a number, the product is arithmetic, not "string repetition": reportable like binop
\* upperCallArg / upperFuncBody: the literal is an ARGUMENT of the call, or stands in the BODY of the function, whose
\* result is bound to an UPPER_CASE name (`TOTAL = compute(37)`, `const HANDLER = () => { return 37; }`): it is not the
\* constant's definition ("UPPERCASE = value") and stays reportable
TsOnly   == {"upperConst", "enumMember", "lowerConst", "templateInterp", "arrowBody", "ternary",
             "upperCallArg", "upperFuncBody"}
\* (Rust enum discriminants are not generated: the Rust section of the docs lists only const/static/test code)
RustOnly == {"constItem", "staticItem", "letBinding", "testFn"}
NonLit   == {"boolTrue", "strDigits", "identDigits"}
SlotsOf(lang) == (Common \ (IF lang = "rust" THEN {"defaultParam", "classAttr"} ELSE {}))
                 \cup (CASE lang = "python" -> PyOnly [] lang = "typescript" -> TsOnly [] lang = "rust" -> RustOnly)
\* to stay below the tool's "constants-definition file" heuristic (10+ UPPER_CASE constants) constant slots
\* carry only three values
FewValues(slot) == slot \in {"upperConst", "annUpperConst", "constItem", "staticItem", "enumMember", "enumDiscriminant"}
ScopedConst(slot) == slot \in {"classUpperConst", "localUpperConst"}          \* four values each
OneValue(slot) == slot \in {"upperCallArg", "upperFuncBody"}
Items(lang) == {<<s, v>> : s \in SlotsOf(lang), v \in {w \in Values : ValueOk(lang, w)}} \ 
               {<<s, v>> \in (SlotsOf(lang) \X Values) : (FewValues(s) /\ v \notin {2, 3, 4}) \/ (OneValue(s) /\ v # 2)
                                                      \/ (ScopedConst(s) /\ v \notin {2, 3, 4, 9})}

ExemptSlot(slot, v, maxSmall) ==
    \/ slot \in {"upperConst", "annUpperConst", "constItem", "staticItem", "enumMember", "testFn",
                 "classUpperConst", "localUpperConst"}
    \/ (slot = "strRepeat" /\ v \notin {4, 7})              \* integer repetition of a string literal
    \/ (slot \in {"rangeArg", "enumerateArg"} /\ IsSmallInt(v, maxSmall))
Mult(slot) == IF slot = "twoOnLine" THEN 2 ELSE 1

VARIABLES lang, allowed, maxSmall, fileKind, done
vars == <<lang, allowed, maxSmall, fileKind, done>>
AllowSets == SUBSET {1, 2, 3, 4, 5}            \* which of 7, 37, 4200, 3.14, 42 are in allowed_numbers
Init == lang \in Langs /\ allowed = {} /\ maxSmall = 10 /\ fileKind = "plain" /\ done = FALSE
AddAllowed(v)    == ~done /\ v \in {1, 2, 3, 4, 5} \ allowed /\ allowed' = allowed \cup {v} /\ UNCHANGED <<lang, maxSmall, fileKind, done>>
SetMaxSmall(k)   == ~done /\ maxSmall = 10 /\ k \in {3, 20} /\ maxSmall' = k /\ UNCHANGED <<lang, allowed, fileKind, done>>
SetKind(k)       == ~done /\ fileKind = "plain" /\ allowed = {} /\ fileKind' = k /\ UNCHANGED <<lang, allowed, maxSmall, done>>
Finish           == ~done /\ done' = TRUE /\ UNCHANGED <<lang, allowed, maxSmall, fileKind>>
Next == (\E v \in Values : AddAllowed(v)) \/ (\E k \in {3, 20} : SetMaxSmall(k))
        \/ (\E k \in {"test", "definition", "lone"} : SetKind(k)) \/ Finish
Spec == Init /\ [][Next]_vars

\* a "lone" file: nothing but one function returning one literal in a special spelling, default configuration
ItemsOf(l, fk) == IF fk = "lone" THEN {<<"returnExpr", v>> : v \in LoneValues} ELSE Items(l)
Count(l, a, ms, fk, it) ==
    IF fk \notin {"plain", "lone"} THEN 0
    ELSE IF it[2] \in a THEN 0
    ELSE IF ExemptSlot(it[1], it[2], ms) THEN 0
    ELSE Mult(it[1])
Expected(l, a, ms, fk) == [it \in Items(l) |-> Count(l, a, ms, fk, it)]

\* ---- laws of the requirement ----------------------------------------------------------------
\* adding a value to allowed_numbers removes exactly the findings for literals of that value
DeltaAdd == [][\A v \in Values : (allowed' = allowed \cup {v} /\ v \notin allowed) =>
                 \A it \in Items(lang) :
                     Count(lang, allowed', maxSmall, fileKind, it) =
                         (IF it[2] = v THEN 0 ELSE Count(lang, allowed, maxSmall, fileKind, it))]_vars
ExactlyOnce == \A it \in Items(lang) : Count(lang, allowed, maxSmall, fileKind, it) \in {0, Mult(it[1])}
NonLitNever == TRUE     \* non-literal items are not in Items: nothing may ever be reported on their lines

Emit == done => PrintT(<<"CASE", ToJson([lang |-> lang, allowed |-> allowed, maxSmall |-> maxSmall, fileKind |-> fileKind,
            expected |-> {[slot |-> it[1], v |-> it[2], n |-> Count(lang, allowed, maxSmall, fileKind, it)] :
                              it \in {x \in ItemsOf(lang, fileKind) : Count(lang, allowed, maxSmall, fileKind, x) > 0}}])>>)
=============================================================================
