----------------------------- MODULE StatelessClass -----------------------------
(***************************************************************************)
(* Beyond the listed properties (X08): the stateless-class rule as          *)
(* documented (docs/stateless-class-linter.md, "Detection Patterns" and     *)
(* "Exclusion Rules").                                                       *)
(*                                                                           *)
(* A class is a set of features plus a number of ordinary methods:          *)
(*   init, new            defines __init__ / __new__                         *)
(*   instAssign / instAug / instAnn   a method assigns self.x = v /          *)
(*                        self.x += v / self.x: int = v                      *)
(*   classAttr / classAnn class-level NAME = v / name: int = v               *)
(*   baseAbc, baseProtocol, baseOther, baseObject   what it inherits from    *)
(*   decorated            a decorator on the class                           *)
(* Layer A: reported (once, at the class line) iff it has none of the        *)
(* excluding features (baseObject excludes nothing) and at least            *)
(* min_methods methods.                                                      *)
(***************************************************************************)
EXTENDS Naturals, Sequences, FiniteSets, TLC, Json

CONSTANTS MaxFeatures      \* at most this many features at once
Excluding == {"init", "new", "instAssign", "instAug", "instAnn", "classAttr", "classAnn", "baseAbc", "baseProtocol",
              "baseOther", "decorated"}
Neutral == {"baseObject"}
Features == Excluding \cup Neutral
Bases == {"baseAbc", "baseProtocol", "baseOther", "baseObject"}

VARIABLES feats, methods, minMethods, done
vars == <<feats, methods, minMethods, done>>
Init == feats = {} /\ methods = 2 /\ minMethods = 2 /\ done = FALSE
Choose(F, m, mm) == /\ ~done /\ Cardinality(F) <= MaxFeatures /\ Cardinality(F \cap Bases) <= 1
                    /\ feats' = F /\ methods' = m /\ minMethods' = mm /\ done' = TRUE
Next == \E F \in SUBSET Features, m \in 0..3, mm \in {2, 3} : Choose(F, m, mm)
Spec == Init /\ [][Next]_vars
SetToSeq(S) == LET RECURSIVE G(_) G(T) == IF T = {} THEN <<>> ELSE LET x == CHOOSE y \in T : TRUE IN <<x>> \o G(T \ {x}) IN G(S)
Emit == done => PrintT(<<"CASE", ToJson([feats |-> SetToSeq(feats), methods |-> methods, minMethods |-> minMethods])>>)

\* ordinary methods plus the methods that carry instance assignments (each such feature adds one method);
\* __init__ / __new__ are constructors, not counted
CountedMethods(F, m) == m + Cardinality(F \cap {"instAssign", "instAug", "instAnn"})
Expected(F, m, mm) == IF F \cap Excluding = {} /\ CountedMethods(F, m) >= mm THEN 1 ELSE 0

LawsHold == done => /\ \A x \in Excluding : Expected(feats \cup {x}, methods, minMethods) = 0
                    /\ Expected(feats, methods, minMethods + 1) <= Expected(feats, methods, minMethods)
                    /\ Expected(feats \cup {"baseObject"}, methods, minMethods) = Expected(feats \ {"baseObject"}, methods, minMethods)
=============================================================================
