------------------------------ MODULE SystemTrace ------------------------------
(* Validation of H2 event traces of whole processes against System.tla.

   One record = one segment of one process's event sequence, starting where the process is idle (the harness
   cuts a process's sequence in front of every run_begin / parallel(pool) / worker event).  Events are consumed
   one per step through the actions of System; an event for which no action is enabled rejects the segment with
   the event's position and the clause named after the action whose guard failed.  A segment must end idle.

   Event records (normalised by the harness from the tap's JSON lines):
     [ev |-> "run_begin"]                                [ev |-> "pool", n |-> nfiles]
     [ev |-> "lint_file", f |-> path, d |-> decision]    [ev |-> "check", f |-> path, n |-> k]
     [ev |-> "done"]                                     [ev |-> "finalize_begin", n |-> k, w |-> sum of worker_done]
     [ev |-> "finalize_end", n |-> k]                    [ev |-> "worker", f |-> path]
     [ev |-> "worker_done", f |-> path, n |-> k]         [ev |-> "abort"]                                                               *)
EXTENDS System, IOUtils, TLCExt, Json

Traces == JsonDeserialize(IOEnv.TRACE_FILE)
VARIABLES tid, i, bad, at
tvars == <<tid, i, bad, at>>
Ev == Traces[tid].events
E == Ev[i]

Step(e) ==
    CASE e.ev = "run_begin"      -> RunBeginSeq
      [] e.ev = "pool"           -> RunBeginPool(e.n)
      [] e.ev = "lint_file"      -> LintFile(e.f, e.d)
      [] e.ev = "check"          -> Check(e.f, e.n) \/ CheckFeeding(e.f, e.n)
      [] e.ev = "done"           -> Done
      [] e.ev = "finalize_begin" -> FinalizeBegin(e.n, e.w)
      [] e.ev = "finalize_end"   -> FinalizeEnd(e.n)
      [] e.ev = "worker"         -> WorkerBegin(e.f)
      [] e.ev = "worker_done"    -> WorkerDone(e.f, e.n)
      [] e.ev = "abort"          -> Abort

\* which clause of the protocol an un-consumable event breaks
Clause(e) ==
    CASE e.ev \in {"run_begin", "pool", "worker"} -> "RunInsideRun"
      [] e.ev = "lint_file"      -> "LintFileOutsideCollection"
      [] e.ev = "check"          -> "CheckWithoutLintedFile"
      [] e.ev = "done"           -> "MoreResultsThanSubmitted"
      [] e.ev = "finalize_begin" -> (IF phase = "seq" THEN "Conservation"
                                     ELSE IF phase = "pool" /\ got # want THEN "FinalizeBeforeCollection"
                                     ELSE IF phase = "pool" THEN "PoolConservation" ELSE "FinalizeOutsideRun")
      [] e.ev = "finalize_end"   -> (IF phase = "finalizing" THEN "FinalizeLostFindings" ELSE "FinalizeOutsideRun")
      [] e.ev = "worker_done"    -> (IF phase = "worker" THEN "WorkerConservation" ELSE "WorkerDoneOutsideWorker")
      [] e.ev = "abort"          -> "AbortInsidePoolOrFinalize"

TraceInit == Init /\ tid = 1 /\ i = 1 /\ bad = "ok" /\ at = 0
Consume == /\ tid <= Len(Traces) /\ i <= Len(Ev) /\ bad = "ok"
           /\ Step(E) /\ i' = i + 1 /\ UNCHANGED <<tid, bad, at>>
Reject  == /\ tid <= Len(Traces) /\ i <= Len(Ev) /\ bad = "ok"
           /\ ~ENABLED Step(E)
           /\ bad' = Clause(E) /\ at' = i /\ UNCHANGED <<tid, i>> /\ UNCHANGED vars
Finish  == /\ tid <= Len(Traces) /\ (i > Len(Ev) \/ bad # "ok")
           /\ PrintT(<<"VERDICT", tid, IF bad = "ok" /\ phase # "idle" THEN "UnfinishedRun" ELSE bad, "ok", at>>)
           /\ tid' = tid + 1 /\ i' = 1 /\ bad' = "ok" /\ at' = 0
           /\ phase' = "idle" /\ cur' = NoFile /\ acc' = 0 /\ want' = 0 /\ got' = 0 /\ begun' = 0
TraceNext == Consume \/ Reject \/ Finish
TraceSpec == TraceInit /\ [][TraceNext]_<<vars, tvars>>
TraceInv == TRUE
=============================================================================
