------------------------------- MODULE RootTrace -------------------------------
(* records: [explicit, config, exit, hidden (sequence of candidate letters whose probe file was NOT reported)] *)
EXTENDS Root, Sequences, IOUtils, TLCExt
Traces == JsonDeserialize(IOEnv.TRACE_FILE)
VARIABLE tid
Rec == Traces[tid]
LayerA == IF Fails(Rec.explicit) THEN (IF Rec.exit = 2 THEN "ok" ELSE "BadRootAccepted")
          ELSE IF Rec.exit \notin {0, 1} THEN "RunFailed"
          ELSE IF Rec.hidden = <<RootOf(Rec.explicit, Rec.config)>> THEN "ok"
          ELSE IF Rec.hidden = <<>> THEN "NoIgnoreFileApplied"
          ELSE "WrongRoot"
TraceInit == tid = 1 /\ explicit = "none" /\ config = "none" /\ cwd = "inside" /\ target = "abs" /\ done = FALSE
TraceNext == /\ tid <= Len(Traces) /\ PrintT(<<"VERDICT", tid, LayerA, "ok", 0>>) /\ tid' = tid + 1 /\ UNCHANGED vars
TraceSpec == TraceInit /\ [][TraceNext]_<<vars, tid>>
TraceInv == TRUE
=============================================================================
