-------------------------------- MODULE Location --------------------------------
(***************************************************************************)
(* C12: every violation points at a real location of the construct it      *)
(* describes.                                                                *)
(*                                                                           *)
(* A probe file holds one construct (the thing a linter reports) laid out   *)
(* by a layout l:                                                            *)
(*   lead     0..MaxLead blank/comment lines at the top of the file          *)
(*   pos      only | last : an unrelated neutral item (t.pre lines) first    *)
(*   depth    0..MaxDepth enclosing frames, one header line each             *)
(*   decor    0..MaxDecor decorator / attribute lines right above the        *)
(*            construct's header                                             *)
(*   split    the header / call / expression is spread over several lines    *)
(*   eol      lf | crlf                                                      *)
(*   finalNl  the file ends with a line terminator or not                    *)
(*   tail     code follows the construct, or the construct ends the file     *)
(* A template t gives the construct's geometry for split and unsplit form:   *)
(* t.lo..t.hi = the lines of the construct (relative to its first header     *)
(* line, decorators excluded) on which the finding may be reported: the      *)
(* `def`/`class`/`fn`/`struct` keyword line, the literal's line, the lines   *)
(* spanned by the call from its first token to its method name.              *)
(*                                                                           *)
(* Layer A, per reported violation v (facts measured on the linted file):    *)
(*   FileInRun     v.inRun                                                   *)
(*   LineInFile    1 <= v.line <= v.nlines                                   *)
(*   ColumnInLine  0 <= v.col <= v.lineLen  (UTF-8 bytes of that line, no    *)
(*                 terminator: ast and tree-sitter both count bytes)         *)
(*   ConstructLine Lo(l, t) <= v.line <= Hi(l, t)                            *)
(*   QuotedOnLine  every name / literal the message quotes from the source   *)
(*                 for this construct occurs on line v.line                  *)
(*   CitedLocation every other location the message cites (DRY "Also found   *)
(*                 in: f:a-b", CQS "Line n") exists in the run, and a DRY    *)
(*                 block starts with the same statement as the cited block   *)
(***************************************************************************)
EXTENDS Integers, Sequences, FiniteSets, TLC, Json

CONSTANTS MaxLead, MaxDepth, MaxDecor

Positions == {"only", "last"}
Eols == {"lf", "crlf"}

VARIABLES lead, pos, depth, decor, split, eol, finalNl, tail, done
vars == <<lead, pos, depth, decor, split, eol, finalNl, tail, done>>
Init == lead = 0 /\ pos = "only" /\ depth = 0 /\ decor = 0 /\ split = FALSE /\ eol = "lf" /\ finalNl = TRUE
        /\ tail = TRUE /\ done = FALSE
Choose(a, p, d, k, s, e, f, t) ==
    /\ ~done /\ lead' = a /\ pos' = p /\ depth' = d /\ decor' = k /\ split' = s /\ eol' = e /\ finalNl' = f
    /\ tail' = t /\ done' = TRUE
Next == \E a \in 0..MaxLead, p \in Positions, d \in 0..MaxDepth, k \in 0..MaxDecor, s \in BOOLEAN, e \in Eols,
           f \in BOOLEAN, t \in BOOLEAN : Choose(a, p, d, k, s, e, f, t)
Spec == Init /\ [][Next]_vars
Emit == done => PrintT(<<"CASE", ToJson([lead |-> lead, pos |-> pos, depth |-> depth, decor |-> decor, split |-> split,
                                          eol |-> eol, finalNl |-> finalNl, tail |-> tail])>>)

\* ---- layer A ----------------------------------------------------------------------------------------
\* first header line of the construct (after its decorators)
Top(l, t) == l.lead + (IF l.pos = "last" THEN t.pre ELSE 0) + l.depth + l.decor + 1
Lo(l, t) == Top(l, t) + t.lo - 1
Hi(l, t) == Top(l, t) + t.hi - 1

Verdict(l, t, v) ==
    IF ~v.inRun THEN "FileInRun"
    ELSE IF v.line < 1 \/ v.line > v.nlines THEN "LineInFile"
    ELSE IF v.col < 0 \/ v.col > v.lineLen THEN "ColumnInLine"
    ELSE IF ~t.free /\ (v.line < Lo(l, t) \/ v.line > Hi(l, t)) THEN "ConstructLine"
    ELSE IF ~v.quotedOnLine THEN "QuotedOnLine"
    ELSE IF ~v.citedOk THEN "CitedLocation"
    ELSE "ok"

\* ---- laws of the requirement over the layout space -----------------------------------------------------
L == [lead |-> lead, pos |-> pos, depth |-> depth, decor |-> decor]
T1 == [pre |-> 4, lo |-> 1, hi |-> 1, free |-> FALSE]       \* a one-line header
T3 == [pre |-> 4, lo |-> 1, hi |-> 3, free |-> FALSE]       \* a call spread over three lines
Good(t, line) == [inRun |-> TRUE, line |-> line, nlines |-> Hi(L, t) + 2, col |-> 4, lineLen |-> 20, quotedOnLine |-> TRUE, citedOk |-> TRUE]
LawsHold ==
    done =>
        /\ Lo(L, T1) >= 1 /\ Lo(L, T3) <= Hi(L, T3)
        /\ Verdict(L, T1, Good(T1, Lo(L, T1))) = "ok"
        /\ \A k \in Lo(L, T3)..Hi(L, T3) : Verdict(L, T3, Good(T3, k)) = "ok"
        \* a decorator line, the line after the construct range, line 0 and a line past the file are all rejected
        /\ (decor > 0 => Verdict(L, T1, Good(T1, Lo(L, T1) - 1)) = "ConstructLine")
        /\ Verdict(L, T1, Good(T1, Hi(L, T1) + 1)) = "ConstructLine"
        /\ Verdict(L, T1, Good(T1, 0)) = "LineInFile"
        /\ Verdict(L, T1, Good(T1, Hi(L, T1) + 3)) = "LineInFile"
        /\ Verdict(L, T1, [Good(T1, Lo(L, T1)) EXCEPT !.col = 21]) = "ColumnInLine"
        /\ Verdict(L, T1, [Good(T1, Lo(L, T1)) EXCEPT !.col = -1]) = "ColumnInLine"
        /\ Verdict(L, T1, [Good(T1, Lo(L, T1)) EXCEPT !.quotedOnLine = FALSE]) = "QuotedOnLine"
        /\ Verdict(L, T1, [Good(T1, Lo(L, T1)) EXCEPT !.inRun = FALSE]) = "FileInRun"
        /\ Verdict(L, T1, [Good(T1, Lo(L, T1)) EXCEPT !.citedOk = FALSE]) = "CitedLocation"
=============================================================================
