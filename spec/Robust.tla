-------------------------------- MODULE Robust --------------------------------
(***************************************************************************)
(* C11: no input makes a linter crash, hang, or silently drop its analysis. *)
(*                                                                           *)
(* A damaged file is a seed file (valid source of some language) with a     *)
(* sequence of fault operations applied; it is placed among healthy         *)
(* siblings.  One run yields, per (rule, file), a check outcome (ok /       *)
(* failed: an exception swallowed by the orchestrator, recorded by the H1   *)
(* tap), an exit code, and the findings of the siblings.                    *)
(* Requirement: every outcome ok, exit in {0,1}, termination, siblings'     *)
(* findings equal to the baseline without the damaged file - both when the  *)
(* directory is walked and when the files are listed explicitly with the    *)
(* damaged file first or in the middle (r.siblings_same covers both runs).  *)
(***************************************************************************)
EXTENDS Naturals, Sequences, FiniteSets, TLC, Json

CONSTANT MaxFaults

Seeds == {"python", "typescript", "javascript", "rust", "script"}   \* script: extensionless, python shebang
\* cutDirective: a suppression comment cut before its closing bracket (`thailint: ignore[rule-a,rule-b` ...)
\* formatLiterals: valid code comparing a variable with the strings "{", "}", "{0}", "%s" (they reach the messages of
\* cross-file findings)
\* hugeHex: one integer literal of 5000 hexadecimal digits (beyond CPython's int -> str digit limit)
\* truncInParen: cut inside a construct that is open across lines (multi-line import, parameter list, use-group)
Ops == {"truncTiny", "truncQuarter", "truncHalf", "truncMost", "truncInParen", "quoteFlood", "deleteToken", "dupToken", "dupLine",
        "openParen", "closeParen", "openBrace", "closeBracket", "openQuote", "openTriple",
        "bom", "crlf", "mixedEol", "latin1", "invalidUtf8", "nulBytes", "controlChars",
        "nestParens", "nestBlocks", "longLine", "longExpr", "manyLines", "hugeHex", "cutDirective", "formatLiterals",
        "empty", "whitespaceOnly", "unknownExt", "binary", "onlyComment", "tabsAndSpaces"}
\* operations that replace the whole content make earlier operations irrelevant
Replacing == {"empty", "whitespaceOnly", "binary", "onlyComment"}

VARIABLES seed, faults, done
vars == <<seed, faults, done>>
Init == seed \in Seeds /\ faults = <<>> /\ done = FALSE
Add(o) == /\ ~done /\ Len(faults) < MaxFaults
          /\ (o \in Replacing => faults = <<>>)
          /\ (\A i \in 1..Len(faults) : faults[i] # o /\ faults[i] \notin Replacing)
          /\ faults' = Append(faults, o) /\ UNCHANGED <<seed, done>>
Finish == ~done /\ Len(faults) >= 1 /\ done' = TRUE /\ UNCHANGED <<seed, faults>>
Next == (\E o \in Ops : Add(o)) \/ Finish
Spec == Init /\ [][Next]_vars
Emit == done => PrintT(<<"CASE", ToJson([seed |-> seed, faults |-> faults])>>)

\* ---- requirement over one observed run --------------------------------------------------------
Verdict(r) == IF r.hang THEN "Hang"
              ELSE IF \E i \in 1..Len(r.exits) : r.exits[i] \notin {0, 1} THEN "Crash"
              ELSE IF r.failed > 0 THEN "RuleFailed"
              ELSE IF ~r.siblings_same THEN "SiblingsChanged"
              ELSE "ok"
=============================================================================
