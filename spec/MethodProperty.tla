----------------------------- MODULE MethodProperty -----------------------------
(***************************************************************************)
(* Beyond the listed properties (X07): the method-property rule as          *)
(* documented (docs/method-property-linter.md, "Detection Patterns" and     *)
(* "Exclusion Rules").                                                       *)
(*                                                                           *)
(* A method has a return pattern (one of the five documented detection      *)
(* patterns), a number of pure local statements in front of the return      *)
(* (body length = locals + 1) and a set of excluding features:              *)
(*   param          takes a parameter besides self                           *)
(*   sideEffect     assigns to self.<attr>                                   *)
(*   static / classm / abstract / otherDeco   is decorated                   *)
(*   flowIf / flowFor / flowWhile / flowTry   contains control flow          *)
(*   externalCall   returns the result of calling a module-level function   *)
(*   dunder         is a __dunder__ method                                   *)
(*   actionPrefix / actionName   to_dict / finalize style action verbs       *)
(*   configured     its name is listed in ignore_methods                    *)
(* Layer A: reported (once, at the def line) iff no excluding feature is    *)
(* present and the body has at most max_body_statements statements.         *)
(***************************************************************************)
EXTENDS Naturals, Sequences, FiniteSets, TLC, Json

CONSTANTS MaxFeatures
Patterns == {"attrReturn", "getPrefix", "computed", "boolExpr", "fstring"}
Excluding == {"param", "sideEffect", "static", "classm", "abstract", "otherDeco", "flowIf", "flowFor", "flowWhile",
              "flowTry", "externalCall", "dunder", "actionPrefix", "actionName", "configured"}
Decos == {"static", "classm", "abstract", "otherDeco"}
Flows == {"flowIf", "flowFor", "flowWhile", "flowTry"}
Names == {"dunder", "actionPrefix", "actionName", "configured"}

VARIABLES pattern, feats, locals, maxBody, done
vars == <<pattern, feats, locals, maxBody, done>>
Init == pattern = "attrReturn" /\ feats = {} /\ locals = 0 /\ maxBody = 3 /\ done = FALSE
Compatible(p, F) == /\ Cardinality(F \cap Decos) <= 1 /\ Cardinality(F \cap Flows) <= 1 /\ Cardinality(F \cap Names) <= 1
                    /\ (p = "getPrefix" => F \cap Names = {})        \* the name is the pattern there
Choose(p, F, l, mb) == /\ ~done /\ Cardinality(F) <= MaxFeatures /\ Compatible(p, F)
                       /\ pattern' = p /\ feats' = F /\ locals' = l /\ maxBody' = mb /\ done' = TRUE
\* feature sets of at most two features (MaxFeatures = 2), enumerated directly
Small == {{}} \cup {{a} : a \in Excluding} \cup {{a, b} : a \in Excluding, b \in Excluding}
Next == \E p \in Patterns, F \in Small, l \in 0..3, mb \in {2, 3, 5} : Choose(p, F, l, mb)
Spec == Init /\ [][Next]_vars
SetToSeq(S) == LET RECURSIVE G(_) G(T) == IF T = {} THEN <<>> ELSE LET x == CHOOSE y \in T : TRUE IN <<x>> \o G(T \ {x}) IN G(S)
Emit == done => PrintT(<<"CASE", ToJson([pattern |-> pattern, feats |-> SetToSeq(feats), locals |-> locals, maxBody |-> maxBody])>>)

\* statements of the body: the local statements, the return, one more for a side effect
BodyLen(F, l) == l + 1 + (IF "sideEffect" \in F THEN 1 ELSE 0)
Expected(F, l, mb) == IF F = {} /\ BodyLen(F, l) <= mb THEN 1 ELSE 0

LawsHold == done => /\ \A x \in Excluding : Expected(feats \cup {x}, locals, maxBody) = 0
                    /\ Expected(feats, locals + 1, maxBody) <= Expected(feats, locals, maxBody)
=============================================================================
