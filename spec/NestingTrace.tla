----------------------------- MODULE NestingTrace -----------------------------
(* Batch judgement of C01 records.  One record = one rendered file: its functions (token sequence as
   built by Nesting.tla, header line) and, for every limit L tried, the set of <<line, depth>> pairs the
   tool reported.  Expected: exactly the functions with DepthOf > L, at their header line, with that depth. *)
EXTENDS Nesting, IOUtils, TLCExt

Traces == JsonDeserialize(IOEnv.TRACE_FILE)
VARIABLE tid
Rec == Traces[tid]
SeqSet(s) == {s[i] : i \in 1..Len(s)}

D(f) == DepthOf(f.toks, 0, 1)
ExpectedAt(L) == {<<f.line, D(f)>> : f \in {g \in SeqSet(Rec.funcs) : D(g) > L}}
Observed(run) == {<<p[1], p[2]>> : p \in SeqSet(run.reported)}
RunVerdict(run) ==
    LET e == ExpectedAt(run.L)  o == Observed(run) IN
    IF o = e THEN "ok"
    ELSE IF {p[1] : p \in o} = {p[1] : p \in e} THEN "DepthEq"       \* same functions, other depth in message
    ELSE IF \E p \in o : p[1] \notin {f.line : f \in SeqSet(Rec.funcs)} THEN "HeaderLine"
    ELSE "FlagEq"
Bad == {i \in 1..Len(Rec.runs) : RunVerdict(Rec.runs[i]) # "ok"}
LayerA == IF Bad = {} THEN "ok" ELSE RunVerdict(Rec.runs[CHOOSE i \in Bad : \A j \in Bad : i <= j])

TraceInit == tid = 1 /\ toks = <<>> /\ stack = <<>> /\ nodes = 0 /\ maxd = 1 /\ done = FALSE
TraceNext == /\ tid <= Len(Traces)
             /\ PrintT(<<"VERDICT", tid, LayerA, "ok", 0>>)
             /\ tid' = tid + 1 /\ UNCHANGED vars
TraceSpec == TraceInit /\ [][TraceNext]_<<vars, tid>>
TraceInv == TRUE
=============================================================================
