------------------------------ MODULE StringlyTrace ------------------------------
(* Batch judgement of X02 records.  One record = one project linted under one configuration:
   [valid, calls, cfg, setObs (sequence of [f, s, n]), funcObs (sequence of [f, g, n]), stray]. *)
EXTENDS Stringly, IOUtils, TLCExt

Traces == JsonDeserialize(IOEnv.TRACE_FILE)
VARIABLE tid
Rec == Traces[tid]

ObsSet(f, s) == LET m == {i \in 1..Len(Rec.setObs) : Rec.setObs[i].f = f /\ Rec.setObs[i].s = s}
                IN IF m = {} THEN 0 ELSE Rec.setObs[CHOOSE i \in m : TRUE].n
ObsFunc(f, g) == LET m == {i \in 1..Len(Rec.funcObs) : Rec.funcObs[i].f = f /\ Rec.funcObs[i].g = g}
                 IN IF m = {} THEN 0 ELSE Rec.funcObs[CHOOSE i \in m : TRUE].n
V == [f \in 1..NFiles |-> [s \in Sets |-> Rec.valid[f][s]]]
C == [f \in 1..NFiles |-> [g \in Funcs |-> {Rec.calls[f][g][i] : i \in 1..Len(Rec.calls[f][g])}]]
Cfg == [minOcc |-> Rec.cfg.minOcc, minVals |-> Rec.cfg.minVals, maxVals |-> Rec.cfg.maxVals,
        allowed |-> {Rec.cfg.allowed[i] : i \in 1..Len(Rec.cfg.allowed)}]
Cmp(e, o) == IF o < e THEN "Missed" ELSE IF e = 0 THEN "Spurious" ELSE "Duplicate"
BadSets == {<<f, s>> \in (1..NFiles) \X Sets : ObsSet(f, s) # ExpectedSet(V, Cfg, f, s)}
BadFuncs == {<<f, g>> \in (1..NFiles) \X Funcs : ObsFunc(f, g) # ExpectedFunc(C, Cfg, f, g)}
LayerA == IF Rec.stray > 0 THEN "StrayFinding"
          ELSE IF BadSets # {} THEN LET p == CHOOSE x \in BadSets : TRUE
                                    IN "Validation" \o Cmp(ExpectedSet(V, Cfg, p[1], p[2]), ObsSet(p[1], p[2]))
          ELSE IF BadFuncs # {} THEN LET p == CHOOSE x \in BadFuncs : TRUE
                                     IN "Call" \o Cmp(ExpectedFunc(C, Cfg, p[1], p[2]), ObsFunc(p[1], p[2]))
          ELSE "ok"

TraceInit == tid = 1 /\ Init
TraceNext == /\ tid <= Len(Traces)
             /\ PrintT(<<"VERDICT", tid, LayerA, "ok", 0>>)
             /\ tid' = tid + 1 /\ UNCHANGED vars
TraceSpec == TraceInit /\ [][TraceNext]_<<vars, tid>>
TraceInv == TRUE
=============================================================================
