-------------------------- MODULE OrchestratorTrace --------------------------
(***************************************************************************)
(* Batch trace validation for C08/C10 histories.  Each record is one        *)
(* history executed on one real long-lived Linter: the operations and, for  *)
(* every lint call, the projection of what the used object returned, what a *)
(* fresh object returned, and whether the two full violation bags agree.    *)
(* Operations are replayed through the actions of Orchestrator.tla.         *)
(*   layer A: used = fresh at every call (HistoryFree, observed)             *)
(*   layer B: the model's `last` equals the observed projection (drift)      *)
(***************************************************************************)
EXTENDS Orchestrator, Json, IOUtils, TLCExt

Traces == JsonDeserialize(IOEnv.TRACE_FILE)

VARIABLES tid, l, k, va, vb, at
tvars == <<vars, tid, l, k, va, vb, at>>

Rec == Traces[tid]
ToSet(s) == {s[i] : i \in 1..Len(s)}
Live == tid <= Len(Traces)
IsLint(o) == o[1] \in {"lintfile", "lintdir", "lintfiles"}

ModelStep(o) ==
    \/ o[1] = "write"     /\ Write(o[2], o[3])
    \/ o[1] = "delete"    /\ Delete(o[2])
    \/ o[1] = "lintfile"  /\ LintFile(o[2])
    \/ o[1] = "lintdir"   /\ LintDir
    \/ o[1] = "lintfiles" /\ LintFiles(ToSet(o[4]))

Obs(step, field) == {<<x[1], x[2]>> : x \in ToSet(step[field])}
StepOkA(s) == s.same /\ Obs(s, "used") = Obs(s, "fresh")

Consume ==
    /\ Live /\ vb # "stuck" /\ l <= Len(Rec.hist)
    /\ ModelStep(Rec.hist[l])
    /\ l' = l + 1 /\ tid' = tid
    /\ IF IsLint(Rec.hist[l])
         THEN /\ k' = k + 1
              /\ va' = IF va = "ok" /\ ~StepOkA(Rec.steps[k + 1]) THEN "HistoryDependent" ELSE va
              /\ vb' = IF vb = "ok" /\ last' # Obs(Rec.steps[k + 1], "used") THEN "LastDiffers" ELSE vb
              /\ at' = IF (va = "ok" /\ va' # "ok") \/ (vb = "ok" /\ vb' # "ok" /\ va' = "ok") THEN l ELSE at
         ELSE UNCHANGED <<k, va, vb, at>>

Stuck == /\ Live /\ vb # "stuck" /\ l <= Len(Rec.hist)
         /\ ~ENABLED ModelStep(Rec.hist[l])
         /\ vb' = "stuck" /\ at' = l
         /\ UNCHANGED <<vars, tid, l, k, va>>

\* remaining observed steps are still judged by layer A even if the model got stuck
RestA == IF \E j \in 1..Len(Rec.steps) : ~StepOkA(Rec.steps[j]) THEN "HistoryDependent" ELSE "ok"

EndTrace == /\ Live /\ (vb = "stuck" \/ l > Len(Rec.hist))
            /\ PrintT(<<"VERDICT", tid, IF va # "ok" THEN va ELSE RestA, vb, at>>)
            /\ tid' = tid + 1 /\ l' = 1 /\ k' = 0 /\ va' = "ok" /\ vb' = "ok" /\ at' = 0
            /\ fs' = [p \in Paths |-> 0] /\ dryRows' = {} /\ strRows' = {}
            /\ last' = {} /\ pure' = {} /\ hist' = <<>>

TraceInit == Init /\ tid = 1 /\ l = 1 /\ k = 0 /\ va = "ok" /\ vb = "ok" /\ at = 0
TraceNext == Consume \/ Stuck \/ EndTrace
TraceSpec == TraceInit /\ [][TraceNext]_tvars
TraceInv == TRUE
=============================================================================
