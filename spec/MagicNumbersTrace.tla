-------------------------- MODULE MagicNumbersTrace --------------------------
(* Batch judgement of C02 records: rec.observed = findings per item line as [slot, v, n]; rec.stray = findings
   on lines that carry no numeric literal item (non-literal probes, scaffolding); rec.badvalue = findings whose
   message names another value than the literal on that line. *)
EXTENDS MagicNumbers, IOUtils, TLCExt

Traces == JsonDeserialize(IOEnv.TRACE_FILE)
VARIABLE tid
Rec == Traces[tid]
SeqSet(s) == {s[i] : i \in 1..Len(s)}

A == SeqSet(Rec.allowed)
Obs(it) == LET m == {o \in SeqSet(Rec.observed) : o.slot = it[1] /\ o.v = it[2]} IN
           IF m = {} THEN 0 ELSE (CHOOSE o \in m : TRUE).n
Exp(it) == Count(Rec.lang, A, Rec.maxSmall, Rec.fileKind, it)
LayerA == IF Rec.stray > 0 THEN "NonLiteralReported"
          ELSE IF Rec.badvalue > 0 THEN "WrongValue"
          ELSE IF \E it \in ItemsOf(Rec.lang, Rec.fileKind) : Obs(it) < Exp(it) THEN "Missed"
          ELSE IF \E it \in ItemsOf(Rec.lang, Rec.fileKind) : Obs(it) > Exp(it) /\ Exp(it) = 0 THEN "Spurious"
          ELSE IF \E it \in ItemsOf(Rec.lang, Rec.fileKind) : Obs(it) > Exp(it) THEN "Duplicate"
          ELSE "ok"

TraceInit == tid = 1 /\ lang = "python" /\ allowed = {} /\ maxSmall = 10 /\ fileKind = "plain" /\ done = FALSE
TraceNext == /\ tid <= Len(Traces)
             /\ PrintT(<<"VERDICT", tid, LayerA, "ok", 0>>)
             /\ tid' = tid + 1 /\ UNCHANGED vars
TraceSpec == TraceInit /\ [][TraceNext]_<<vars, tid>>
TraceInv == TRUE
=============================================================================
