--------------------------------- MODULE CqsTrace ---------------------------------
(* Batch judgement of X05 records: the case's fields plus n (findings at the header line) and other. *)
EXTENDS Cqs, IOUtils, TLCExt
Traces == JsonDeserialize(IOEnv.TRACE_FILE)
VARIABLE tid
Rec == Traces[tid]
LayerA == LET e == Expected(Rec.nIn, Rec.nOut, Rec.name, Rec.deco, Rec.fluent, Rec.minOps, Rec.detectFluent) IN
          IF Rec.other > 0 THEN "OtherFinding"
          ELSE IF Rec.n < e THEN "Missed" ELSE IF Rec.n > e /\ e = 0 THEN "Spurious" ELSE IF Rec.n > e THEN "Duplicate" ELSE "ok"
TraceInit == tid = 1 /\ Init
TraceNext == /\ tid <= Len(Traces) /\ PrintT(<<"VERDICT", tid, LayerA, "ok", 0>>) /\ tid' = tid + 1 /\ UNCHANGED vars
TraceSpec == TraceInit /\ [][TraceNext]_<<vars, tid>>
TraceInv == TRUE
=============================================================================
