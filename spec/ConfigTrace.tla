----------------------------- MODULE ConfigTrace -----------------------------
(* Batch judgement of C05 observation records.  For "case" records the carrier combination is loaded
   into the variables of Config.tla and EffectiveA is re-evaluated by TLC; `observed` is the value id
   whose reference run equals the observed result (-1: none). *)
EXTENDS Config, Integers, Sequences, IOUtils, TLCExt

Traces == JsonDeserialize(IOEnv.TRACE_FILE)
VARIABLE tid
Rec == Traces[tid]

LayerA ==
    CASE Rec.kind = "sweep" -> IF ~Rec.distinct THEN "TakesEffect" ELSE IF ~Rec.monotone THEN "Monotone" ELSE "ok"
      [] Rec.kind = "case" -> IF Rec.exit \notin {0, 1} THEN "ExitOnValidConfig"
                              ELSE IF Rec.observed = EffectiveA THEN "ok"
                              ELSE IF Rec.observed = -1 THEN "EffectiveUnknown" ELSE "Precedence"
      [] Rec.kind = "ignore_list" -> IF Rec.exit \notin {0, 1} THEN "ExitOnValidConfig"
                                     ELSE IF Rec.observed = IgnoreWinner THEN "ok" ELSE "IgnoreListCarrier"
      [] Rec.kind = "enabled_true" -> IF Rec.n >= 1 THEN "ok" ELSE "ProbeSilent"
      [] Rec.kind = "disabled" -> IF Rec.n = 0 /\ Rec.exit = 0 THEN "ok" ELSE "Disabled"
      [] Rec.kind = "switch_removes" -> IF Rec.monotone /\ Rec.n >= 0 /\ Rec.n < Rec.base THEN "ok" ELSE "SwitchNoEffect"
      [] Rec.kind = "switch_adds" -> IF Rec.monotone /\ Rec.n > Rec.base THEN "ok" ELSE "SwitchNoEffect"
      [] Rec.kind = "invalid" -> IF Rec.exit = 2 THEN "ok" ELSE "InvalidAccepted"
      [] OTHER -> "UnknownKind"

Load(i) == /\ files' = {c \in Files : Traces[i][c]}
           /\ dash' = Traces[i].dash /\ cli' = Traces[i].cli /\ cliDefault' = Traces[i].cliDefault /\ lang' = Traces[i].lang /\ langOther' = Traces[i].langOther
           /\ spelling' = Traces[i].spelling /\ companion' = Traces[i].companion /\ done' = TRUE

TraceInit == /\ tid = 1 /\ done = TRUE
             /\ files = {c \in Files : Traces[1][c]} /\ dash = Traces[1].dash /\ cli = Traces[1].cli /\ cliDefault = Traces[1].cliDefault
             /\ lang = Traces[1].lang /\ langOther = Traces[1].langOther /\ spelling = Traces[1].spelling /\ companion = Traces[1].companion
TraceNext == /\ tid <= Len(Traces)
             /\ PrintT(<<"VERDICT", tid, LayerA, "ok", 0>>)
             /\ tid' = tid + 1
             /\ IF tid < Len(Traces) THEN Load(tid + 1) ELSE UNCHANGED vars
TraceSpec == TraceInit /\ [][TraceNext]_<<vars, tid>>
TraceInv == TRUE
=============================================================================
