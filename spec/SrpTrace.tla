-------------------------------- MODULE SrpTrace --------------------------------
(* Batch judgement of C16 records.  One record = one rendered file under one configuration: its classes
   (shape + layout as rendered + header line) and what the tool reported per header line: the issue list parsed
   from the message with the stated counts. *)
EXTENDS Srp, IOUtils, TLCExt

Traces == JsonDeserialize(IOEnv.TRACE_FILE)
VARIABLE tid
Rec == Traces[tid]
SeqSet(s) == {s[i] : i \in 1..Len(s)}

Rep(c) == {r \in SeqSet(Rec.reported) : r.line = c.line}
ClassVerdict(c) ==
    LET exp == Issues(c, Rec.cfg) IN
    IF exp = <<>> THEN (IF Rep(c) = {} THEN "ok" ELSE "Spurious")
    ELSE IF Rep(c) = {} THEN "Missed"
    ELSE IF Cardinality(Rep(c)) > 1 THEN "TwoViolations"
    ELSE LET r == CHOOSE x \in Rep(c) : TRUE IN
         IF r.issues # exp THEN "IssueList"
         ELSE IF ("methods" \in SeqSet(exp) /\ (r.methods # Methods(c) \/ r.maxMethods # Rec.cfg.maxMethods)) THEN "MethodCount"
         ELSE IF ("lines" \in SeqSet(exp) /\ (r.loc # Loc(c) \/ r.maxLoc # Rec.cfg.maxLoc)) THEN "LocCount"
         ELSE "ok"
Bad == {c \in SeqSet(Rec.classes) : ClassVerdict(c) # "ok"}
Stray == {r \in SeqSet(Rec.reported) : ~\E c \in SeqSet(Rec.classes) : c.line = r.line}
LayerA == IF Stray # {} THEN "HeaderLine"
          ELSE IF Bad = {} THEN "ok"
          ELSE ClassVerdict(CHOOSE c \in Bad : \A d \in Bad : c.line <= d.line)

TraceInit == tid = 1 /\ cls \in {[pub |-> 0, stat |-> 0, clsm |-> 0, priv |-> 0, dunder |-> 0, prop |-> 0, setter |-> 0,
                                  ctor |-> 0, fill |-> 0, blank |-> 0, comment |-> 0, keyword |-> FALSE]}
             /\ cfg = [maxMethods |-> 1, maxLoc |-> 6, checkKeywords |-> FALSE, keywords |-> "default"] /\ done = FALSE
TraceNext == /\ tid <= Len(Traces)
             /\ PrintT(<<"VERDICT", tid, LayerA, "ok", 0>>)
             /\ tid' = tid + 1 /\ UNCHANGED vars
TraceSpec == TraceInit /\ [][TraceNext]_<<vars, tid>>
TraceInv == TRUE
=============================================================================
