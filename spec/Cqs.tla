---------------------------------- MODULE Cqs ----------------------------------
(***************************************************************************)
(* Beyond the listed properties (X05): the CQS linter's documented rule     *)
(* (docs/cqs-linter.md, "How It Works").                                     *)
(*                                                                           *)
(* A function has nIn INPUT operations (a call whose value is captured),    *)
(* nOut OUTPUT operations (a call statement whose value is discarded), a    *)
(* name kind, a decorator kind, and may end with `return self` / `return    *)
(* this`.  Configuration: min_operations, detect_fluent_interface, and      *)
(* whether the name / decorator was added to ignore_methods /               *)
(* ignore_decorators.                                                        *)
(*                                                                           *)
(* Layer A: the function is reported, once, at its header line, iff          *)
(*   nIn >= min_operations /\ nOut >= min_operations                         *)
(*   /\ its name is not an ignored method (__init__, __new__, configured)    *)
(*   /\ it carries no ignored decorator (property, cached_property, conf.)   *)
(*   /\ ~(detect_fluent_interface /\ it returns self)                        *)
(***************************************************************************)
EXTENDS Naturals, Sequences, FiniteSets, TLC, Json

CONSTANTS MaxOps
NameKinds == {"plain", "init", "new", "configured"}
DecoKinds == {"none", "property", "cachedProperty", "other", "configured"}
Langs == {"python", "typescript"}

VARIABLES lang, nIn, nOut, name, deco, fluent, minOps, detectFluent, done
vars == <<lang, nIn, nOut, name, deco, fluent, minOps, detectFluent, done>>
Init == /\ lang = "python" /\ nIn = 0 /\ nOut = 0 /\ name = "plain" /\ deco = "none" /\ fluent = FALSE
        /\ minOps = 1 /\ detectFluent = TRUE /\ done = FALSE
\* TypeScript: the documented ignore list names no TypeScript method and the pattern tables show no decorators
ValidFor(l, n, d) == l = "python" \/ (n \in {"plain", "configured"} /\ d = "none")
Choose(l, i, o, n, d, f, m, df) ==
    /\ ~done /\ ValidFor(l, n, d)
    /\ lang' = l /\ nIn' = i /\ nOut' = o /\ name' = n /\ deco' = d /\ fluent' = f /\ minOps' = m /\ detectFluent' = df
    /\ done' = TRUE
Next == \E l \in Langs, i \in 0..MaxOps, o \in 0..MaxOps, n \in NameKinds, d \in DecoKinds, f \in BOOLEAN,
           m \in 1..MaxOps, df \in BOOLEAN : Choose(l, i, o, n, d, f, m, df)
Spec == Init /\ [][Next]_vars
Emit == done => PrintT(<<"CASE", ToJson([lang |-> lang, nIn |-> nIn, nOut |-> nOut, name |-> name, deco |-> deco,
                                          fluent |-> fluent, minOps |-> minOps, detectFluent |-> detectFluent])>>)

Reported(i, o, n, d, f, m, df) ==
    /\ i >= m /\ o >= m
    /\ n = "plain"
    /\ d \in {"none", "other"}
    /\ ~(df /\ f)
Expected(i, o, n, d, f, m, df) == IF Reported(i, o, n, d, f, m, df) THEN 1 ELSE 0

\* laws: raising min_operations never adds a finding; a pure query or a pure command is never reported;
\* switching fluent detection off can only add findings
LawsHold ==
    done => /\ Expected(nIn, nOut, name, deco, fluent, minOps + 1, detectFluent) <= Expected(nIn, nOut, name, deco, fluent, minOps, detectFluent)
            /\ (nIn = 0 \/ nOut = 0) => Expected(nIn, nOut, name, deco, fluent, minOps, detectFluent) = 0
            /\ Expected(nIn, nOut, name, deco, fluent, minOps, TRUE) <= Expected(nIn, nOut, name, deco, fluent, minOps, FALSE)
=============================================================================
