----------------------------- MODULE RobustTrace -----------------------------
EXTENDS Robust, IOUtils, TLCExt
Traces == JsonDeserialize(IOEnv.TRACE_FILE)
VARIABLE tid
TraceInit == tid = 1 /\ seed = "python" /\ faults = <<>> /\ done = FALSE
TraceNext == /\ tid <= Len(Traces)
             /\ PrintT(<<"VERDICT", tid, Verdict(Traces[tid]), "ok", 0>>)
             /\ tid' = tid + 1 /\ UNCHANGED vars
TraceSpec == TraceInit /\ [][TraceNext]_<<vars, tid>>
TraceInv == TRUE
=============================================================================
