-------------------------------- MODULE Constants --------------------------------
(***************************************************************************)
(* Beyond the listed properties (X11): DRY's duplicate-constant detection   *)
(* (docs/dry-linter.md, "Duplicate Constants Detection").                   *)
(*                                                                           *)
(* A project has NFiles files; each declares at most one name, in one form: *)
(*   apiTimeout (API_TIMEOUT as a module-level ALL_CAPS constant) and its   *)
(*   three undetected forms: lower (not ALL_CAPS), private (_API_TIMEOUT /  *)
(*   `let`), nested (class-level / `var`);                                   *)
(*   timeoutApi (TIMEOUT_API: same words, other order);                      *)
(*   apiTimeouts (API_TIMEOUTS: edit distance 1);                            *)
(*   max, min (single words, edit distance 2 from each other).               *)
(* Related(a, b): equal names; or two multi-word names with the same word    *)
(* set or an edit distance <= 2.  Single-word names only match exactly.      *)
(* Layer A: a detected declaration is reported (once) iff detection is on    *)
(* and at least min_constant_occurrences files hold a detected declaration   *)
(* related to it (itself included).  Projects in which "related" is not      *)
(* transitive (TIMEOUT_API together with API_TIMEOUTS) carry no verdict.     *)
(***************************************************************************)
EXTENDS Naturals, Sequences, FiniteSets, TLC, Json

CONSTANTS NFiles
Decls == {"none", "apiTimeout", "lower", "private", "nested", "timeoutApi", "apiTimeouts", "max", "min"}
Detected == {"apiTimeout", "timeoutApi", "apiTimeouts", "max", "min"}
Family == {"apiTimeout", "timeoutApi", "apiTimeouts"}
Related(a, b) == a \in Detected /\ b \in Detected /\ (a = b \/ (a \in Family /\ b \in Family))

VARIABLES decl, detect, minOcc, lang, done
vars == <<decl, detect, minOcc, lang, done>>
Init == decl = [f \in 1..NFiles |-> "none"] /\ detect = TRUE /\ minOcc = 2 /\ lang = "python" /\ done = FALSE
Transitive(d) == ~(\E f, g \in 1..NFiles : d[f] = "timeoutApi" /\ d[g] = "apiTimeouts")
Choose(d, on, m, l) == ~done /\ Transitive(d) /\ decl' = d /\ detect' = on /\ minOcc' = m /\ lang' = l /\ done' = TRUE
Next == \E d \in [1..NFiles -> Decls], on \in BOOLEAN, m \in 2..3, l \in {"python", "typescript"} : Choose(d, on, m, l)
Spec == Init /\ [][Next]_vars
Emit == done => PrintT(<<"CASE", ToJson([decl |-> decl, detect |-> detect, minOcc |-> minOcc, lang |-> lang])>>)

Holders(d, f) == {g \in 1..NFiles : Related(d[f], d[g])}
Expected(d, on, m, f) == IF on /\ d[f] \in Detected /\ Cardinality(Holders(d, f)) >= m THEN 1 ELSE 0
LawsHold == done => /\ \A f \in 1..NFiles : Expected(decl, FALSE, minOcc, f) = 0
                    /\ \A f \in 1..NFiles : Expected(decl, detect, minOcc + 1, f) <= Expected(decl, detect, minOcc, f)
                    /\ \A f, g \in 1..NFiles : Related(decl[f], decl[g]) => Expected(decl, detect, minOcc, f) = Expected(decl, detect, minOcc, g)
=============================================================================
